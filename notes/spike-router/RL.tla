---- MODULE RL ----
EXTENDS Naturals, Sequences, FiniteSets, TLC
CONSTANTS AllowStop, Msgs, Closers, LegacyConcurrentWaits, LegacyStartedFirst, FixHandleClose
VARIABLES srcQ, srcClosed, pump, pumpMsg, loop, loopMsg, hm, runningWg, runningMu, handlersWg,
          hc, run, ctxCancelled, closing, closedCh, closed, closedMu, cl, w1, w2, subCloseCalled,
          rh, startedCh, stopFnSet, user, panicked
vars == <<srcQ, srcClosed, pump, pumpMsg, loop, loopMsg, hm, runningWg, runningMu, handlersWg,
          hc, run, ctxCancelled, closing, closedCh, closed, closedMu, cl, w1, w2, subCloseCalled,
          rh, startedCh, stopFnSet, user, panicked>>
None == "none"
Init == /\ srcQ = Msgs /\ srcClosed = FALSE /\ pump = "off" /\ pumpMsg = None /\ loop = "off" /\ loopMsg = None
        /\ hm = [m \in Msgs |-> "none"] /\ runningWg = 0 /\ runningMu = None /\ handlersWg = 1
        /\ hc = "off" /\ run = "start" /\ ctxCancelled = FALSE /\ closing = FALSE /\ closedCh = FALSE
        /\ closed = FALSE /\ closedMu = None /\ cl = [c \in Closers |-> "idle"] /\ w1 = "off" /\ w2 = "off"
        /\ subCloseCalled = FALSE /\ rh = "subscribe" /\ startedCh = FALSE /\ stopFnSet = FALSE
        /\ user = "wait_started" /\ panicked = FALSE
U(v) == UNCHANGED v
\* RunHandlers (inside Run): subscribe, mark started, set stopFn, spawn loop
RHSubscribe == /\ rh = "subscribe" /\ run = "start"
               /\ IF LegacyStartedFirst THEN startedCh' = TRUE /\ U(stopFnSet) /\ rh' = "after_started"
                  ELSE stopFnSet' = TRUE /\ startedCh' = TRUE /\ rh' = "spawn"
               /\ pump' = "recv"
               /\ U(<<srcQ, srcClosed, pumpMsg, loop, loopMsg, hm, runningWg, runningMu, handlersWg, hc, run, ctxCancelled, closing, closedCh, closed, closedMu, cl, w1, w2, subCloseCalled, user, panicked>>)
RHAfterStarted == /\ rh = "after_started" /\ stopFnSet' = TRUE /\ rh' = "spawn"
               /\ U(<<srcQ, srcClosed, pump, pumpMsg, loop, loopMsg, hm, runningWg, runningMu, handlersWg, hc, run, ctxCancelled, closing, closedCh, closed, closedMu, cl, w1, w2, subCloseCalled, startedCh, user, panicked>>)
RHSpawn == /\ rh = "spawn" /\ rh' = "done" /\ loop' = "recv" /\ hc' = "before_select" /\ run' = "wait_closing"
               /\ U(<<srcQ, srcClosed, pump, pumpMsg, loopMsg, hm, runningWg, runningMu, handlersWg, ctxCancelled, closing, closedCh, closed, closedMu, cl, w1, w2, subCloseCalled, startedCh, stopFnSet, user, panicked>>)
\* user calling Stop() as soon as Started() is closed
UserStop == /\ AllowStop /\ user = "wait_started" /\ startedCh
            /\ IF stopFnSet THEN ctxCancelled' = TRUE /\ srcClosed' = TRUE /\ U(panicked) ELSE panicked' = TRUE /\ U(<<ctxCancelled, srcClosed>>)
            /\ user' = "done"
            /\ U(<<srcQ, pump, pumpMsg, loop, loopMsg, hm, runningWg, runningMu, handlersWg, hc, run, closing, closedCh, closed, closedMu, cl, w1, w2, subCloseCalled, rh, startedCh, stopFnSet>>)
UserSkip == /\ user = "wait_started" /\ user' = "done"
            /\ U(<<srcQ, srcClosed, pump, pumpMsg, loop, loopMsg, hm, runningWg, runningMu, handlersWg, hc, run, ctxCancelled, closing, closedCh, closed, closedMu, cl, w1, w2, subCloseCalled, rh, startedCh, stopFnSet, panicked>>)
\* decorator pump
PumpRecv == /\ pump = "recv"
            /\ \/ \E m \in srcQ : ~srcClosed /\ srcQ' = srcQ \ {m} /\ pumpMsg' = m /\ pump' = "send"
               \/ srcClosed /\ pump' = "done" /\ U(<<srcQ, pumpMsg>>)
            /\ U(<<srcClosed, loop, loopMsg, hm, runningWg, runningMu, handlersWg, hc, run, ctxCancelled, closing, closedCh, closed, closedMu, cl, w1, w2, subCloseCalled, rh, startedCh, stopFnSet, user, panicked>>)
PumpSend == /\ pump = "send" /\ loop = "recv" /\ loopMsg' = pumpMsg /\ loop' = "received" /\ pumpMsg' = None /\ pump' = "recv"
            /\ U(<<srcQ, srcClosed, hm, runningWg, runningMu, handlersWg, hc, run, ctxCancelled, closing, closedCh, closed, closedMu, cl, w1, w2, subCloseCalled, rh, startedCh, stopFnSet, user, panicked>>)
\* handler loop
LoopAdd == /\ loop = "received" /\ runningMu = None /\ runningWg' = runningWg + 1
           /\ hm' = [hm EXCEPT ![loopMsg] = "start"] /\ loopMsg' = None /\ loop' = "recv"
           /\ U(<<srcQ, srcClosed, pump, pumpMsg, runningMu, handlersWg, hc, run, ctxCancelled, closing, closedCh, closed, closedMu, cl, w1, w2, subCloseCalled, rh, startedCh, stopFnSet, user, panicked>>)
LoopEnd == /\ loop = "recv" /\ pump = "done" /\ loop' = "done" /\ handlersWg' = handlersWg - 1
           /\ U(<<srcQ, srcClosed, pump, pumpMsg, loopMsg, hm, runningWg, runningMu, hc, run, ctxCancelled, closing, closedCh, closed, closedMu, cl, w1, w2, subCloseCalled, rh, startedCh, stopFnSet, user, panicked>>)
HMStep(m) == /\ hm[m] \in {"start", "handling"}
             /\ IF hm[m] = "start" THEN hm' = [hm EXCEPT ![m] = "handling"] /\ U(runningWg)
                ELSE hm' = [hm EXCEPT ![m] = "done"] /\ runningWg' = runningWg - 1
             /\ U(<<srcQ, srcClosed, pump, pumpMsg, loop, loopMsg, runningMu, handlersWg, hc, run, ctxCancelled, closing, closedCh, closed, closedMu, cl, w1, w2, subCloseCalled, rh, startedCh, stopFnSet, user, panicked>>)
\* handleClose
HCSelect == /\ hc = "before_select"
            /\ \/ closing /\ hc' = "subclose" /\ subCloseCalled' = TRUE /\ srcClosed' = TRUE /\ U(ctxCancelled)
               \/ ctxCancelled /\ (IF FixHandleClose /\ closing THEN hc' = "subclose" /\ subCloseCalled' = TRUE /\ srcClosed' = TRUE
                                   ELSE hc' = "done" /\ U(<<subCloseCalled, srcClosed>>)) /\ U(ctxCancelled)
            /\ U(<<srcQ, pump, pumpMsg, loop, loopMsg, hm, runningWg, runningMu, handlersWg, run, closing, closedCh, closed, closedMu, cl, w1, w2, rh, startedCh, stopFnSet, user, panicked>>)
HCWaitPump == /\ hc = "subclose" /\ pump = "done" /\ hc' = "done" /\ ctxCancelled' = TRUE
            /\ U(<<srcQ, srcClosed, pump, pumpMsg, loop, loopMsg, hm, runningWg, runningMu, handlersWg, run, closing, closedCh, closed, closedMu, cl, w1, w2, subCloseCalled, rh, startedCh, stopFnSet, user, panicked>>)
\* Run
RunCancel == /\ run = "wait_closing" /\ closing /\ run' = "wait_closed" /\ ctxCancelled' = TRUE /\ srcClosed' = TRUE
            /\ U(<<srcQ, pump, pumpMsg, loop, loopMsg, hm, runningWg, runningMu, handlersWg, hc, closing, closedCh, closed, closedMu, cl, w1, w2, subCloseCalled, rh, startedCh, stopFnSet, user, panicked>>)
RunReturn == /\ run = "wait_closed" /\ closedCh /\ run' = "returned"
            /\ U(<<srcQ, srcClosed, pump, pumpMsg, loop, loopMsg, hm, runningWg, runningMu, handlersWg, hc, ctxCancelled, closing, closedCh, closed, closedMu, cl, w1, w2, subCloseCalled, rh, startedCh, stopFnSet, user, panicked>>)
\* Close callers (only after the router runs)
ClStart(c) == /\ cl[c] = "idle" /\ rh = "done" /\ closedMu = None
              /\ IF closed THEN cl' = [cl EXCEPT ![c] = "returned"] /\ U(<<closedMu, closed, closing, w1, w2>>)
                 ELSE /\ closedMu' = c /\ closed' = TRUE /\ closing' = TRUE /\ cl' = [cl EXCEPT ![c] = "waiting"]
                      /\ w1' = "wait" /\ w2' = IF LegacyConcurrentWaits THEN "lock" ELSE "off"
              /\ U(<<srcQ, srcClosed, pump, pumpMsg, loop, loopMsg, hm, runningWg, runningMu, handlersWg, hc, run, ctxCancelled, closedCh, subCloseCalled, rh, startedCh, stopFnSet, user, panicked>>)
W1Done == /\ w1 = "wait" /\ handlersWg = 0 /\ w1' = "done" /\ w2' = IF LegacyConcurrentWaits THEN w2 ELSE "lock"
          /\ U(<<srcQ, srcClosed, pump, pumpMsg, loop, loopMsg, hm, runningWg, runningMu, handlersWg, hc, run, ctxCancelled, closing, closedCh, closed, closedMu, cl, subCloseCalled, rh, startedCh, stopFnSet, user, panicked>>)
W2Lock == /\ w2 = "lock" /\ runningMu = None /\ runningMu' = "w2" /\ w2' = "wait"
          /\ U(<<srcQ, srcClosed, pump, pumpMsg, loop, loopMsg, hm, runningWg, handlersWg, hc, run, ctxCancelled, closing, closedCh, closed, closedMu, cl, w1, subCloseCalled, rh, startedCh, stopFnSet, user, panicked>>)
W2Done == /\ w2 = "wait" /\ runningWg = 0 /\ runningMu' = None /\ w2' = "done"
          /\ U(<<srcQ, srcClosed, pump, pumpMsg, loop, loopMsg, hm, runningWg, handlersWg, hc, run, ctxCancelled, closing, closedCh, closed, closedMu, cl, w1, subCloseCalled, rh, startedCh, stopFnSet, user, panicked>>)
ClReturn(c) == /\ cl[c] = "waiting" /\ w1 = "done" /\ w2 = "done" /\ closedCh' = TRUE /\ closedMu' = None
               /\ cl' = [cl EXCEPT ![c] = "returned"]
               /\ U(<<srcQ, srcClosed, pump, pumpMsg, loop, loopMsg, hm, runningWg, runningMu, handlersWg, hc, run, ctxCancelled, closing, closed, w1, w2, subCloseCalled, rh, startedCh, stopFnSet, user, panicked>>)
Next == RHSubscribe \/ RHAfterStarted \/ RHSpawn \/ UserStop \/ UserSkip \/ PumpRecv \/ PumpSend \/ LoopAdd \/ LoopEnd
        \/ (\E m \in Msgs : HMStep(m)) \/ HCSelect \/ HCWaitPump \/ RunCancel \/ RunReturn
        \/ (\E c \in Closers : ClStart(c) \/ ClReturn(c)) \/ W1Done \/ W2Lock \/ W2Done
Spec == Init /\ [][Next]_vars /\ WF_vars(Next)
CloseReturned == \E c \in Closers : cl[c] = "returned"
Graceful == CloseReturned => \A m \in Msgs : hm[m] \in {"none", "done"} /\ loop # "received"
NoPanic == ~panicked
RunAfterClose == run = "returned" => closedCh

ctxCancelledByUser == FALSE
SubClosedAtEnd == (~ENABLED Next /\ CloseReturned) => subCloseCalled
AllReturn == <>(\A c \in Closers : cl[c] = "returned")
====
