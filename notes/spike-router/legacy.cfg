SPECIFICATION Spec
CONSTANTS
 Msgs = {"m1","m2"}
 Closers = {c1, c2}
 LegacyConcurrentWaits = TRUE
 LegacyStartedFirst = TRUE
 FixHandleClose = FALSE
INVARIANT Graceful
INVARIANT NoPanic
INVARIANT RunAfterClose

PROPERTY AllReturn
CHECK_DEADLOCK FALSE
