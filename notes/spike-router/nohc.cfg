SPECIFICATION Spec
CONSTANTS
 AllowStop = FALSE
 Msgs = {"m1","m2"}
 Closers = {c1, c2}
 LegacyConcurrentWaits = FALSE
 LegacyStartedFirst = FALSE
 FixHandleClose = FALSE
INVARIANT Graceful
INVARIANT NoPanic
INVARIANT RunAfterClose
INVARIANT SubClosedAtEnd
PROPERTY AllReturn
CHECK_DEADLOCK FALSE
