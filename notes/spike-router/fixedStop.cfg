SPECIFICATION Spec
CONSTANTS
 AllowStop = TRUE
 Msgs = {"m1","m2"}
 Closers = {c1, c2}
 LegacyConcurrentWaits = FALSE
 LegacyStartedFirst = FALSE
 FixHandleClose = TRUE
INVARIANT Graceful
INVARIANT NoPanic
INVARIANT RunAfterClose

PROPERTY AllReturn
CHECK_DEADLOCK FALSE
