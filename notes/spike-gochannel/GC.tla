---- MODULE GC ----
EXTENDS Naturals, Sequences, FiniteSets, TLC
CONSTANTS Blocking, Persistent, Buf,
          Pubs, PubMsg,        \* PubMsg[p] = message published by top-level publisher p
          Msgs, MsgTopic,      \* MsgTopic[m]
          Subs, SubTopic,      \* SubTopic[s]
          PreSubs,             \* subscriptions already registered in Init
          Republish,           \* Republish[s] = message the consumer of s publishes before acking, or "none"
          DoClose, Cancels     \* Cancels \subseteq Subs whose ctx may be cancelled
None == "none"
NoT == <<"none">>
VARIABLES pc,        \* pc[t] for threads
          pm,        \* pm[t] message being published by thread t (pubs and consumers)
          closed, closing, wg, closedMu,
          rwReaders, rwPending, rwWmu, rblocked,
          tmu,       \* topic mutex holder
          reg,       \* reg[topic] set of registered subs
          snap,      \* snap[m] subscribers snapshot for m (or {} )
          sent,      \* sent[m] = TRUE once fanout started
          sstate,    \* sender state: sstate[<<m,s>>] in {"idle","lock","loop","wait","done"}
          settle,    \* settle[<<m,s>>] in {"none","ack","nack"} of current copy
          out,       \* out[s] sequence of messages in output channel (buffer), plus rendezvous slot
          outClosed, sClosing, sClosed, sendMu, cancelled,
          got,       \* got[s] message consumer currently holds or none
          persisted, panicked
vars == <<pc,pm,closed,closing,wg,closedMu,rwReaders,rwPending,rwWmu,rblocked,tmu,reg,snap,sent,sstate,settle,out,outClosed,sClosing,sClosed,sendMu,cancelled,got,persisted,panicked>>

Cons(s) == <<"cons", s>>
SubC(s) == <<"subc", s>>
Tear(s) == <<"tear", s>>
Pub(p)  == <<"pub", p>>
Closer  == <<"closer">>
PubThreads == {Pub(p) : p \in Pubs} \cup {Cons(s) : s \in Subs}
Threads == PubThreads \cup {SubC(s) : s \in Subs} \cup {Tear(s) : s \in Subs} \cup {Closer}
Senders == Msgs \X Subs

Init ==
  /\ pc = [t \in Threads |->
        IF t[1] = "pub" THEN "P_check"
        ELSE IF t[1] = "cons" THEN "C_recv"
        ELSE IF t[1] = "subc" THEN (IF t[2] \in PreSubs THEN "done" ELSE "S_start")
        ELSE IF t[1] = "tear" THEN (IF t[2] \in PreSubs THEN "T_wait" ELSE "off")
        ELSE IF DoClose THEN "X_start" ELSE "done"]
  /\ pm = [t \in PubThreads |-> IF t[1] = "pub" THEN PubMsg[t[2]] ELSE None]
  /\ closed = FALSE /\ closing = FALSE /\ closedMu = NoT
  /\ wg = Cardinality(PreSubs)
  /\ rwReaders = 0 /\ rwPending = FALSE /\ rwWmu = NoT /\ rblocked = {}
  /\ tmu = [tp \in {MsgTopic[m] : m \in Msgs} \cup {SubTopic[s] : s \in Subs} |-> NoT]
  /\ reg = [tp \in DOMAIN tmu |-> {s \in PreSubs : SubTopic[s] = tp}]
  /\ snap = [m \in Msgs |-> {}] /\ sent = [m \in Msgs |-> FALSE]
  /\ sstate = [x \in Senders |-> "idle"] /\ settle = [x \in Senders |-> "none"]
  /\ out = [s \in Subs |-> <<>>] /\ outClosed = [s \in Subs |-> FALSE]
  /\ sClosing = [s \in Subs |-> FALSE] /\ sClosed = [s \in Subs |-> FALSE]
  /\ sendMu = [s \in Subs |-> NoT] /\ cancelled = [s \in Subs |-> FALSE]
  /\ got = [s \in Subs |-> None]
  /\ persisted = [tp \in DOMAIN tmu |-> <<>>] /\ panicked = FALSE

Goto(t, l) == pc' = [pc EXCEPT ![t] = l]

\* ---------------- Publish (threads in PubThreads) ----------------
PCheck(t) == /\ pc[t] = "P_check" /\ closedMu = NoT
             /\ IF closed THEN Goto(t, "P_ret") ELSE Goto(t, "P_rlock")
             /\ UNCHANGED <<pm,closed,closing,wg,closedMu,rwReaders,rwPending,rwWmu,rblocked,tmu,reg,snap,sent,sstate,settle,out,outClosed,sClosing,sClosed,sendMu,cancelled,got,persisted,panicked>>
PRLock(t) == /\ pc[t] = "P_rlock"
             /\ IF rwPending THEN rblocked' = rblocked \cup {t} /\ Goto(t, "P_rblocked") /\ UNCHANGED rwReaders
                ELSE rwReaders' = rwReaders + 1 /\ Goto(t, "P_tmu") /\ UNCHANGED rblocked
             /\ UNCHANGED <<pm,closed,closing,wg,closedMu,rwPending,rwWmu,tmu,reg,snap,sent,sstate,settle,out,outClosed,sClosing,sClosed,sendMu,cancelled,got,persisted,panicked>>
PRAdmitted(t) == /\ pc[t] = "P_rblocked" /\ t \notin rblocked /\ Goto(t, "P_tmu")
             /\ UNCHANGED <<pm,closed,closing,wg,closedMu,rwReaders,rwPending,rwWmu,rblocked,tmu,reg,snap,sent,sstate,settle,out,outClosed,sClosing,sClosed,sendMu,cancelled,got,persisted,panicked>>
PTmu(t) == LET tp == MsgTopic[pm[t]] IN
             /\ pc[t] = "P_tmu" /\ tmu[tp] = NoT /\ tmu' = [tmu EXCEPT ![tp] = t]
             /\ Goto(t, "P_persist")
             /\ UNCHANGED <<pm,closed,closing,wg,closedMu,rwReaders,rwPending,rwWmu,rblocked,reg,snap,sent,sstate,settle,out,outClosed,sClosing,sClosed,sendMu,cancelled,got,persisted,panicked>>
PPersistSend(t) == LET m == pm[t] tp == MsgTopic[m] IN
             /\ pc[t] = "P_persist"
             /\ IF Persistent /\ persisted = <<>>
                  THEN panicked' = TRUE /\ UNCHANGED <<persisted, snap, sent, sstate>> /\ Goto(t, "P_unlock")
                  ELSE /\ persisted' = IF Persistent THEN [persisted EXCEPT ![tp] = Append(@, m)] ELSE persisted
                       /\ snap' = [snap EXCEPT ![m] = reg[tp]] /\ sent' = [sent EXCEPT ![m] = TRUE]
                       /\ sstate' = [x \in Senders |-> IF x[1] = m /\ x[2] \in reg[tp] THEN "lock" ELSE sstate[x]]
                       /\ Goto(t, IF Blocking THEN "P_wait" ELSE "P_unlock") /\ UNCHANGED panicked
             /\ UNCHANGED <<pm,closed,closing,wg,closedMu,rwReaders,rwPending,rwWmu,rblocked,tmu,reg,settle,out,outClosed,sClosing,sClosed,sendMu,cancelled,got>>
PWait(t) == LET m == pm[t] IN
             /\ pc[t] = "P_wait"
             /\ (closing \/ \A s \in snap[m] : sstate[<<m,s>>] = "done")
             /\ Goto(t, "P_unlock")
             /\ UNCHANGED <<pm,closed,closing,wg,closedMu,rwReaders,rwPending,rwWmu,rblocked,tmu,reg,snap,sent,sstate,settle,out,outClosed,sClosing,sClosed,sendMu,cancelled,got,persisted,panicked>>
PUnlock(t) == LET tp == MsgTopic[pm[t]] IN
             /\ pc[t] = "P_unlock" /\ tmu' = [tmu EXCEPT ![tp] = NoT] /\ rwReaders' = rwReaders - 1
             /\ Goto(t, "P_ret")
             /\ UNCHANGED <<pm,closed,closing,wg,closedMu,rwPending,rwWmu,rblocked,reg,snap,sent,sstate,settle,out,outClosed,sClosing,sClosed,sendMu,cancelled,got,persisted,panicked>>
PRet(t) == /\ pc[t] = "P_ret"
           /\ IF t[1] = "pub" THEN Goto(t, "done") ELSE Goto(t, "C_settle")
           /\ UNCHANGED <<pm,closed,closing,wg,closedMu,rwReaders,rwPending,rwWmu,rblocked,tmu,reg,snap,sent,sstate,settle,out,outClosed,sClosing,sClosed,sendMu,cancelled,got,persisted,panicked>>

\* ---------------- write lock helpers ----------------
WAnnounce(t, from, to) == /\ pc[t] = from /\ rwWmu = NoT /\ rwWmu' = t /\ rwPending' = TRUE /\ Goto(t, to)
WAcquired(t) == rwWmu = t /\ rwReaders = 0
WUnlockVars == /\ rwPending' = FALSE /\ rwWmu' = NoT /\ rwReaders' = rwReaders + Cardinality(rblocked) /\ rblocked' = {}

\* ---------------- Subscribe caller ----------------
SStart(s) == LET t == SubC(s) IN
             /\ pc[t] = "S_start" /\ closedMu = NoT
             /\ IF closed THEN Goto(t, "done") /\ UNCHANGED wg ELSE wg' = wg + 1 /\ Goto(t, "S_lock")
             /\ UNCHANGED <<pm,closed,closing,closedMu,rwReaders,rwPending,rwWmu,rblocked,tmu,reg,snap,sent,sstate,settle,out,outClosed,sClosing,sClosed,sendMu,cancelled,got,persisted,panicked>>
SAnnounce(s) == /\ WAnnounce(SubC(s), "S_lock", "S_acq")
             /\ UNCHANGED <<pm,closed,closing,wg,closedMu,rwReaders,rblocked,tmu,reg,snap,sent,sstate,settle,out,outClosed,sClosing,sClosed,sendMu,cancelled,got,persisted,panicked>>
\* acquire, topic mutex (always free under the write lock), spawn teardown, (replay), register, unlock: one step (replay goroutine inherits the lock; no blocking op inside)
SRegister(s) == LET t == SubC(s) tp == SubTopic[s] IN
             /\ pc[t] = "S_acq" /\ WAcquired(t) /\ tmu[tp] = NoT
             /\ reg' = [reg EXCEPT ![tp] = @ \cup {s}]
             /\ sstate' = [x \in Senders |-> IF Persistent /\ persisted # <<>> /\ x[2] = s /\ (\E i \in DOMAIN persisted[tp] : persisted[tp][i] = x[1]) THEN "lock" ELSE sstate[x]]
             /\ WUnlockVars
             /\ pc' = [pc EXCEPT ![t] = "done", ![Tear(s)] = "T_wait"]
             /\ UNCHANGED <<pm,closed,closing,wg,closedMu,tmu,snap,sent,settle,out,outClosed,sClosing,sClosed,sendMu,cancelled,got,persisted,panicked>>

\* ---------------- teardown goroutine ----------------
Cancel(s) == /\ s \in Cancels /\ ~cancelled[s] /\ pc[Tear(s)] # "off" /\ cancelled' = [cancelled EXCEPT ![s] = TRUE]
             /\ UNCHANGED <<pc,pm,closed,closing,wg,closedMu,rwReaders,rwPending,rwWmu,rblocked,tmu,reg,snap,sent,sstate,settle,out,outClosed,sClosing,sClosed,sendMu,got,persisted,panicked>>
TWake(s) == LET t == Tear(s) IN
             /\ pc[t] = "T_wait" /\ (cancelled[s] \/ closing)
             /\ sClosing' = [sClosing EXCEPT ![s] = TRUE] /\ Goto(t, "T_sendmu")
             /\ UNCHANGED <<pm,closed,closing,wg,closedMu,rwReaders,rwPending,rwWmu,rblocked,tmu,reg,snap,sent,sstate,settle,out,outClosed,sClosed,sendMu,cancelled,got,persisted,panicked>>
TCloseOut(s) == LET t == Tear(s) IN
             /\ pc[t] = "T_sendmu" /\ sendMu[s] = NoT
             /\ sClosed' = [sClosed EXCEPT ![s] = TRUE] /\ outClosed' = [outClosed EXCEPT ![s] = TRUE]
             /\ Goto(t, "T_lock")
             /\ UNCHANGED <<pm,closed,closing,wg,closedMu,rwReaders,rwPending,rwWmu,rblocked,tmu,reg,snap,sent,sstate,settle,out,sClosing,sendMu,cancelled,got,persisted,panicked>>
TAnnounce(s) == /\ WAnnounce(Tear(s), "T_lock", "T_acq")
             /\ UNCHANGED <<pm,closed,closing,wg,closedMu,rwReaders,rblocked,tmu,reg,snap,sent,sstate,settle,out,outClosed,sClosing,sClosed,sendMu,cancelled,got,persisted,panicked>>
TRemove(s) == LET t == Tear(s) tp == SubTopic[s] IN
             /\ pc[t] = "T_acq" /\ WAcquired(t) /\ tmu[tp] = NoT
             /\ reg' = [reg EXCEPT ![tp] = @ \ {s}] /\ wg' = wg - 1 /\ WUnlockVars /\ Goto(t, "done")
             /\ UNCHANGED <<pm,closed,closing,closedMu,tmu,snap,sent,sstate,settle,out,outClosed,sClosing,sClosed,sendMu,cancelled,got,persisted,panicked>>

\* ---------------- sender goroutine per (m,s) ----------------
SendLock(x) == LET s == x[2] IN
             /\ sstate[x] = "lock" /\ sendMu[s] = NoT /\ sendMu' = [sendMu EXCEPT ![s] = x]
             /\ sstate' = [sstate EXCEPT ![x] = "loop"]
             /\ UNCHANGED <<pc,pm,closed,closing,wg,closedMu,rwReaders,rwPending,rwWmu,rblocked,tmu,reg,snap,sent,settle,out,outClosed,sClosing,sClosed,cancelled,got,persisted,panicked>>
SendDone(x) == /\ sendMu' = [sendMu EXCEPT ![x[2]] = NoT] /\ sstate' = [sstate EXCEPT ![x] = "done"]
SendLoop(x) == LET s == x[2] IN
             /\ sstate[x] = "loop"
             /\ \/ /\ sClosed[s] /\ SendDone(x) /\ UNCHANGED <<out, settle>>
                \/ /\ ~sClosed[s] /\ sClosing[s] /\ SendDone(x) /\ UNCHANGED <<out, settle>>
                \/ /\ ~sClosed[s] /\ Len(out[s]) < Buf + 1   \* slot Buf+1 models the rendezvous with a ready receiver
                   /\ (Len(out[s]) < Buf \/ (pc[Cons(s)] = "C_recv" /\ got[s] = None))
                   /\ out' = [out EXCEPT ![s] = Append(@, x[1])]
                   /\ settle' = [settle EXCEPT ![x] = "none"]
                   /\ sstate' = [sstate EXCEPT ![x] = "wait"] /\ UNCHANGED sendMu
             /\ UNCHANGED <<pc,pm,closed,closing,wg,closedMu,rwReaders,rwPending,rwWmu,rblocked,tmu,reg,snap,sent,outClosed,sClosing,sClosed,cancelled,got,persisted,panicked>>
SendWait(x) == LET s == x[2] IN
             /\ sstate[x] = "wait"
             /\ \/ settle[x] = "ack" /\ SendDone(x)
                \/ settle[x] = "nack" /\ sstate' = [sstate EXCEPT ![x] = "loop"] /\ UNCHANGED sendMu
                \/ sClosing[s] /\ SendDone(x)
             /\ UNCHANGED <<pc,pm,closed,closing,wg,closedMu,rwReaders,rwPending,rwWmu,rblocked,tmu,reg,snap,sent,settle,out,outClosed,sClosing,sClosed,cancelled,got,persisted,panicked>>

\* ---------------- consumer (environment) ----------------
CRecv(s) == LET t == Cons(s) IN
             /\ pc[t] = "C_recv" /\ out[s] # <<>> /\ got[s] = None
             /\ got' = [got EXCEPT ![s] = Head(out[s])] /\ out' = [out EXCEPT ![s] = Tail(@)]
             /\ IF Republish[s] # None /\ ~sent[Republish[s]]
                  THEN pm' = [pm EXCEPT ![t] = Republish[s]] /\ Goto(t, "P_check")
                  ELSE Goto(t, "C_settle") /\ UNCHANGED pm
             /\ UNCHANGED <<closed,closing,wg,closedMu,rwReaders,rwPending,rwWmu,rblocked,tmu,reg,snap,sent,sstate,settle,outClosed,sClosing,sClosed,sendMu,cancelled,persisted,panicked>>
CAck(s) == LET t == Cons(s) x == <<got[s], s>> IN
             /\ pc[t] = "C_settle"
             /\ settle' = [settle EXCEPT ![x] = "ack"] /\ got' = [got EXCEPT ![s] = None] /\ Goto(t, "C_recv")
             /\ UNCHANGED <<pm,closed,closing,wg,closedMu,rwReaders,rwPending,rwWmu,rblocked,tmu,reg,snap,sent,sstate,out,outClosed,sClosing,sClosed,sendMu,cancelled,persisted,panicked>>

\* ---------------- Close ----------------
XStart == /\ pc[Closer] = "X_start" /\ closedMu = NoT /\ closedMu' = Closer /\ closed' = TRUE /\ closing' = TRUE
          /\ Goto(Closer, "X_wait")
          /\ UNCHANGED <<pm,wg,rwReaders,rwPending,rwWmu,rblocked,tmu,reg,snap,sent,sstate,settle,out,outClosed,sClosing,sClosed,sendMu,cancelled,got,persisted,panicked>>
XWait == /\ pc[Closer] = "X_wait" /\ wg = 0 /\ persisted' = <<>> /\ closedMu' = NoT /\ Goto(Closer, "done")
          /\ UNCHANGED <<pm,closed,closing,wg,rwReaders,rwPending,rwWmu,rblocked,tmu,reg,snap,sent,sstate,settle,out,outClosed,sClosing,sClosed,sendMu,cancelled,got,panicked>>

Next == \/ \E t \in PubThreads : PCheck(t) \/ PRLock(t) \/ PRAdmitted(t) \/ PTmu(t) \/ PPersistSend(t) \/ PWait(t) \/ PUnlock(t) \/ PRet(t)
        \/ \E s \in Subs : SStart(s) \/ SAnnounce(s) \/ SRegister(s) \/ Cancel(s) \/ TWake(s) \/ TCloseOut(s) \/ TAnnounce(s) \/ TRemove(s) \/ CRecv(s) \/ CAck(s)
        \/ \E x \in Senders : SendLock(x) \/ SendLoop(x) \/ SendWait(x)
        \/ XStart \/ XWait
Spec == Init /\ [][Next]_vars /\ WF_vars(Next)

NoPanic == ~panicked
\* stuck: nothing enabled although some API call has not returned
PubsReturn == <>(\A p \in Pubs : pc[Pub(p)] = "done")
CloseReturns == DoClose => <>(pc[Closer] = "done")
NoStuckPublish == ~(~ENABLED Next /\ \E p \in Pubs : pc[Pub(p)] # "done")
NotNil == persisted # <<>>
NotAfter == ~(persisted = <<>> /\ \E p \in Pubs : pc[Pub(p)] = "P_persist")
====
