SPECIFICATION Spec
CONSTANTS
 p1 = p1
 s1 = s1
 s2 = s2
 Blocking = TRUE
 Persistent = FALSE
 Buf = 0
 Pubs = {p1}
 PubMsg <- PM
 Msgs = {"m1","m2"}
 MsgTopic <- MT
 Subs = {s1, s2}
 SubTopic <- ST
 PreSubs = {s1}
 Republish <- RP
 DoClose = FALSE
 Cancels = {}
INVARIANT NoPanic
INVARIANT NoStuckPublish
CHECK_DEADLOCK FALSE
