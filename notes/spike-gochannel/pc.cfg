SPECIFICATION Spec
CONSTANTS
 p1 = p1
 p2 = p2
 s1 = s1
 s2 = s2
 Blocking = FALSE
 Persistent = TRUE
 Buf = 1
 Pubs = {p1, p2}
 PubMsg <- PM
 Msgs = {"m1","m2"}
 MsgTopic <- MT
 Subs = {s1, s2}
 SubTopic <- ST
 PreSubs = {s1}
 Republish <- RP
 DoClose = TRUE
 Cancels = {s1}
\* INVARIANT NoPanic
CHECK_DEADLOCK FALSE
PROPERTY CloseReturns
