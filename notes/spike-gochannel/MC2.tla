---- MODULE MC2 ----
EXTENDS GC
CONSTANTS p1, p2, s1, s2
PM == [x \in {p1,p2} |-> IF x = p1 THEN "m1" ELSE "m2"]
MT == [m \in {"m1","m2"} |-> "A"]
ST == [s \in {s1,s2} |-> "A"]
RP == [s \in {s1,s2} |-> "none"]
====
