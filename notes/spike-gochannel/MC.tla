---- MODULE MC ----
EXTENDS GC
CONSTANTS p1, s1, s2
PM == [x \in {p1} |-> "m1"]
MT == [m \in {"m1","m2"} |-> IF m = "m1" THEN "A" ELSE "B"]
ST == [s \in {s1,s2} |-> IF s = s1 THEN "A" ELSE "B"]
RP == [s \in {s1,s2} |-> IF s = s1 THEN "m2" ELSE "none"]
====
