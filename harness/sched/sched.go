// Package sched is the gate scheduler built on watermill/verifhook.
//
// A Gate parks every goroutine that reaches hook point P with first id I until
// it is released. Gates are keyed by (point, id) so that many independent runs
// can execute in parallel in one process as long as their ids are unique.
// Besides gates a global perturbation function can be installed (random yields).
package sched

import (
	"math/rand"
	"runtime"
	"sync"
	"sync/atomic"
	"time"

	"github.com/ThreeDotsLabs/watermill/verifhook"
)

type key struct{ point, id string }

type Gate struct {
	k        key
	arrived  chan struct{} // closed on first arrival
	release  chan struct{} // closed by Release
	once     sync.Once
	relOnce  sync.Once
	arrivals int32
	oneShot  bool
	// Abreast: the goroutines parked at the gate leave it at the same instant (each spins, briefly, until all of them are awake)
	Abreast bool
	awake   int32
}

var (
	mu      sync.RWMutex
	gates   = map[key]*Gate{}
	obsMu   sync.RWMutex
	observe = map[string]func(point string, ids []string){} // by id prefix
	yieldP  int32                                           // per-mille probability of a yield at any hook
	rngMu   sync.Mutex
	rng     = rand.New(rand.NewSource(1))
	counts  sync.Map // point -> *int64
)

func init() { verifhook.Set(handle) }

// Seed seeds the perturbation PRNG.
func Seed(s int64) { rngMu.Lock(); rng = rand.New(rand.NewSource(s)); rngMu.Unlock() }

// SetYield sets the per-mille probability that a goroutine yields / sleeps briefly at a hook.
func SetYield(permille int) { atomic.StoreInt32(&yieldP, int32(permille)) }

// Observe registers fn for every hook call one of whose ids starts with prefix
// (runs use ids prefixed with their run number). Returns a function that removes it.
func Observe(prefix string, fn func(point string, ids []string)) func() {
	obsMu.Lock()
	observe[prefix] = fn
	atomic.AddInt32(&nobs, 1)
	obsMu.Unlock()
	return func() {
		obsMu.Lock()
		delete(observe, prefix)
		atomic.AddInt32(&nobs, -1)
		obsMu.Unlock()
	}
}

var nobs int32

var (
	obsIDMu   sync.RWMutex
	observeID = map[string]*idObserver{}
)

// ObserveID registers fn for hook calls whose first id equals id exactly (e.g. verifhook.Ptr of an object).
func ObserveID(id string, fn func(point string, ids []string)) func() {
	// the id is an address: once the object is garbage a later object (of another run) may get the same one and
	// register under the same id, so a registration is removed only by its own unregister function
	reg := &idObserver{fn: fn}
	obsIDMu.Lock()
	if _, had := observeID[id]; !had {
		atomic.AddInt32(&nobs, 1)
	}
	observeID[id] = reg
	obsIDMu.Unlock()
	return func() {
		obsIDMu.Lock()
		if observeID[id] == reg {
			delete(observeID, id)
			atomic.AddInt32(&nobs, -1)
		}
		obsIDMu.Unlock()
	}
}

type idObserver struct {
	fn func(point string, ids []string)
}

func runPrefix(id string) string {
	// ids look like "r<run>-..." ; the prefix is everything up to and including the first '-'
	for i := 0; i < len(id); i++ {
		if id[i] == '-' {
			return id[:i+1]
		}
	}
	return ""
}

func handle(point string, ids ...string) {
	c, _ := counts.LoadOrStore(point, new(int64))
	atomic.AddInt64(c.(*int64), 1)
	if atomic.LoadInt32(&nobs) > 0 {
		if len(ids) > 0 {
			obsIDMu.RLock()
			reg := observeID[ids[0]]
			obsIDMu.RUnlock()
			if reg != nil {
				reg.fn(point, ids)
			}
		}
		for _, x := range ids {
			if p := runPrefix(x); p != "" {
				obsMu.RLock()
				fn := observe[p]
				obsMu.RUnlock()
				if fn != nil {
					fn(point, ids)
				}
				break
			}
		}
	}
	id := ""
	if len(ids) > 0 {
		id = ids[0]
	}
	mu.RLock()
	g := gates[key{point, id}]
	if g == nil && len(ids) > 1 {
		g = gates[key{point, ids[0] + "\x00" + ids[1]}] // a gate for one (id, second id) pair: Park2
	}
	mu.RUnlock()
	if g != nil {
		atomic.AddInt32(&g.arrivals, 1)
		g.once.Do(func() { close(g.arrived) })
		<-g.release
		if g.Abreast {
			atomic.AddInt32(&g.awake, 1)
			for t0 := time.Now(); atomic.LoadInt32(&g.awake) < atomic.LoadInt32(&g.arrivals) && time.Since(t0) < 2*time.Millisecond; {
			}
		}
		return
	}
	if p := atomic.LoadInt32(&yieldP); p > 0 {
		rngMu.Lock()
		x := rng.Intn(1000)
		d := rng.Intn(200)
		rngMu.Unlock()
		if int32(x) < p {
			if x%2 == 0 {
				runtime.Gosched()
			} else {
				time.Sleep(time.Duration(d) * time.Microsecond)
			}
		}
	}
}

// Counts returns how often each hook point was hit so far.
func Counts() map[string]int64 {
	m := map[string]int64{}
	counts.Range(func(k, v any) bool { m[k.(string)] = atomic.LoadInt64(v.(*int64)); return true })
	return m
}

// Park installs a gate at (point, id).
func Park(point, id string) *Gate {
	g := &Gate{k: key{point, id}, arrived: make(chan struct{}), release: make(chan struct{})}
	mu.Lock()
	gates[g.k] = g
	mu.Unlock()
	return g
}

// Park2 installs a gate at a point for the goroutine whose first TWO hook ids are id0, id1 (e.g. message and subscription).
func Park2(point, id0, id1 string) *Gate { return Park(point, id0+"\x00"+id1) }

// Arrived waits until some goroutine is parked at the gate.
func (g *Gate) Arrived(d time.Duration) bool {
	select {
	case <-g.arrived:
		return true
	case <-time.After(d):
		return false
	}
}

// ArrivedCh is closed when the first goroutine parks at the gate.
func (g *Gate) ArrivedCh() <-chan struct{} { return g.arrived }

// Release opens the gate for good and removes it.
func (g *Gate) Release() {
	g.relOnce.Do(func() {
		mu.Lock()
		if gates[g.k] == g {
			delete(gates, g.k)
		}
		mu.Unlock()
		close(g.release)
	})
}

// Arrivals is the number of goroutines that reached the gate.
func (g *Gate) Arrivals() int { return int(atomic.LoadInt32(&g.arrivals)) }
