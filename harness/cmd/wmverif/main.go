// wmverif drives the real watermill code for one property and writes traces.
package main

import (
	"flag"
	"fmt"
	"os"
	"sort"
	"time"

	"wmverif/props"
	"wmverif/sched"
)

func main() {
	prop := flag.String("prop", "", "property id (C01..C20)")
	tier := flag.String("tier", "quick", "quick|thorough")
	seed := flag.Int64("seed", 1, "seed")
	out := flag.String("out", "", "output directory")
	only := flag.String("only", "", "restrict to scenario classes with this prefix")
	list := flag.Bool("list", false, "list properties")
	flag.Parse()
	if *list {
		ids := []string{}
		for k := range props.Registry {
			ids = append(ids, k)
		}
		sort.Strings(ids)
		for _, k := range ids {
			fmt.Println(k)
		}
		return
	}
	d, ok := props.Registry[*prop]
	if !ok || *out == "" {
		fmt.Fprintln(os.Stderr, "usage: wmverif -prop Cxx -out DIR [-tier quick|thorough] [-seed N]")
		os.Exit(2)
	}
	if err := os.MkdirAll(*out, 0o755); err != nil {
		fmt.Fprintln(os.Stderr, err)
		os.Exit(2)
	}
	sched.Seed(*seed)
	c := props.NewCtx(*tier, *seed, *out)
	c.Only = *only
	t0 := time.Now()
	if err := d(c); err != nil {
		fmt.Fprintln(os.Stderr, "driver error:", err)
		os.Exit(2)
	}
	c.Stat("hook_counts", sched.Counts())
	c.Stat("drive_wall_s", time.Since(t0).Seconds())
	if err := c.Finish(); err != nil {
		fmt.Fprintln(os.Stderr, err)
		os.Exit(2)
	}
}
