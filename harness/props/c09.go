package props

import (
	"context"
	"fmt"
	"math/rand"
	"strings"
	"sync"
	"time"

	"github.com/ThreeDotsLabs/watermill/message"

	"wmverif/scripted"
	"wmverif/tr"
)

func init() { Registry["C09"] = runC09 }

// A program is a list of ops:  "R" router-level middleware, "A".."D" handler-level middleware of
// that handler, "+A".."+D" AddHandler, "P"/"S" publisher / subscriber decorator, "!" start (Run the
// first time, RunHandlers afterwards). A final start is implied.  "~" (first op): handler A is registered under the
// empty name "".  "AB2": two middlewares for A and two for B, each pair passed as a spread slice built on ONE backing array
// that the caller reuses; "R2x": two router-level middlewares passed as a spread slice that the caller overwrites afterwards.
// "^" (first op): all handlers share one subscriber object that the application itself wrapped in a transform decorator.
// "&" (first op): all handlers share one publisher object.  "-A": handler A is stopped (it may be added again later).
type c09Prog []string

func c09Enumerate(maxLen int) []c09Prog {
	var res []c09Prog
	var seqs [][]string
	var rec func(cur []string)
	rec = func(cur []string) {
		if len(cur) > 0 {
			seqs = append(seqs, append([]string{}, cur...))
		}
		if len(cur) == maxLen {
			return
		}
		for _, x := range []string{"R", "A", "B"} {
			rec(append(cur, x))
		}
	}
	rec(nil)
	first := func(s []string, x string) int {
		for i, y := range s {
			if y == x {
				return i
			}
		}
		return len(s)
	}
	for _, s := range seqs {
		fa, fb := first(s, "A"), first(s, "B")
		for pa := 0; pa <= fa; pa++ {
			for pb := 0; pb <= fb; pb++ {
				// insert +A before position pa and +B before position pb (A first on ties, and B first as a second variant)
				for _, bFirst := range []bool{false, true} {
					if pa != pb && bFirst {
						continue
					}
					var p c09Prog
					for i := 0; i <= len(s); i++ {
						if bFirst && i == pb {
							p = append(p, "+B")
						}
						if i == pa {
							p = append(p, "+A")
						}
						if !bFirst && i == pb {
							p = append(p, "+B")
						}
						if i < len(s) {
							p = append(p, s[i])
						}
					}
					res = append(res, p)
				}
			}
		}
	}
	return res
}

func c09Random(rng *rand.Rand, maxLen int) c09Prog {
	hs := []string{"A", "B", "C", "D"}
	added := map[string]bool{}
	var p c09Prog
	n := 4 + rng.Intn(maxLen-3)
	starts := 0
	for i := 0; i < n; i++ {
		switch x := rng.Intn(10); {
		case x < 3:
			p = append(p, "R")
		case x < 6:
			var cand []string
			for _, h := range hs {
				if added[h] {
					cand = append(cand, h)
				}
			}
			if len(cand) == 0 {
				p = append(p, "R")
			} else {
				p = append(p, cand[rng.Intn(len(cand))])
			}
		case x < 8:
			var cand []string
			for _, h := range hs {
				if !added[h] {
					cand = append(cand, h)
				}
			}
			if len(cand) > 0 {
				h := cand[rng.Intn(len(cand))]
				added[h] = true
				p = append(p, "+"+h)
			}
		case x == 8:
			if starts < 2 && len(added) > 0 {
				p = append(p, "!")
				starts++
			}
		default:
			p = append(p, "R")
		}
	}
	if len(added) == 0 {
		p = append(c09Prog{"+A"}, p...)
	}
	return p
}

// sprinkle up to 5 publisher and 5 subscriber decorators over the program (before the first start)
func c09AddDecorators(rng *rand.Rand, p c09Prog) c09Prog {
	np, ns := rng.Intn(6), rng.Intn(6)
	lim := len(p)
	for i, op := range p {
		if op == "!" {
			lim = i
			break
		}
	}
	ins := map[int][]string{}
	for i := 0; i < np; i++ {
		k := rng.Intn(lim + 1)
		ins[k] = append(ins[k], "P")
	}
	for i := 0; i < ns; i++ {
		k := rng.Intn(lim + 1)
		ins[k] = append(ins[k], "S")
	}
	var out c09Prog
	for i := 0; i <= len(p); i++ {
		out = append(out, ins[i]...)
		if i < len(p) {
			out = append(out, p[i])
		}
	}
	return out
}

func runC09(c *Ctx) error {
	T := c.Trace("MiddlewareOrderTrace")
	progs := c09Enumerate(c.Pick(5, 6))
	nex := len(progs)
	for i := range progs {
		progs[i] = c09AddDecorators(c.Rng, progs[i])
		if i%4 == 3 {
			progs[i] = append(c09Prog{"~"}, progs[i]...)
		}
	}
	// the caller keeps (and reuses) the slices it passes; and handlers may share a subscriber the application decorated itself
	for _, f := range [][]string{
		strings.Fields("+A +B AB2 R ! "), strings.Fields("R +A +B R2x AB2 A B"), strings.Fields("+A +B R2x ! +C C"),
		strings.Fields("^ S +A +B S A R"), strings.Fields("^ +A S P +B ! +C S B"),
		// one publisher object behind all handlers; decorators added while the router runs apply to the handlers started afterwards
		strings.Fields("& P +A ! P +B ! P +C R !"), strings.Fields("& +A ! P S +B B ! +C P !"),
		// a handler is stopped and another one is added afterwards: its middlewares are its own
		strings.Fields("+A +B A B ! -A +C C !"), strings.Fields("R +A +B +C B A C ! -B +D D ! -A R !"),
		// the handler registered under the empty name stops: what the router forgets with it is that handler's own, not the router-level middlewares
		strings.Fields("~ R +A +B A B R ! -A +C C !"), strings.Fields("~ R R +B +A A ! -A R +C +D C ! -B D +E !"),
		// handlers WITHOUT a publisher whose outputs come from a middleware: the publisher decorators act on them like on any other
		// (the innermost decorator takes care of them itself)
		strings.Fields("% P +A P +B R P !"), strings.Fields("% +A P A ! P P +B B !"), strings.Fields("% R P P +A ! +B P S !"),
	} {
		progs = append(progs, c09Prog(f))
	}
	nex = len(progs)
	nr := c.Pick(200, 10000)
	for i := 0; i < nr; i++ {
		p := c09AddDecorators(c.Rng, c09Random(c.Rng, 20))
		if i%5 == 4 {
			p = append(c09Prog{"^"}, p...)
		}
		progs = append(progs, p)
	}
	runs := make([]*tr.Run, len(progs))
	for i, p := range progs {
		cls := "enum"
		if i >= nex {
			cls = "random"
		}
		runs[i] = T.NewRun(cls, map[string]any{"prog": strings.Join(p, " ")})
		runs[i].Key = strings.Join(p, " ")
	}
	Parallel(len(progs), func(i int) { c09Run(runs[i], progs[i]) })
	c.AddStat("enumerated_programs", nex)
	c.AddStat("random_programs", nr)
	return nil
}

func c09Run(r *tr.Run, prog c09Prog) {
	router, _ := message.NewRouter(message.RouterConfig{CloseTimeout: 5 * time.Second}, nil)
	var mu sync.Mutex
	enter := map[string][]int{} // by message uuid
	leave := map[string][]int{}
	pubOrd := map[string][]int{} // by consumed uuid (outputs are named <uuid>.o)
	subOrd := map[string][]int{}
	mkMw := func(id int) message.HandlerMiddleware {
		return func(h message.HandlerFunc) message.HandlerFunc {
			return func(msg *message.Message) ([]*message.Message, error) {
				mu.Lock()
				enter[msg.UUID] = append(enter[msg.UUID], id)
				mu.Unlock()
				outs, err := h(msg)
				mu.Lock()
				leave[msg.UUID] = append(leave[msg.UUID], id)
				mu.Unlock()
				return outs, err
			}
		}
	}
	subs := map[string]*scripted.Sub{}
	pubs := map[string]*scripted.Pub{}
	handles := map[string]*message.Handler{}
	started := map[string]bool{}
	var order []string
	nreg, npd, nsd := 0, 0, 0
	pendingFailures := 0
	var sharedSub *scripted.Sub
	var sharedPub *scripted.Pub
	var sharedWrapped message.Subscriber
	ctx, cancel := context.WithCancel(context.Background())
	defer cancel()
	runDone := make(chan struct{})
	running := false
	seq := 0
	probe := func() bool {
		// one message through every started handler
		for _, h := range order {
			if !started[h] {
				continue
			}
			seq++
			id := fmt.Sprintf("r%d-%s-%d", r.ID, h, seq)
			msg := message.NewMessage(id, nil)
			if !subs[h].Emit("t"+h, msg) {
				r.Emit("hung", "what", "emit")
				return false
			}
			select {
			case <-msg.Acked():
			case <-msg.Nacked():
				r.Emit("nacked", "h", h)
				return false
			case <-time.After(HangBound):
				r.Emit("hung", "what", "message not settled")
				return false
			}
			mu.Lock()
			e, lv, po, so := enter[id], leave[id], pubOrd[id], subOrd[id]
			mu.Unlock()
			nz := func(x []int) []int {
				if x == nil {
					return []int{}
				}
				return x
			}
			r.Emit("mw", "h", h, "enter", nz(e), "leave", nz(lv))
			r.Emit("pub", "h", h, "order", nz(po))
			r.Emit("sub", "h", h, "order", nz(so))
		}
		return true
	}
	start := func() bool {
		any := false
		for _, h := range order {
			if !started[h] {
				any = true
			}
		}
		if !any {
			return true
		}
		r.Emit("start")
		if !running {
			running = true
			go func() { defer close(runDone); _ = router.Run(ctx) }()
			select {
			case <-router.Running():
			case <-time.After(HangBound):
				r.Emit("hung", "what", "router start")
				return false
			}
		} else {
			err := router.RunHandlers(ctx)
			for retry := 0; err != nil && retry < pendingFailures+1 && retry < 4; retry++ {
				err = router.RunHandlers(ctx) // a decorator failed (once): the caller retries
			}
			pendingFailures = 0
			if err != nil {
				r.Emit("error", "what", err.Error())
				return false
			}
		}
		for _, h := range order {
			if !started[h] {
				select {
				case <-handles[h].Started():
				case <-time.After(HangBound):
					r.Emit("hung", "what", "handler start")
					return false
				}
				started[h] = true
			}
		}
		return probe()
	}
	regName := func(h string) string {
		if h == "A" && len(prog) > 0 && prog[0] == "~" {
			return ""
		}
		return h
	}
	for _, op := range prog {
		switch {
		case op == "~" || op == "^" || op == "&":
		case op == "%":
		case strings.HasPrefix(op, "-"):
			// the handler is stopped (and, once it has ended, forgotten by the router); the others -- and handlers added later -- are not affected
			h := op[1:]
			if handles[h] == nil || !started[h] {
				continue
			}
			handles[h].Stop()
			select {
			case <-handles[h].Stopped():
			case <-time.After(HangBound):
				r.Emit("hung", "what", "Stopped() of a stopped handler")
				return
			}
			time.Sleep(2 * time.Millisecond) // (the router unregisters the handler right after closing Stopped())
			started[h] = false
			for i, x := range order {
				if x == h {
					order = append(order[:i:i], order[i+1:]...)
					break
				}
			}
		case op == "AB2":
			base := make([]message.HandlerMiddleware, 0, 4) // one backing array, reused by the caller
			for _, h := range []string{"A", "B"} {
				var ids []int
				sl := base
				for k := 0; k < 2; k++ {
					nreg++
					ids = append(ids, nreg)
					r.Emit("reg", "id", nreg, "scope", h)
					sl = append(sl, mkMw(nreg))
				}
				handles[h].AddMiddleware(sl...)
			}
		case op == "R2x":
			sl := make([]message.HandlerMiddleware, 0, 4)
			for k := 0; k < 2; k++ {
				nreg++
				r.Emit("reg", "id", nreg, "scope", "R")
				sl = append(sl, mkMw(nreg))
			}
			router.AddMiddleware(sl...)
			sl[0], sl[1] = mkMw(9000), mkMw(9001) // the caller goes on using its slice
		case op == "Pf":
			npd++
			id := npd
			failed := false
			pendingFailures++
			r.Emit("pdec", "id", id)
			inner := message.MessageTransformPublisherDecorator(func(m *message.Message) {
				cu := strings.TrimSuffix(m.UUID, ".o")
				mu.Lock()
				pubOrd[cu] = append(pubOrd[cu], id)
				mu.Unlock()
			})
			router.AddPublisherDecorators(func(p message.Publisher) (message.Publisher, error) {
				mu.Lock()
				f := !failed
				failed = true
				mu.Unlock()
				if f {
					return nil, fmt.Errorf("decorator %d not ready yet", id)
				}
				return inner(p)
			})
		case op == "Sf":
			nsd++
			id := nsd
			failed := false
			pendingFailures++
			r.Emit("sdec", "id", id)
			inner := message.MessageTransformSubscriberDecorator(func(m *message.Message) {
				mu.Lock()
				subOrd[m.UUID] = append(subOrd[m.UUID], id)
				mu.Unlock()
			})
			router.AddSubscriberDecorators(func(sb message.Subscriber) (message.Subscriber, error) {
				mu.Lock()
				f := !failed
				failed = true
				mu.Unlock()
				if f {
					return nil, fmt.Errorf("decorator %d not ready yet", id)
				}
				return inner(sb)
			})
		case op == "R":
			nreg++
			r.Emit("reg", "id", nreg, "scope", "R")
			router.AddMiddleware(mkMw(nreg))
		case op == "P":
			npd++
			id := npd
			r.Emit("pdec", "id", id)
			dec := message.MessageTransformPublisherDecorator(func(m *message.Message) {
				cu := strings.TrimSuffix(m.UUID, ".o")
				mu.Lock()
				pubOrd[cu] = append(pubOrd[cu], id)
				mu.Unlock()
			})
			if prog[0] == "%" {
				// the innermost decorator keeps what reaches it (the placeholder of a handler without publisher would refuse it)
				router.AddPublisherDecorators(func(p message.Publisher) (message.Publisher, error) {
					if fmt.Sprintf("%T", p) == "message.disabledPublisher" {
						p = scripted.NewPub("sink")
					}
					return dec(p)
				})
				continue
			}
			router.AddPublisherDecorators(dec)
		case op == "S":
			nsd++
			id := nsd
			r.Emit("sdec", "id", id)
			router.AddSubscriberDecorators(message.MessageTransformSubscriberDecorator(func(m *message.Message) {
				mu.Lock()
				subOrd[m.UUID] = append(subOrd[m.UUID], id)
				mu.Unlock()
			}))
		case op == "!":
			if !start() {
				return
			}
		case strings.HasPrefix(op, "+"):
			h := op[1:]
			var hsub message.Subscriber
			if len(prog) > 0 && prog[0] == "^" {
				if sharedSub == nil {
					sharedSub = scripted.NewSub("shared")
					sharedWrapped, _ = message.MessageTransformSubscriberDecorator(func(*message.Message) {})(sharedSub)
				}
				subs[h] = sharedSub
				hsub = sharedWrapped
			} else {
				subs[h] = scripted.NewSub("s" + h)
				hsub = subs[h]
			}
			pubs[h] = scripted.NewPub("p" + h)
			if len(prog) > 0 && prog[0] == "&" { // all handlers publish through ONE publisher object
				if sharedPub == nil {
					sharedPub = scripted.NewPub("pshared")
				}
				pubs[h] = sharedPub
			}
			r.Emit("addh", "h", h)
			if len(prog) > 0 && prog[0] == "%" {
				handles[h] = router.AddNoPublisherHandler(regName(h), "t"+h, hsub, func(msg *message.Message) error { return nil })
				handles[h].AddMiddleware(func(next message.HandlerFunc) message.HandlerFunc { // (not one of the recorded middlewares)
					return func(msg *message.Message) ([]*message.Message, error) {
						outs, err := next(msg)
						return append(outs, message.NewMessage(msg.UUID+".o", nil)), err
					}
				})
				order = append(order, h)
				continue
			}
			handles[h] = router.AddHandler(regName(h), "t"+h, hsub, "out"+h, pubs[h], func(msg *message.Message) ([]*message.Message, error) {
				return []*message.Message{message.NewMessage(msg.UUID+".o", nil)}, nil
			})
			order = append(order, h)
		default: // handler-level middleware
			nreg++
			r.Emit("reg", "id", nreg, "scope", op)
			handles[op].AddMiddleware(mkMw(nreg))
		}
	}
	if !start() {
		return
	}
	if running {
		closed := make(chan struct{})
		go func() { defer close(closed); _ = router.Close() }()
		if !WaitOrHang(closed) || !WaitOrHang(runDone) {
			r.Emit("hung", "what", "router close")
			return
		}
	}
	r.NonTrivial = nreg >= 2 && len(order) >= 2
}
