package props

import (
	"context"
	"fmt"
	"math/rand"
	"runtime"
	"sync"
	"sync/atomic"
	"time"

	"github.com/ThreeDotsLabs/watermill/message"

	"wmverif/sched"
	"wmverif/tr"
)

func init() { Registry["C03"] = runC03 }

var c03Ops = []string{"Ack", "Nack", "RdAck", "RdNack"}

func c03NewMessage(kind, uuid string) *message.Message {
	switch kind {
	case "new":
		return message.NewMessage(uuid, nil)
	case "zero":
		return &message.Message{UUID: uuid}
	case "copyAcked":
		m := message.NewMessage(uuid, nil)
		m.Ack()
		return m.Copy()
	case "copyNacked":
		m := message.NewMessage(uuid, nil)
		m.Nack()
		return m.Copy()
	}
	panic(kind)
}

func c03Closed(ch <-chan struct{}) bool {
	select {
	case <-ch:
		return true
	default:
		return false
	}
}

func c03Do(m *message.Message, op string) bool {
	switch op {
	case "Ack":
		return m.Ack()
	case "Nack":
		return m.Nack()
	case "RdAck":
		select {
		case <-m.Acked():
			return true
		default:
			return false
		}
	case "RdNack":
		select {
		case <-m.Nacked():
			return true
		default:
			return false
		}
	}
	panic(op)
}

func runC03(c *Ctx) error {
	T := c.Trace("MessageTrace")
	kinds := []string{"new", "zero", "copyAcked", "copyNacked"}

	// ---- (0) the very first settlement of a struct-literal message in this process is a Nack (before any such message was acked):
	// its Nacked() channel is closed by it like anybody's
	{
		r := T.NewRun("seq/zero", map[string]any{"kind": "zero"})
		r.Key = "first-in-process/zero-nack"
		m := c03NewMessage("zero", "first")
		for _, op := range []string{"RdNack", "Nack", "RdNack", "RdAck", "Ack", "RdNack"} {
			r.Emit("op", "g", "g0", "op", op, "res", c03Do(m, op))
		}
		r.NonTrivial = true
	}
	// ---- (1) all sequential histories of length N (prefix-closed: shorter ones are prefixes)
	N := c.Pick(5, 8)
	total := 1
	for i := 0; i < N; i++ {
		total *= 4
	}
	type job struct {
		kind string
		idx  int
	}
	jobs := make([]job, 0, total*len(kinds))
	for _, k := range kinds {
		for i := 0; i < total; i++ {
			jobs = append(jobs, job{k, i})
		}
	}
	runs := make([]*tr.Run, len(jobs))
	for i, j := range jobs {
		runs[i] = T.NewRun("seq/"+j.kind, map[string]any{"kind": j.kind})
		runs[i].Key = fmt.Sprintf("seq/%s/%d", j.kind, j.idx)
	}
	Parallel(len(jobs), func(i int) {
		j := jobs[i]
		r := runs[i]
		done := make(chan struct{})
		go func() {
			defer close(done)
			p, v := Guarded(func() {
				m := c03NewMessage(j.kind, fmt.Sprintf("r%d", r.ID))
				if j.idx%3 == 0 {
					// the message travels with a context that is over already (an abandoned delivery): settling it is settling it
					dctx, dcancel := context.WithDeadline(context.Background(), time.Now().Add(-time.Second))
					dcancel()
					m.SetContext(dctx)
				}
				// an observer took the two channels of a constructor-built message at the start and keeps looking at THOSE
				var heldAck, heldNack <-chan struct{}
				if j.kind == "new" {
					heldAck, heldNack = m.Acked(), m.Nacked()
				}
				x := j.idx
				settles := 0
				for s := 0; s < N; s++ {
					op := c03Ops[x%4]
					x /= 4
					if op == "Ack" || op == "Nack" {
						settles++
					}
					var res bool
					switch {
					case heldAck != nil && op == "RdAck":
						res = c03Closed(heldAck)
					case heldAck != nil && op == "RdNack":
						res = c03Closed(heldNack)
					default:
						res = c03Do(m, op)
					}
					r.Emit("op", "g", "g0", "op", op, "res", res)
					if heldAck != nil && (op == "Ack" || op == "Nack") {
						// other messages come and go meanwhile, settled the other way: nothing to do with this one
						for k := 0; k < 3; k++ {
							o := message.NewMessage("other", nil)
							if op == "Ack" {
								o.Nack()
							} else {
								o.Ack()
							}
						}
					}
				}
				r.NonTrivial = settles >= 2
			})
			if p {
				r.Emit("panic", "val", v)
			}
		}()
		if !WaitOrHang(done) {
			r.Emit("hung")
		}
	})
	c.AddStat("sequential_histories", len(jobs))

	// ---- (2) concurrent histories
	nconc := c.Pick(150, 20000)
	gsizes := []int{2, 2, 3, 3, 4, 4, 6, 8}
	conc := make([]*tr.Run, 0, nconc)
	type cj struct {
		g    int
		prog [][]string
		kind string
	}
	cjobs := []cj{}
	for i := 0; i < nconc; i++ {
		g := gsizes[c.Rng.Intn(len(gsizes))]
		if i < c.Pick(3, 30) {
			g = 16
		}
		prog := make([][]string, g)
		for a := range prog {
			n := 1 + c.Rng.Intn(2)
			if g >= 8 {
				n = 1
			}
			for b := 0; b < n; b++ {
				// bias to Ack/Nack
				if c.Rng.Intn(4) == 0 {
					prog[a] = append(prog[a], c03Ops[2+c.Rng.Intn(2)])
				} else {
					prog[a] = append(prog[a], c03Ops[c.Rng.Intn(2)])
				}
			}
		}
		kind := kinds[c.Rng.Intn(len(kinds))]
		cjobs = append(cjobs, cj{g, prog, kind})
		conc = append(conc, T.NewRun(fmt.Sprintf("conc/%s/g%d", kind, g), map[string]any{"kind": kind}))
	}
	Parallel(len(cjobs), func(i int) {
		j := cjobs[i]
		r := conc[i]
		rng := c.SubRng(i)
		seeds := make([]int64, j.g)
		for a := range seeds {
			seeds[a] = rng.Int63()
		}
		m := c03NewMessage(j.kind, fmt.Sprintf("r%d", r.ID))
		start := make(chan struct{})
		var wg sync.WaitGroup
		for a := 0; a < j.g; a++ {
			wg.Add(1)
			go func(a int) {
				defer wg.Done()
				lr := rand.New(rand.NewSource(seeds[a]))
				g := fmt.Sprintf("g%d", a+1)
				<-start
				for _, op := range j.prog[a] {
					if lr.Intn(3) == 0 {
						runtime.Gosched()
					}
					r.Emit("call", "g", g, "op", op)
					var res bool
					p, v := Guarded(func() { res = c03Do(m, op) })
					if p {
						r.Emit("panic", "g", g, "val", v)
						return
					}
					r.Emit("ret", "g", g, "res", res)
				}
			}(a)
		}
		close(start)
		done := make(chan struct{})
		go func() { wg.Wait(); close(done) }()
		if !WaitOrHang(done) {
			r.Emit("hung")
		}
		na, nn := 0, 0
		for _, p := range j.prog {
			for _, op := range p {
				if op == "Ack" {
					na++
				}
				if op == "Nack" {
					nn++
				}
			}
		}
		r.NonTrivial = na > 0 && nn > 0
		r.Key = fmt.Sprintf("conc/%s/%v", j.kind, j.prog)
	})
	c.AddStat("concurrent_histories", len(cjobs))

	// ---- (3) forced overlaps: A is parked inside its critical section (after the
	// check, before the state change) while B runs the opposite / same call.
	forced := 0
	for _, kind := range kinds {
		for _, a := range []string{"Ack", "Nack"} {
			for _, b := range []string{"Ack", "Nack", "RdAck", "RdNack"} {
				r := T.NewRun(fmt.Sprintf("forced/%s/%s-in-%s", kind, b, a), map[string]any{"kind": kind})
				r.Key = r.Class
				id := fmt.Sprintf("r%d", r.ID)
				m := c03NewMessage(kind, id)
				point := "message.ack.locked"
				if a == "Nack" {
					point = "message.nack.locked"
				}
				gate := sched.Park(point, id)
				call := func(g, op string, done chan struct{}) {
					defer close(done)
					r.Emit("call", "g", g, "op", op)
					var res bool
					p, v := Guarded(func() { res = c03Do(m, op) })
					if p {
						r.Emit("panic", "g", g, "val", v)
						return
					}
					r.Emit("ret", "g", g, "res", res)
				}
				da, db := make(chan struct{}), make(chan struct{})
				go call("gA", a, da)
				if gate.Arrived(2 * time.Second) {
					r.NonTrivial = true
					forced++
				}
				go call("gB", b, db)
				select { // give B the chance to (wrongly) overtake A
				case <-db:
				case <-time.After(15 * time.Millisecond):
				}
				gate.Release()
				if !WaitOrHang(da) || !WaitOrHang(db) {
					r.Emit("hung")
				}
			}
		}
	}
	c.AddStat("forced_overlaps_reached", forced)

	// ---- (4) hammer: many rounds of G goroutines settling one fresh message with the SAME call and reading the channel
	// right afterwards.  "Ack() returned true" implies "Acked() is closed" for every caller, not only for the winner;
	// the window of a violation is a few instructions wide, so only anomalous rounds are logged (as ordinary histories).
	rounds := c.Pick(60000, 1500000)
	type anomaly struct {
		kind, op, g string
	}
	var amu sync.Mutex
	var anomalies []anomaly
	var hammerHung int32
	var hungAt anomaly
	const G = 6
	Parallel(16, func(w int) {
		for k := w; k < rounds; k += 16 {
			kind := kinds[k%len(kinds)]
			op, rd := "Ack", "RdAck"
			if (k/len(kinds))%2 == 1 {
				op, rd = "Nack", "RdNack"
			}
			m := c03NewMessage(kind, "h")
			start := make(chan struct{})
			var wg sync.WaitGroup
			for a := 0; a < G; a++ {
				wg.Add(1)
				go func(a int) {
					defer wg.Done()
					<-start
					ok := c03Do(m, op)
					closed := c03Do(m, rd)
					if ok && !closed {
						amu.Lock()
						if len(anomalies) < 3 {
							anomalies = append(anomalies, anomaly{kind, op, fmt.Sprintf("g%d", a+1)})
						}
						amu.Unlock()
					}
				}(a)
			}
			close(start)
			if atomic.LoadInt32(&hammerHung) != 0 {
				return
			}
			if !WaitOrHang(waitWG(&wg)) {
				// a settling call that does not return: "no call blocks"
				if atomic.CompareAndSwapInt32(&hammerHung, 0, 1) {
					amu.Lock()
					hungAt = anomaly{kind, op, ""}
					amu.Unlock()
				}
				return
			}
		}
	})
	if atomic.LoadInt32(&hammerHung) != 0 {
		r := T.NewRun("hammer/"+hungAt.kind, map[string]any{"kind": hungAt.kind})
		r.Key = fmt.Sprintf("hammer-hung/%v", hungAt)
		r.NonTrivial = true
		r.Emit("call", "g", "g1", "op", hungAt.op)
		r.Emit("hung", "what", fmt.Sprintf("%d goroutines called %s on one fresh message (kind %s) at the same time and at least one call never returned", G, hungAt.op, hungAt.kind))
	}
	for _, an := range anomalies {
		r := T.NewRun("hammer/"+an.kind, map[string]any{"kind": an.kind})
		r.Key = fmt.Sprintf("hammer/%v", an)
		r.NonTrivial = true
		rd := map[string]string{"Ack": "RdAck", "Nack": "RdNack"}[an.op]
		r.Emit("call", "g", an.g, "op", an.op)
		r.Emit("ret", "g", an.g, "res", true)
		r.Emit("call", "g", an.g, "op", rd)
		r.Emit("ret", "g", an.g, "res", false) // observed: settled according to the return value, channel still open
	}
	c.AddStat("hammer_rounds", rounds)
	return nil
}
