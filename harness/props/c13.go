package props

import (
	"context"
	stderrors "errors"
	"fmt"
	"strings"
	"time"

	"github.com/ThreeDotsLabs/watermill/message"
	"github.com/ThreeDotsLabs/watermill/message/router/middleware"
	pkgerrors "github.com/pkg/errors"

	"wmverif/scripted"
	"wmverif/tr"
)

func init() { Registry["C13"] = runC13 }

var c13Sentinel = stderrors.New("sentinel failure")

// transientErr is a wrapper type with a Cause() method (pkg/errors convention) and Unwrap.
type transientErr struct{ inner error }

func (t transientErr) Error() string { return "transient: " + t.inner.Error() }
func (t transientErr) Cause() error  { return t.inner }
func (t transientErr) Unwrap() error { return t.inner }

type c13Case struct {
	HRes   string // ok0 | ok2 | plain | fmtwrap | pkgwrap | transient | plain+outs
	Filter string // plain | all | none | is-sentinel | not-transient | text-transient
	PubOK  bool
	Meta   string // empty | some | poisoned
	Router bool
	CtxEnd bool // the message's context ends while the handler runs: the poison decision does not depend on it
}

// c13Topic: the poison topic is used as it was configured -- every second one has white space around it; a handler with a poisoned
// metadata set ("poisoned") also Nacks the message itself before it fails (the poison queue deals with it all the same)
func (cs c13Case) topic() string {
	if len(cs.HRes)%2 == 0 {
		return " poison-topic\t"
	}
	return "poison-topic"
}
func (cs c13Case) selfNack() bool { return cs.Meta == "poisoned" && !cs.Router }

func c13Err(h string) error {
	switch h {
	case "plain", "plain+outs":
		return c13Sentinel
	case "other":
		return stderrors.New("some other failure")
	case "fmtwrap":
		return fmt.Errorf("while handling: %w", c13Sentinel)
	case "pkgwrap":
		return pkgerrors.Wrap(c13Sentinel, "while handling")
	case "transient":
		return transientErr{c13Sentinel}
	case "spaced":
		return stderrors.New(" sentinel failure:\n\tfirst  cause \r\n\tsecond cause\n") // the text is the reason, white space and all
	case "mutable":
		return &c13MutErr{"sentinel failure"} // an error object that is reused with another text (see the warm-up in c13Run)
	case "slice":
		return c13SliceErr{"sentinel failure"} // a slice-typed error (validation errors): such values cannot be compared with ==
	}
	return nil
}

type c13MutErr struct{ text string }

func (e *c13MutErr) Error() string { return e.text }

type c13SliceErr []string

func (e c13SliceErr) Error() string { return strings.Join(e, "; ") }

// c13Same: a == b where that is defined, equality of the texts otherwise.
func c13Same(a, b error) (same bool) {
	defer func() {
		if recover() != nil {
			same = a != nil && b != nil && a.Error() == b.Error()
		}
	}()
	return a == b
}

func c13Filter(f string) func(error) bool {
	switch f {
	case "all":
		return func(error) bool { return true }
	case "none":
		return func(error) bool { return false }
	case "is-sentinel":
		return func(e error) bool { return stderrors.Is(e, c13Sentinel) }
	case "not-transient":
		return func(e error) bool { var t transientErr; return !stderrors.As(e, &t) }
	case "text-transient":
		return func(e error) bool { return strings.HasPrefix(e.Error(), "transient") }
	case "text-while":
		return func(e error) bool { return strings.Contains(e.Error(), "while handling") }
	}
	return nil
}

func runC13(c *Ctx) error {
	T := c.Trace("PoisonTrace")
	var cases []c13Case
	for _, h := range []string{"ok0", "ok2", "plain", "other", "fmtwrap", "pkgwrap", "transient", "plain+outs", "mutable", "slice", "spaced"} {
		for _, f := range []string{"plain", "all", "none", "is-sentinel", "not-transient", "text-transient", "text-while"} {
			for _, p := range []bool{true, false} {
				for _, m := range []string{"empty", "some", "poisoned"} {
					for _, r := range []bool{false, true} {
						cases = append(cases, c13Case{h, f, p, m, r, false})
						if m == "some" || r && m == "empty" {
							cases = append(cases, c13Case{h, f, p, m, r, true}) // (in a router too: the names still come from that delivery's context)
						}
					}
				}
			}
		}
	}
	runs := make([]*tr.Run, len(cases))
	for i := range cases {
		runs[i] = c13Prepare(T, cases[i])
	}
	Parallel(len(cases), func(i int) { c13Run(runs[i], cases[i]) })
	c.AddStat("cases", len(cases))
	return nil
}

func c13Meta(m string) map[string]string {
	switch m {
	case "some":
		return map[string]string{"k1": "v1", "k2": ""}
	case "poisoned":
		return map[string]string{"k1": "v1", middleware.ReasonForPoisonedKey: "old reason", middleware.PoisonedTopicKey: "old topic",
			middleware.PoisonedHandlerKey: "old handler", middleware.PoisonedSubscriberKey: "old sub"}
	}
	return map[string]string{}
}

func c13Prepare(T *tr.Trace, cs c13Case) *tr.Run {
	herr := c13Err(cs.HRes)
	accept := true
	if cs.Filter != "plain" && herr != nil {
		accept = c13Filter(cs.Filter)(herr)
	}
	errText := ""
	if herr != nil {
		errText = herr.Error()
	}
	ct, ch, csb := "", "", ""
	if cs.Router {
		ct, ch, csb = "in-topic", "the-handler", "the-sub"
	}
	mode := "standalone"
	if cs.Router {
		mode = "router"
	}
	uid := T.NumRuns() + 1
	r := T.NewRun(mode+"/"+cs.Filter, map[string]any{"case": map[string]any{
		"plain": cs.Filter == "plain", "hok": herr == nil, "accept": accept, "pubok": cs.PubOK, "inRouter": cs.Router, "meta": c13Meta(cs.Meta), "errText": errText,
		"ctxTopic": ct, "ctxHandler": ch, "ctxSub": csb, "houts": map[bool]int{true: 2, false: 0}[cs.HRes == "ok2" || cs.HRes == "plain+outs"], "topic": cs.topic(), "uuid": fmt.Sprintf("u%d", uid), "payload": "the payload",
	}})
	r.Key = fmt.Sprintf("%+v", cs)
	return r
}

func c13Run(r *tr.Run, cs c13Case) {
	herr := c13Err(cs.HRes)
	pubErr := stderrors.New("poison publisher down")
	pp := scripted.NewPub("poisonpub")
	forceFail := false
	pp.Fn = func(n int, topic string, msgs []*message.Message) error {
		for _, m := range msgs {
			r.Emit("pcall", "topic", topic, "uuid", m.UUID, "payload", string(m.Payload), "meta", map[string]string(m.Metadata))
		}
		if len(msgs) != 1 {
			r.Emit("pcall-batch", "n", len(msgs))
		}
		if !cs.PubOK || forceFail {
			return pubErr
		}
		return nil
	}
	var mw message.HandlerMiddleware
	var err error
	if cs.Filter == "plain" {
		mw, err = middleware.PoisonQueue(pp, cs.topic())
	} else {
		f := c13Filter(cs.Filter)
		mw, err = middleware.PoisonQueueWithFilter(pp, cs.topic(), func(e error) bool {
			r.Emit("filter", "same", c13Same(e, herr))
			return f(e)
		})
	}
	if err != nil {
		r.Emit("error", "what", err.Error())
		return
	}
	endCtx := func() {}
	ret := herr // what the handler returns
	handler := func(msg *message.Message) ([]*message.Message, error) {
		r.Emit("hcall")
		endCtx()
		if cs.selfNack() && ret != nil {
			msg.Nack()
		}
		var outs []*message.Message
		if cs.HRes == "ok2" || cs.HRes == "plain+outs" {
			outs = []*message.Message{message.NewMessage("o1", nil), message.NewMessage("o2", nil)}
		}
		return outs, ret
	}
	classify := func(e error) string {
		switch {
		case e == nil:
			return "nil"
		case c13Same(e, herr):
			return "same"
		case herr != nil && strings.Contains(e.Error(), herr.Error()) && strings.Contains(e.Error(), pubErr.Error()):
			return "both"
		}
		return "other: " + e.Error()
	}
	if cs.HRes == "mutable" || cs.HRes == "slice" {
		// the SAME middleware instance has dealt with another failing message before (not part of the case: not recorded):
		// with the very same error object under another text, or with another value of an error type that == cannot compare
		r.Quiet(true)
		if me, ok := herr.(*c13MutErr); ok {
			me.text = "an earlier, different failure"
		} else {
			ret = c13SliceErr{"an earlier failure", "of two parts"}
		}
		_, _ = Guarded(func() { _, _ = mw(handler)(message.NewMessage(fmt.Sprintf("u%d-warmup", r.ID), []byte("warm-up"))) })
		if me, ok := herr.(*c13MutErr); ok {
			me.text = "sentinel failure"
		}
		ret = herr
		r.Quiet(false)
	}
	msg := message.NewMessage(fmt.Sprintf("u%d", r.ID), []byte("the payload"))
	for k, v := range c13Meta(cs.Meta) {
		msg.Metadata.Set(k, v)
	}
	if cs.CtxEnd {
		ctx, cancel := context.WithCancel(context.Background())
		defer cancel()
		msg.SetContext(ctx)
		endCtx = cancel
	}
	if !cs.Router {
		var rerr error
		var routs []*message.Message
		if herr != nil && cs.Meta == "some" && !cs.CtxEnd {
			// the SAME message object has been through this middleware before (not part of the case: not recorded) and the poison
			// publisher refused it then: a redelivery of the object, or a Retry around the poison queue. The pass that is recorded
			// is decided on its own: the filter is asked again, the publisher is offered the message again
			r.Quiet(true)
			forceFail = true
			_, _ = Guarded(func() { _, _ = mw(handler)(msg) })
			forceFail = false
			r.Quiet(false)
		}
		p, v := Guarded(func() { routs, rerr = mw(handler)(msg) })
		if p {
			r.Emit("panic", "val", v)
			return
		}
		r.Emit("ret", "r", classify(rerr), "outs", len(routs)) // what the handler returned next to its error passes through as well
		r.Emit("end")
		r.NonTrivial = herr != nil
		return
	}
	router, _ := message.NewRouter(message.RouterConfig{CloseTimeout: 5 * time.Second}, nil)
	sub := scripted.NewSub("the-sub")
	// the middleware is applied by hand, ONCE: the same wrapped function serves every message (and, in the warm-up variant,
	// a second handler with other names first) -- what it writes about a message must come from that message alone
	wrapped := mw(func(m *message.Message) ([]*message.Message, error) {
		_, e := handler(m)
		return nil, e
	})
	h := router.AddNoPublisherHandler("the-handler", "in-topic", sub, func(m *message.Message) error {
		_, e := wrapped(m)
		r.Emit("ret", "r", classify(e))
		return e
	})
	_ = h
	warm := cs.Meta == "some"
	warmSub := scripted.NewSub("warm-sub")
	if warm {
		router.AddNoPublisherHandler("warm-handler", "warm-topic", warmSub, func(m *message.Message) error {
			_, e := wrapped(m)
			return e
		})
	}
	ctx, cancel := context.WithCancel(context.Background())
	defer cancel()
	done := make(chan struct{})
	go func() { defer close(done); _ = router.Run(ctx) }()
	select {
	case <-router.Running():
	case <-time.After(HangBound):
		r.Emit("hung")
		return
	}
	if warm {
		r.Quiet(true) // the warm-up message is not part of the case
		wm := message.NewMessage(fmt.Sprintf("u%d-warm", r.ID), []byte("warm"))
		if warmSub.Emit("warm-topic", wm) {
			select {
			case <-wm.Acked():
			case <-wm.Nacked():
			case <-time.After(HangBound):
			}
		}
		r.Quiet(false)
	}
	if !sub.Emit("in-topic", msg) {
		r.Emit("hung")
		return
	}
	select {
	case <-msg.Acked():
		r.Emit("settled", "kind", "ack")
	case <-msg.Nacked():
		r.Emit("settled", "kind", "nack")
	case <-time.After(HangBound):
		r.Emit("hung")
	}
	closed := make(chan struct{})
	go func() { defer close(closed); _ = router.Close() }()
	if !WaitOrHang(closed) || !WaitOrHang(done) {
		r.Emit("hung")
		return
	}
	r.Emit("end")
	r.NonTrivial = herr != nil
}
