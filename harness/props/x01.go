package props

import (
	"fmt"
	"time"

	"github.com/ThreeDotsLabs/watermill/message"
	"github.com/ThreeDotsLabs/watermill/message/subscriber"

	"wmverif/scripted"
	"wmverif/tr"
)

// X01 (beyond the listed properties): subscriber.BulkRead / BulkReadWithDeduplication against BulkRead.tla.
func init() { Registry["X01"] = runX01 }

type x01Step struct {
	UUID  string
	Pause string // "" | short | mid | long
	Close bool   // close the channel instead of offering a message
}

const (
	x01Timeout = 200 * time.Millisecond
	x01Slack   = 150 * time.Millisecond
	x01Mid     = 30 * time.Millisecond // well inside the timeout: the message must still be taken
	x01Long    = x01Timeout + 400*time.Millisecond
)

func runX01(c *Ctx) error {
	T := c.Trace("BulkReadTrace")
	type job struct {
		limit int
		dedup bool
		steps []x01Step
	}
	var jobs []job
	fixed := [][]x01Step{
		{{UUID: "a"}, {UUID: "b"}, {UUID: "c"}},
		{{UUID: "a"}, {UUID: "a"}, {UUID: "b"}, {UUID: "a"}, {UUID: "c"}},
		{{UUID: "a"}, {UUID: "b", Pause: "long"}, {UUID: "c"}},
		{{UUID: "a", Pause: "mid"}, {UUID: "b", Pause: "mid"}, {UUID: "c", Pause: "mid"}, {UUID: "d", Pause: "mid"}, {UUID: "e", Pause: "mid"}, {UUID: "f", Pause: "mid"}, {UUID: "g", Pause: "mid"}, {UUID: "h", Pause: "mid"}, {UUID: "i", Pause: "mid"}}, // 9 x 30 ms > timeout: the timer restarts with every message
		{{UUID: "a", Pause: "long"}, {UUID: "b"}},
		{{UUID: "a"}, {Close: true}},
		{{Close: true}},
		{{UUID: "a"}, {UUID: "b", Pause: "short"}, {UUID: "b"}, {Close: true}},
		{},
	}
	for _, st := range fixed {
		for _, limit := range []int{1, 2, 3, 5, 12} {
			for _, dd := range []bool{false, true} {
				jobs = append(jobs, job{limit, dd, st})
			}
		}
	}
	n := c.Pick(40, 1500)
	for i := 0; i < n; i++ {
		var st []x01Step
		for k := 0; k < c.Rng.Intn(8); k++ {
			s := x01Step{UUID: []string{"a", "b", "c", "d"}[c.Rng.Intn(4)], Pause: []string{"", "", "short", "mid", "mid", "long"}[c.Rng.Intn(6)]}
			if c.Rng.Intn(12) == 0 {
				s = x01Step{Close: true}
			}
			st = append(st, s)
			if s.Close {
				break
			}
		}
		jobs = append(jobs, job{1 + c.Rng.Intn(5), c.Rng.Intn(2) == 0, st})
	}
	runs := make([]*tr.Run, len(jobs))
	us := func(d time.Duration) int64 { return int64(d / time.Microsecond) }
	for i, j := range jobs {
		runs[i] = T.NewRun(fmt.Sprintf("bulkread/dedup=%v", j.dedup), map[string]any{"cfg": map[string]any{"limit": j.limit, "timeout": us(x01Timeout), "slack": us(x01Slack), "dedup": j.dedup}})
		runs[i].Key = fmt.Sprintf("%+v", j)
	}
	Parallel(len(jobs), func(i int) { x01Run(runs[i], jobs[i].limit, jobs[i].dedup, jobs[i].steps) })
	c.AddStat("scripts", len(jobs))
	return nil
}

func x01Run(r *tr.Run, limit int, dedup bool, steps []x01Step) {
	ch := make(chan *message.Message)
	type result struct {
		got []string
		all bool
		at  time.Time
	}
	resCh := make(chan result, 1)
	start := time.Now()
	go func() {
		var msgs message.Messages
		var all bool
		if dedup {
			msgs, all = subscriber.BulkReadWithDeduplication(ch, limit, x01Timeout)
		} else {
			msgs, all = subscriber.BulkRead(ch, limit, x01Timeout)
		}
		got := []string{}
		for _, m := range msgs {
			got = append(got, m.UUID)
		}
		resCh <- result{got, all, time.Now()}
	}()
	type offer struct {
		msg   *message.Message
		gap   time.Duration
		taken bool
		close bool
	}
	var offers []offer
	last := start
	var res *result
	for _, s := range steps {
		switch s.Pause {
		case "short":
			time.Sleep(time.Millisecond)
		case "mid":
			time.Sleep(x01Mid)
		case "long":
			time.Sleep(x01Long)
		}
		if s.Close {
			close(ch)
			offers = append(offers, offer{close: true})
			break
		}
		msg := message.NewMessage(s.UUID, nil)
		began := time.Now()
		taken := false
		if res == nil {
			select {
			case ch <- msg:
				taken = true
			case rr := <-resCh: // the reader has returned: nothing is taken any more
				res = &rr
			}
		}
		if taken {
			now := time.Now()
			offers = append(offers, offer{msg: msg, gap: now.Sub(last), taken: true})
			last = now
		} else {
			offers = append(offers, offer{msg: msg, gap: began.Sub(last)})
		}
	}
	if res == nil {
		select {
		case rr := <-resCh:
			res = &rr
		case <-time.After(HangBound):
			r.Emit("hung", "what", "BulkRead did not return")
			return
		}
	}
	us := func(d time.Duration) int64 { return int64(d / time.Microsecond) }
	// (assembled after the fact: offers in the feeder's program order, the return last)
	for _, o := range offers {
		if o.close {
			r.Emit("closed")
			continue
		}
		r.Emit("offer", "u", o.msg.UUID, "gap", us(o.gap), "taken", o.taken, "acked", scripted.SettleState(o.msg) == "ack")
	}
	r.Emit("ret", "got", res.got, "all", res.all, "wait", us(res.at.Sub(last)))
	r.NonTrivial = len(steps) > 0
}
