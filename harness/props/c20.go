package props

import (
	"context"
	"errors"
	"fmt"
	"sort"
	"strings"
	"sync"
	"time"

	"github.com/ThreeDotsLabs/watermill/components/delay"
	"github.com/ThreeDotsLabs/watermill/components/metrics"
	"github.com/ThreeDotsLabs/watermill/message"
	"github.com/ThreeDotsLabs/watermill/message/router/middleware"
	"github.com/prometheus/client_golang/prometheus"
	dto "github.com/prometheus/client_model/go"

	"wmverif/scripted"
	"wmverif/tr"
)

func init() { Registry["C20"] = runC20 }

func runC20(c *Ctx) error {
	T := c.Trace("PubSubDecoratorsTrace")
	r := T.NewRun("delay", nil)
	r.Key = "delay"
	r.NonTrivial = true
	nd := c20Delay(r)
	c.AddStat("delay_cases", nd)
	r2 := T.NewRun("stacks", nil)
	r2.Key = "stacks"
	r2.NonTrivial = true
	ns := c20Stacks(r2, c)
	c.AddStat("stack_cases", ns)
	var mruns []*tr.Run
	type mc struct {
		applied int
		outs    []string
		direct  bool
	}
	var mcs []mc
	outsAll := [][]string{{"ok"}, {"err"}, {"panic"}, {"pubfail"}, {"late"}, {"okctx"}, {"okctx", "ok", "okctx", "pubfail"}, {"ok", "err", "late"}, {"ok", "err", "panic", "pubfail", "ok"}, {"panic", "panic", "ok"}, {"pubfail", "ok", "err"}}
	for _, ap := range []int{1, 2} {
		for _, o := range outsAll {
			mcs = append(mcs, mc{ap, o, false})
		}
	}
	// retried invocations of ONE message object: Retry(Recoverer(metrics(handler))), outs = outcome of each attempt
	for _, ap := range []int{1, 2} {
		for _, o := range [][]string{{"panic", "ok"}, {"err", "ok"}, {"err", "panic", "ok"}, {"panic", "panic", "err"}, {"panic", "err", "panic", "ok"}} {
			mcs = append(mcs, mc{ap, o, true})
		}
	}
	n := c.Pick(10, 2000)
	for i := 0; i < n; i++ {
		if i%4 == 3 {
			var o []string
			for k := 0; k < 1+c.Rng.Intn(5); k++ {
				o = append(o, []string{"err", "panic"}[c.Rng.Intn(2)])
			}
			if c.Rng.Intn(3) > 0 {
				o = append(o, "ok")
			}
			mcs = append(mcs, mc{1 + c.Rng.Intn(2), o, true})
			continue
		}
		var o []string
		for k := 0; k < 1+c.Rng.Intn(8); k++ {
			o = append(o, []string{"ok", "err", "panic", "pubfail", "okctx"}[c.Rng.Intn(5)])
		}
		mcs = append(mcs, mc{1 + c.Rng.Intn(2), o, false})
	}
	for i := range mcs {
		run := T.NewRun(fmt.Sprintf("metrics/applied%d", mcs[i].applied), nil)
		run.Key = fmt.Sprintf("metrics/%v", mcs[i])
		mruns = append(mruns, run)
	}
	Parallel(len(mcs), func(i int) { c20Metrics(mruns[i], mcs[i].applied, mcs[i].outs, mcs[i].direct) })
	c.AddStat("metrics_cases", len(mcs))
	// the subscriber decorator at the grain of its goroutines: internal traces against SubDecorator.tla
	TD := c.Trace("SubDecoratorTrace")
	nd2 := c.Pick(150, 6000)
	druns := make([]*tr.Run, nd2)
	for i := range druns {
		druns[i] = TD.NewRun("decorator-conformance", nil)
		druns[i].Key = fmt.Sprintf("decorator-conformance/%d", i)
	}
	Parallel(nd2, func(i int) {
		if c.Only == "" || strings.HasPrefix("decorator-conformance", c.Only) {
			subdecRun(druns[i], c.SubRng(1000+i), i%3 == 0)
		}
	})
	c.AddStat("decorator_conformance_runs", nd2)
	{
		hr := TD.NewRun("close-abreast-hammer", nil)
		hr.Key = "close-abreast-hammer"
		subdecCloseHammer(hr, c.Pick(1500, 40000), true)
	}
	subdecReplayAll(c, TD)
	return nil
}

// subdecReplayAll replays the schedules TLC sampled from SubDecorator.tla (specification -> implementation).
func subdecReplayAll(c *Ctx, TD *tr.Trace) {
	ws := subdecSchedules()
	sruns := make([]*tr.Run, len(ws))
	for i := range ws {
		sruns[i] = TD.NewRun("decorator-schedule", nil)
		sruns[i].Key = fmt.Sprintf("decorator-schedule/%v", ws[i])
	}
	Parallel(len(ws), func(i int) {
		if c.Only == "" || strings.HasPrefix("decorator-schedule", c.Only) {
			subdecReplay(sruns[i], ws[i])
		}
	})
	c.AddStat("decorator_schedules_replayed", len(ws))
}

// ------------------------------------------------------------------ delay.Publisher
func c20Delay(r *tr.Run) (n int) {
	srcs := []string{"meta", "ctx", "none", "metafor"}
	var batches [][]string
	for _, a := range srcs {
		batches = append(batches, []string{a})
		for _, b := range srcs {
			batches = append(batches, []string{a, b})
			for _, d := range srcs {
				batches = append(batches, []string{a, b, d})
			}
		}
	}
	genDelay := 11 * time.Second
	perMsg := false                                                                        // the generator of the publisher under test derives the delay from the message (11 s + its index)
	ctxVariants := []string{"for", "until-future", "until-past", "for-zero", "zero-value"} // zero-value: delay.Delay{} -- a delay in the context all the same
	ctxDur := map[string]time.Duration{"for": 7 * time.Second, "until-future": 90 * time.Minute, "until-past": -3 * time.Second, "for-zero": 0, "zero-value": 0}
	// build makes the messages of a batch; for a message with a context delay it also notes the stamp that delay stands for
	// (what delay.Message writes for it): the Publisher has to write exactly that, whenever the message is published
	build := func(batch []string, ctxKind string) ([]*message.Message, map[int][2]string) {
		var msgs []*message.Message
		stamps := map[int][2]string{}
		ctxFor := ctxDur[ctxKind]
		for i, s := range batch {
			m := message.NewMessage(fmt.Sprintf("d%d", i), []byte("x"))
			switch s {
			case "meta":
				delay.Message(m, delay.For(5*time.Minute))
			case "metafor":
				m.Metadata.Set(delay.DelayedForKey, "5m0s") // set by hand, without the delayed-until key
			case "ctx":
				d := delay.For(ctxFor)
				if ctxKind == "until-future" || ctxKind == "until-past" {
					d = delay.Until(time.Now().UTC().Add(ctxFor))
				}
				if ctxKind == "zero-value" {
					d = delay.Delay{}
				}
				m.SetContext(delay.WithContext(context.Background(), d))
				scratch := message.NewMessage("scratch", nil)
				delay.Message(scratch, d)
				stamps[i] = [2]string{scratch.Metadata.Get(delay.DelayedForKey), scratch.Metadata.Get(delay.DelayedUntilKey)}
			}
			msgs = append(msgs, m)
		}
		return msgs, stamps
	}
	pubAndJudge := func(dp message.Publisher, ip *scripted.Pub, msgs []*message.Message, stamps map[int][2]string, batch []string, ctxKind string, cfg map[string]any) {
		ctxFor := ctxDur[ctxKind]
		before := time.Now().UTC()
		perr := dp.Publish("topic", msgs...)
		after := time.Now().UTC()
		calls := ip.Calls()
		order := len(calls) == 1 && len(calls[0].Msgs) == len(msgs) && calls[0].Topic == "topic"
		from := []string{}
		agree := true
		if order {
			for i, m := range calls[0].Msgs {
				if m != msgs[i] {
					order = false
				}
				fs := m.Metadata.Get(delay.DelayedForKey)
				us := m.Metadata.Get(delay.DelayedUntilKey)
				if fs == "" && us == "" {
					from = append(from, "nodelay")
					continue
				}
				if batch[i] == "metafor" && fs == "5m0s" && us == "" {
					from = append(from, "meta") // left as it was
					continue
				}
				d, e1 := time.ParseDuration(fs)
				u, e2 := time.Parse(time.RFC3339, us)
				if e1 != nil || e2 != nil {
					from = append(from, "unparsable")
					agree = false
					continue
				}
				f := "other"
				switch {
				case batch[i] == "meta" && d == 5*time.Minute:
					f = "meta"
				case batch[i] == "none" && (!perMsg && d == genDelay || perMsg && d == genDelay+time.Duration(i)*time.Second):
					f = "gen"
				case batch[i] == "ctx":
					// For: exactly the configured duration; Until: the duration left when Until() was called
					if (ctxKind == "for" || ctxKind == "for-zero" || ctxKind == "zero-value") && d == ctxFor {
						f = "ctx"
					}
					if (ctxKind == "until-future" || ctxKind == "until-past") && d <= ctxFor && d >= ctxFor-5*time.Second {
						f = "ctx"
					}
				}
				from = append(from, f)
				// delayed-until minus delayed-for is the stamping instant (second resolution); metadata pre-set earlier is exempt
				if f != "meta" && ctxKind != "zero-value" {
					inst := u.Add(-d)
					if inst.Before(before.Add(-6*time.Second)) || inst.After(after.Add(2*time.Second)) {
						agree = false
					}
				}
				// the delay of the message context is stamped as it is: an Until deadline stays that deadline
				if st, ok := stamps[i]; ok && f == "ctx" && (fs != st[0] || us != st[1]) {
					agree = false
				}
			}
		}
		r.Emit("delaypub", "cfg", cfg, "batch", batch, "err", perr != nil, "calls", len(calls),
			"order", order, "from", from, "agree", agree, "ctxkind", ctxKind)
		n++
	}
	// messages whose context delay is made well before they are published (handler work, a retry, a queue in between):
	// published at the end, more than a second later
	type lateOne struct {
		dp      message.Publisher
		ip      *scripted.Pub
		msgs    []*message.Message
		stamps  map[int][2]string
		batch   []string
		ctxKind string
	}
	var late []lateOne
	lateMade := time.Now()
	for _, ck := range ctxVariants {
		for _, batch := range [][]string{{"ctx"}, {"meta", "ctx", "none"}} {
			ip := scripted.NewPub("inner")
			dp, err := delay.NewPublisher(ip, delay.PublisherConfig{AllowNoDelay: true})
			if err != nil {
				r.Emit("error", "what", err.Error())
				return n
			}
			msgs, stamps := build(batch, ck)
			late = append(late, lateOne{dp, ip, msgs, stamps, batch, ck})
		}
	}
	defer func() {
		time.Sleep(time.Until(lateMade.Add(1100 * time.Millisecond)))
		for _, lo := range late {
			pubAndJudge(lo.dp, lo.ip, lo.msgs, lo.stamps, lo.batch, lo.ctxKind, map[string]any{"gen": "none", "allow": true, "inner": "accept"})
		}
	}()
	for _, gen := range []string{"ok", "fail", "none", "permsg"} { // permsg: a generator that looks at the message (for the specification: a generator that works)
		for _, allow := range []bool{false, true} {
			for _, inner := range []string{"accept", "error"} {
				for bi, batch := range batches {
					ip := scripted.NewPub("inner")
					ip.Fn = func(int, string, []*message.Message) error {
						if inner == "error" {
							return errScripted
						}
						return nil
					}
					cfg := delay.PublisherConfig{AllowNoDelay: allow}
					switch gen {
					case "ok":
						cfg.DefaultDelayGenerator = func(delay.DefaultDelayGeneratorParams) (delay.Delay, error) { return delay.For(genDelay), nil }
					case "permsg":
						cfg.DefaultDelayGenerator = func(p delay.DefaultDelayGeneratorParams) (delay.Delay, error) {
							var k int
							fmt.Sscanf(p.Message.UUID, "d%d", &k)
							return delay.For(genDelay + time.Duration(k)*time.Second), nil
						}
					case "fail":
						cfg.DefaultDelayGenerator = func(delay.DefaultDelayGeneratorParams) (delay.Delay, error) {
							return delay.Delay{}, errors.New("generator failure")
						}
					}
					dp, err := delay.NewPublisher(ip, cfg)
					if err != nil {
						r.Emit("error", "what", err.Error())
						return n
					}
					ctxKind := ctxVariants[bi%len(ctxVariants)]
					msgs, stamps := build(batch, ctxKind)
					specGen := gen
					perMsg = gen == "permsg"
					if perMsg {
						specGen = "ok"
					}
					pubAndJudge(dp, ip, msgs, stamps, batch, ctxKind, map[string]any{"gen": specGen, "allow": allow, "inner": inner})
					perMsg = false
					n++
				}
			}
		}
	}
	return n
}

// ------------------------------------------------------------------ transform / metrics decorator stacks
type c20CtxKey struct{}

func c20Stacks(r *tr.Run, c *Ctx) int {
	n := 0
	reg := prometheus.NewRegistry()
	b := metrics.NewPrometheusMetricsBuilder(reg, "", "")
	kinds := []string{"transform", "metrics", "delay"}
	var stacks [][]string
	for _, a := range kinds {
		stacks = append(stacks, []string{a})
		for _, x := range kinds {
			stacks = append(stacks, []string{a, x})
			for _, y := range kinds {
				stacks = append(stacks, []string{a, x, y})
			}
		}
	}
	for _, st := range stacks {
		for _, inner := range []string{"accept", "error"} {
			for nmsg := 1; nmsg <= 3; nmsg++ {
				ip := scripted.NewPub("inner")
				ip.Fn = func(int, string, []*message.Message) error {
					if inner == "error" {
						return errScripted
					}
					return nil
				}
				var pub message.Publisher = ip
				var mu sync.Mutex
				applied := map[string][]int{}
				ntrans := 0
				for lvl := len(st) - 1; lvl >= 0; lvl-- {
					lvl := lvl
					switch st[lvl] {
					case "transform":
						ntrans++
						pub, _ = message.MessageTransformPublisherDecorator(func(m *message.Message) {
							mu.Lock()
							applied[m.UUID] = append(applied[m.UUID], lvl)
							mu.Unlock()
						})(pub)
					case "metrics":
						pub, _ = b.DecoratePublisher(pub)
					case "delay":
						pub, _ = delay.NewPublisher(pub, delay.PublisherConfig{AllowNoDelay: true})
					}
				}
				var msgs []*message.Message
				for i := 0; i < nmsg; i++ {
					m := message.NewMessage(fmt.Sprintf("s%d", i), []byte("x"))
					m.SetContext(context.WithValue(context.Background(), c20CtxKey{}, i)) // every message travels with its OWN context
					msgs = append(msgs, m)
				}
				observed := func() int { // Publish calls the registry has seen so far
					total := 0
					mfs, _ := reg.Gather()
					for _, mf := range mfs {
						if mf.GetName() == "publish_time_seconds" {
							for _, m := range mf.GetMetric() {
								total += int(m.GetHistogram().GetSampleCount())
							}
						}
					}
					return total
				}
				before := observed()
				err := pub.Publish("topic", msgs...)
				counted := observed() - before
				hasMetrics := false
				for _, k := range st {
					hasMetrics = hasMetrics || k == "metrics"
				}
				calls := ip.Calls()
				order := len(calls) == 1 && len(calls[0].Msgs) == nmsg
				if order {
					for i := range msgs {
						order = order && calls[0].Msgs[i] == msgs[i]
						order = order && calls[0].Msgs[i].Context().Value(c20CtxKey{}) == i // ... and still carries its own context values
					}
				}
				ok := true
				for _, m := range msgs {
					a := applied[m.UUID]
					if len(a) != ntrans || !sort.IntsAreSorted(a) {
						ok = false // every transform once per message, outermost first
					}
				}
				_ = pub.Close()
				r.Emit("pubstack", "stack", st, "depth", len(st), "n", nmsg, "inner", inner, "err", err != nil, "calls", len(calls), "order", order, "applied", ok, "closes", ip.CloseCalls(),
					"counted", counted, "hasmetrics", hasMetrics)
				n++
			}
		}
	}
	// subscriber side: transform and metrics decorators around a scripted subscriber
	skinds := []string{"transform", "metrics"}
	var sstacks [][]string
	for _, a := range skinds {
		sstacks = append(sstacks, []string{a})
		for _, x := range skinds {
			sstacks = append(sstacks, []string{a, x})
			for _, y := range skinds {
				sstacks = append(sstacks, []string{a, x, y})
			}
		}
	}
	for _, st := range sstacks {
		for nmsg := 1; nmsg <= 3; nmsg++ {
			is := scripted.NewSub("inner")
			var sub message.Subscriber = is
			var mu sync.Mutex
			applied := map[string][]int{}
			ntrans := 0
			for lvl := range st { // first added is innermost and acts first
				lvl := lvl
				switch st[lvl] {
				case "transform":
					ntrans++
					sub, _ = message.MessageTransformSubscriberDecorator(func(m *message.Message) {
						mu.Lock()
						applied[m.UUID] = append(applied[m.UUID], lvl)
						mu.Unlock()
					})(sub)
				case "metrics":
					sub, _ = b.DecorateSubscriber(sub)
				}
			}
			ctx, cancel := context.WithCancel(context.Background())
			ch, err := sub.Subscribe(ctx, "t")
			if err != nil {
				r.Emit("error", "what", err.Error())
				cancel()
				continue
			}
			var inner []*message.Message
			for i := 0; i < nmsg; i++ {
				inner = append(inner, message.NewMessage(fmt.Sprintf("r%d", i), []byte("x")))
			}
			go func() {
				for _, m := range inner {
					is.Emit("t", m)
				}
			}()
			received, order, settles := 0, true, true
			for i := 0; i < nmsg; i++ {
				select {
				case m := <-ch:
					if m == nil {
						order = false
						continue
					}
					if m.UUID != inner[i].UUID {
						order = false
					}
					received++
					if i%2 == 0 {
						m.Ack()
						settles = settles && scripted.SettleState(inner[i]) == "ack"
					} else {
						m.Nack()
						settles = settles && scripted.SettleState(inner[i]) == "nack"
					}
				case <-time.After(HangBound):
					order = false
				}
			}
			ok := true
			for _, m := range inner {
				a := applied[m.UUID]
				if len(a) != ntrans || !sort.IntsAreSorted(a) {
					ok = false
				}
			}
			// the inner subscriber's Close takes its time and still hands out messages meanwhile (it waits until they have
			// arrived); the consumer keeps reading: they pass through like any other
			nlate := 0
			if nmsg == 2 {
				nlate = 2
				lateGot := make(chan *message.Message, nlate)
				go func() {
					for m := range ch {
						m.Ack()
						lateGot <- m
					}
				}()
				is.OnCloseStart = func() {
					for i := 0; i < nlate; i++ {
						lm := message.NewMessage(fmt.Sprintf("late%d", i), []byte("x"))
						inner = append(inner, lm)
						if !is.Emit("t", lm) {
							return
						}
						select {
						case got := <-lateGot:
							if got.UUID == lm.UUID && scripted.SettleState(lm) == "ack" {
								received++
							} else {
								order = false
							}
						case <-time.After(HangBound / 2):
							return
						}
					}
				}
			}
			closed := make(chan struct{})
			go func() { defer close(closed); _ = sub.Close() }()
			if !WaitOrHang(closed) {
				r.Emit("hung", "what", "decorated subscriber Close")
			}
			wantCloses := 1
			if nmsg == 3 {
				// Close once more (a retry, a second owner): that call passes through like the first
				wantCloses = 2
				is.OnCloseStart = nil
				closed2 := make(chan struct{})
				go func() { defer close(closed2); _ = sub.Close() }()
				if !WaitOrHang(closed2) {
					r.Emit("hung", "what", "second Close of the decorated subscriber")
				}
			}
			cancel()
			ok = true
			for _, m := range inner {
				mu.Lock()
				a := applied[m.UUID]
				mu.Unlock()
				if len(a) != ntrans || !sort.IntsAreSorted(a) {
					ok = false
				}
			}
			r.Emit("substack", "stack", st, "depth", len(st), "n", nmsg+nlate, "received", received, "order", order, "applied", ok, "settles", settles, "closes", is.CloseCalls(), "wantcloses", wantCloses)
			n++
		}
	}
	return n
}

// ------------------------------------------------------------------ Prometheus metrics on a router
// c20Labels returns the distinct name-label combinations of the router metrics ("metric{handler,publisher,subscriber}").
func c20Labels(reg *prometheus.Registry, handlerName string) []string {
	set := map[string]bool{}
	mfs, _ := reg.Gather()
	for _, mf := range mfs {
		short := map[string]string{"handler_execution_time_seconds": "handler", "publish_time_seconds": "publish", "subscriber_messages_received_total": "sub"}[mf.GetName()]
		if short == "" {
			continue
		}
		for _, m := range mf.GetMetric() {
			v := map[string]string{}
			for _, lp := range m.GetLabel() {
				v[lp.GetName()] = lp.GetValue()
			}
			h := v["handler_name"]
			if h == handlerName {
				h = "H"
			}
			set[fmt.Sprintf("%s{%s,%s,%s}", short, h, v["publisher_name"], v["subscriber_name"])] = true
		}
	}
	out := []string{}
	for k := range set {
		out = append(out, k)
	}
	sort.Strings(out)
	return out
}

func c20Gather(reg *prometheus.Registry) map[string]map[string]int {
	out := map[string]map[string]int{"handler": {}, "publish": {}, "sub": {}}
	mfs, _ := reg.Gather()
	for _, mf := range mfs {
		for _, m := range mf.GetMetric() {
			lbl := func(name string) string {
				for _, lp := range m.GetLabel() {
					if lp.GetName() == name {
						return lp.GetValue()
					}
				}
				return ""
			}
			switch mf.GetName() {
			case "handler_execution_time_seconds":
				if mf.GetType() == dto.MetricType_HISTOGRAM {
					out["handler"][lbl("success")] += int(m.GetHistogram().GetSampleCount())
				}
			case "publish_time_seconds":
				out["publish"][lbl("success")] += int(m.GetHistogram().GetSampleCount())
			case "subscriber_messages_received_total":
				out["sub"][lbl("acked")] += int(m.GetCounter().GetValue())
			}
		}
	}
	return out
}

func c20Metrics(r *tr.Run, applied int, outs []string, retried bool) {
	reg := prometheus.NewRegistry()
	b := metrics.NewPrometheusMetricsBuilder(reg, "", "")
	router, _ := message.NewRouter(message.RouterConfig{CloseTimeout: 2 * time.Second}, nil)
	orig := outs
	var attempts []string // retried mode: the outcome of each attempt of the single message
	if retried {
		// the same message object passes the metrics middleware once per attempt
		router.AddMiddleware(middleware.Retry{MaxRetries: len(outs) - 1, InitialInterval: time.Millisecond}.Middleware, middleware.Recoverer)
		attempts = outs
		outs = []string{"retried"}
	}
	for i := 0; i < applied; i++ {
		b.AddPrometheusRouterMetrics(router)
	}
	sub := scripted.NewSub("sub")
	pub := scripted.NewPub("pub")
	var mu sync.Mutex
	behav := map[string]string{}
	lateRelease := make(chan struct{})
	lateEntered := make(chan struct{})
	closeDone := make(chan struct{})
	expected := map[string]map[string]int{"handler": {}, "publish": {}, "sub": {}}
	pub.Fn = func(n int, topic string, msgs []*message.Message) error {
		mu.Lock()
		defer mu.Unlock()
		base := msgs[0].UUID[:len(msgs[0].UUID)-2]
		if behav[base] == "pubfail" {
			expected["publish"]["false"]++
			return errScripted
		}
		expected["publish"]["true"]++
		return nil
	}
	router.AddHandler(fmt.Sprintf("r%d-h", r.ID), "in", sub, "out", pub, func(msg *message.Message) ([]*message.Message, error) {
		mu.Lock()
		bh := behav[msg.UUID]
		if bh == "retried" {
			bh = attempts[0]
			if len(attempts) > 1 {
				attempts = attempts[1:]
			}
		}
		switch bh {
		case "err", "panic":
			expected["handler"]["false"]++
		default:
			expected["handler"]["true"]++ // the handler function itself succeeded (a later publish failure is not its failure)
		}
		mu.Unlock()
		switch bh {
		case "err":
			return nil, errScripted
		case "panic":
			panic("scripted handler panic")
		case "late":
			close(lateEntered)
			<-lateRelease // returns (and the message is settled) only after Router.Close has closed the subscriber
		}
		out := message.NewMessage(msg.UUID+".o", nil)
		if bh == "okctx" {
			out.SetContext(msg.Context()) // the produced message carries the context of the consumed one (as context-propagating handlers do)
		}
		return []*message.Message{out}, nil
	})
	ctx, cancel := context.WithCancel(context.Background())
	defer cancel()
	go func() { _ = router.Run(ctx) }()
	select {
	case <-router.Running():
	case <-time.After(HangBound):
		r.Emit("hung", "what", "router start")
		return
	}
	for i, o := range outs {
		id := fmt.Sprintf("r%d-m%d", r.ID, i)
		mu.Lock()
		behav[id] = o
		mu.Unlock()
		msg := message.NewMessage(id, nil)
		if !sub.Emit("in", msg) {
			r.Emit("hung", "what", "emit")
			return
		}
		if o == "late" {
			select {
			case <-lateEntered:
			case <-time.After(HangBound):
				r.Emit("hung", "what", "handler not entered")
				return
			}
			// the message is in the handler: close the router now; the handler finishes 40 ms later
			go func() { defer close(closeDone); _ = router.Close() }()
			time.Sleep(40 * time.Millisecond)
			close(lateRelease)
		}
		select {
		case <-msg.Acked():
			mu.Lock()
			expected["sub"]["acked"]++
			mu.Unlock()
		case <-msg.Nacked():
			mu.Lock()
			expected["sub"]["nacked"]++
			mu.Unlock()
		case <-time.After(HangBound):
			r.Emit("hung", "what", "not settled")
			return
		}
	}
	// the subscriber counters are incremented asynchronously: poll until they are stable and complete
	var got map[string]map[string]int
	deadline := time.Now().Add(3 * time.Second)
	for {
		got = c20Gather(reg)
		mu.Lock()
		want := expected["sub"]["acked"] + expected["sub"]["nacked"]
		mu.Unlock()
		if got["sub"]["acked"]+got["sub"]["nacked"] >= want || time.Now().After(deadline) {
			break
		}
		time.Sleep(5 * time.Millisecond)
	}
	time.Sleep(10 * time.Millisecond)
	got = c20Gather(reg)
	_ = router.Close()
	select {
	case <-closeDone:
	default:
	}
	mu.Lock()
	r.Emit("metrics", "applied", applied, "outs", orig, "retried", retried, "observed", got, "expected", expected,
		"labels", c20Labels(reg, fmt.Sprintf("r%d-h", r.ID)))
	mu.Unlock()
	r.NonTrivial = true
}
