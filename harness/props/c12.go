package props

import (
	"context"
	"fmt"
	"github.com/ThreeDotsLabs/watermill"
	"runtime"
	"strings"
	"sync"
	"time"

	"github.com/ThreeDotsLabs/watermill/message"
	"github.com/ThreeDotsLabs/watermill/message/router/middleware"

	"wmverif/tr"
)

func init() { Registry["C12"] = runC12 }

type c12Case struct {
	MaxRetries   int
	Initial      time.Duration
	MaxI         time.Duration
	MNum, MDen   int
	RFNum, RFDen int
	MaxElapsed   time.Duration
	FailN        int // number of failing attempts before the first success; <0: fail forever
	AttDur       time.Duration
	CancelInAtt  int           // cancel the message context in the middle of attempt k (0: never)
	CancelInWait int           // cancel it CancelAfter after the end of attempt k (0: never)
	CancelAfter  time.Duration //
	Class        string
	SelfSettle   string // "ack" / "nack": the handler settles the message itself during its first attempt and fails all the same: Retry goes on
	SliceErr     bool   // the handler's errors are of a type that == cannot compare (a list of validation errors); a Logger is configured
	CtxErr       bool   // the handler's errors wrap context.DeadlineExceeded / context.Canceled (a call of its own timed out): errors like any other
}

func (cs c12Case) cfg() map[string]any {
	us := func(d time.Duration) int64 { return int64(d / time.Microsecond) }
	return map[string]any{"cfg": map[string]any{
		"maxRetries": cs.MaxRetries, "initial": us(cs.Initial), "maxI": us(cs.MaxI), "mnum": cs.MNum, "mden": cs.MDen,
		"rfNum": cs.RFNum, "rfDen": cs.RFDen, "maxElapsed": us(cs.MaxElapsed),
		"margin": us(150*time.Millisecond + 2*cs.AttDur), "retMargin": us(400*time.Millisecond + 2*cs.AttDur), "slack": 3 + 2*cs.MaxRetries,
	}}
}

func runC12(c *Ctx) error {
	T := c.Trace("RetryTrace")
	ms := time.Millisecond
	type timing struct {
		ini, max time.Duration
		mn, md   int
		rfn, rfd int
	}
	timings := []timing{
		{0, 0, 1, 1, 0, 1},
		{1 * ms, 4 * ms, 2, 1, 0, 1},
		{2 * ms, 20 * ms, 3, 2, 1, 2},
		{1 * ms, 8 * ms, 3, 1, 1, 1},
	}
	retries := []int{1, 2, 3, 5, 8}
	if c.Thorough() {
		retries = []int{1, 2, 3, 4, 5, 6, 7, 8}
		timings = append(timings, timing{3 * ms, 3 * ms, 1, 1, 0, 1}, timing{1 * ms, 30 * ms, 2, 1, 1, 2}, timing{4 * ms, 10 * ms, 3, 2, 0, 1},
			timing{0, 5 * ms, 2, 1, 0, 1}, timing{2 * ms, 6 * ms, 3, 1, 1, 2})
	}
	var cases []c12Case
	for _, mr := range retries {
		for _, tm := range timings {
			fails := map[int]bool{0: true, 1: true, mr: true, mr - 1: true, -1: true}
			if c.Thorough() {
				for i := 0; i <= mr; i++ {
					fails[i] = true
				}
			}
			for fn := range fails {
				if fn < -1 {
					continue
				}
				cases = append(cases, c12Case{MaxRetries: mr, Initial: tm.ini, MaxI: tm.max, MNum: tm.mn, MDen: tm.md, RFNum: tm.rfn, RFDen: tm.rfd,
					FailN: fn, Class: "plain"})
			}
		}
	}
	for _, fn := range []int{-1, 1, 2} {
		cases = append(cases, c12Case{MaxRetries: 3, Initial: 2 * ms, MaxI: 10 * ms, MNum: 2, MDen: 1, RFNum: 0, RFDen: 1, FailN: fn, Class: "plain", CtxErr: true})
	}
	for _, fn := range []int{-1, 2} {
		for _, ss := range []string{"ack", "nack"} {
			cases = append(cases, c12Case{MaxRetries: 3, Initial: 2 * ms, MaxI: 10 * ms, MNum: 2, MDen: 1, RFNum: 0, RFDen: 1, FailN: fn, Class: "plain", SelfSettle: ss})
		}
		cases = append(cases, c12Case{MaxRetries: 3, Initial: 2 * ms, MaxI: 10 * ms, MNum: 2, MDen: 1, RFNum: 0, RFDen: 1, FailN: fn, Class: "plain", SliceErr: true})
	}
	nplain := len(cases)
	// context ends while retries remain
	for _, mr := range []int{2, 8} {
		// zero back-off, slow attempts, cancel in the middle of attempt 1 / 2
		for _, k := range []int{1, 2} {
			cases = append(cases, c12Case{MaxRetries: mr, Initial: 0, MaxI: 0, MNum: 1, MDen: 1, RFNum: 0, RFDen: 1, FailN: -1,
				AttDur: 60 * ms, CancelInAtt: k, Class: "cancel-in-attempt/zero-backoff"})
			cases = append(cases, c12Case{MaxRetries: mr, Initial: 5 * ms, MaxI: 5 * ms, MNum: 1, MDen: 1, RFNum: 0, RFDen: 1, FailN: -1,
				AttDur: 60 * ms, CancelInAtt: k, Class: "cancel-in-attempt/backoff"})
			// long back-off, cancel early in the wait after attempt k
			cases = append(cases, c12Case{MaxRetries: mr, Initial: 900 * ms, MaxI: 900 * ms, MNum: 1, MDen: 1, RFNum: 0, RFDen: 1, FailN: -1,
				CancelInWait: 1, CancelAfter: 40 * ms, Class: "cancel-in-wait"})
		}
		// the context ends while MaxElapsedTime (far away) is set as well: the end of the context still ends the retries
		cases = append(cases, c12Case{MaxRetries: mr, Initial: 5 * ms, MaxI: 5 * ms, MNum: 1, MDen: 1, RFNum: 0, RFDen: 1, FailN: -1, MaxElapsed: 3 * time.Second,
			AttDur: 60 * ms, CancelInAtt: 1, Class: "cancel-in-attempt/backoff"})
		cases = append(cases, c12Case{MaxRetries: mr, Initial: 900 * ms, MaxI: 900 * ms, MNum: 1, MDen: 1, RFNum: 0, RFDen: 1, FailN: -1, MaxElapsed: 5 * time.Second,
			CancelInWait: 1, CancelAfter: 40 * ms, Class: "cancel-in-wait"})
		// MaxElapsedTime passes
		cases = append(cases, c12Case{MaxRetries: mr * 4, Initial: 20 * ms, MaxI: 20 * ms, MNum: 1, MDen: 1, RFNum: 0, RFDen: 1, MaxElapsed: 50 * ms, FailN: -1,
			Class: "max-elapsed"})
		cases = append(cases, c12Case{MaxRetries: mr * 4, Initial: 700 * ms, MaxI: 700 * ms, MNum: 1, MDen: 1, RFNum: 0, RFDen: 1, MaxElapsed: 60 * ms, FailN: -1,
			Class: "max-elapsed-in-wait"})
		cases = append(cases, c12Case{MaxRetries: mr, Initial: 2 * ms, MaxI: 2 * ms, MNum: 1, MDen: 1, RFNum: 0, RFDen: 1, MaxElapsed: 500 * ms, FailN: 1,
			Class: "max-elapsed-not-reached"})
	}
	// random configurations
	nr := c.Pick(40, 3000)
	for i := 0; i < nr; i++ {
		mr := 1 + c.Rng.Intn(8)
		tm := timing{time.Duration(c.Rng.Intn(4)) * ms, time.Duration(c.Rng.Intn(12)) * ms, 1 + c.Rng.Intn(3), 1, c.Rng.Intn(3), 2}
		if c.Rng.Intn(3) == 0 {
			tm.mn, tm.md = 3, 2
		}
		if tm.max < tm.ini {
			tm.max = tm.ini
		}
		cases = append(cases, c12Case{MaxRetries: mr, Initial: tm.ini, MaxI: tm.max, MNum: tm.mn, MDen: tm.md, RFNum: tm.rfn, RFDen: tm.rfd,
			FailN: c.Rng.Intn(mr+3) - 1, Class: "random"})
	}
	runs := make([]*tr.Run, len(cases))
	for i, cs := range cases {
		runs[i] = T.NewRun(cs.Class, cs.cfg())
		runs[i].Key = fmt.Sprintf("%+v", cs)
	}
	// the same message object comes to the middleware again (a subscriber redelivering the object it nacked, a Retry
	// inside a Retry): the second pass is a call like the first -- same budget of retries, same back-off
	type again struct {
		cs     c12Case
		r1, r2 *tr.Run
	}
	var agains []again
	for _, me := range []time.Duration{0, 2 * time.Second} {
		for _, fn := range []int{-1, 2} {
			cs := c12Case{MaxRetries: 3, Initial: 3 * ms, MaxI: 20 * ms, MNum: 2, MDen: 1, RFNum: 0, RFDen: 1, MaxElapsed: me, FailN: fn, Class: "same-message-again"}
			a := again{cs: cs, r1: T.NewRun(cs.Class, cs.cfg()), r2: T.NewRun(cs.Class, cs.cfg())}
			a.r1.Key, a.r2.Key = fmt.Sprintf("1/%+v", cs), fmt.Sprintf("2/%+v", cs)
			agains = append(agains, a)
		}
	}
	Parallel(len(cases)+len(agains), func(i int) {
		if i < len(cases) {
			c12Run(runs[i], cases[i])
			return
		}
		a := agains[i-len(cases)]
		msg := message.NewMessage(fmt.Sprintf("r%d", a.r1.ID), nil)
		msg.SetContext(context.Background())
		c12RunOn(a.r1, a.cs, nil, msg)
		c12RunOn(a.r2, a.cs, nil, msg)
	})
	// several messages at once through the same wrapped handler
	ng := c.Pick(4, 60)
	type grp struct {
		runs  []*tr.Run
		cases []c12Case
	}
	var groups []grp
	for gi := 0; gi < ng; gi++ {
		mr := 3 + gi%2
		base := c12Case{MaxRetries: mr, Initial: time.Duration(10+5*(gi%3)) * ms, MaxI: time.Second, MNum: 2, MDen: 1, RFNum: 0, RFDen: 1, AttDur: ms, Class: "concurrent-messages"}
		var g grp
		for k, fn := range []int{-1, 1, 2}[:2+gi%2] {
			cs := base
			cs.FailN = fn
			_ = k
			run := T.NewRun(cs.Class, cs.cfg())
			run.Key = fmt.Sprintf("group%d/%d/%+v", gi, k, cs)
			g.runs = append(g.runs, run)
			g.cases = append(g.cases, cs)
		}
		groups = append(groups, g)
	}
	Parallel(len(groups), func(i int) { c12Group(groups[i].runs, groups[i].cases, time.Duration(12+7*(i%3))*ms) })
	c.AddStat("concurrent_groups", ng)
	c.AddStat("plain_cases", nplain)
	c.AddStat("context_and_elapsed_cases", len(cases)-nplain-nr)
	c.AddStat("random_cases", nr)
	return nil
}

// c12Group sends several messages concurrently (staggered) through ONE wrapped handler: the back-off of one
// message must not depend on what the others are doing.
func c12Group(runs []*tr.Run, cases []c12Case, stagger time.Duration) {
	sh := &c12Shared{byMsg: map[string]message.HandlerFunc{}, byGo: map[uint64]func(int, time.Duration){}}
	cs := cases[0]
	rt := middleware.Retry{
		MaxRetries: cs.MaxRetries, InitialInterval: cs.Initial, MaxInterval: cs.MaxI, Multiplier: float64(cs.MNum) / float64(cs.MDen),
		MaxElapsedTime: cs.MaxElapsed, RandomizationFactor: float64(cs.RFNum) / float64(cs.RFDen),
		OnRetryHook: func(k int, d time.Duration) {
			sh.mu.Lock()
			f := sh.byGo[goid()]
			sh.mu.Unlock()
			if f != nil {
				f(k, d)
			}
		},
	}
	sh.wrapped = rt.Middleware(func(msg *message.Message) ([]*message.Message, error) {
		sh.mu.Lock()
		h := sh.byMsg[msg.UUID]
		sh.mu.Unlock()
		return h(msg)
	})
	var wg sync.WaitGroup
	for i := range runs {
		i := i
		wg.Add(1)
		go func() {
			defer wg.Done()
			time.Sleep(time.Duration(i) * stagger)
			c12RunShared(runs[i], cases[i], sh)
		}()
	}
	wg.Wait()
}

type c12Shared struct {
	mu      sync.Mutex
	wrapped message.HandlerFunc
	byMsg   map[string]message.HandlerFunc
	byGo    map[uint64]func(int, time.Duration)
}

func goid() uint64 {
	var buf [64]byte
	n := runtime.Stack(buf[:], false)
	var id uint64
	fmt.Sscanf(string(buf[:n]), "goroutine %d ", &id)
	return id
}

type c12SliceErr []string

func (e c12SliceErr) Error() string { return strings.Join(e, "; ") }

type c12CtxErr struct {
	text  string
	inner error
}

func (e c12CtxErr) Error() string { return e.text }
func (e c12CtxErr) Unwrap() error { return e.inner }

func c12Run(r *tr.Run, cs c12Case) { c12RunShared(r, cs, nil) }

func c12RunShared(r *tr.Run, cs c12Case, sh *c12Shared) { c12RunOn(r, cs, sh, nil) }

// c12RunOn: given != nil is a message that travels with its own (live) context; the case must not cancel then.
func c12RunOn(r *tr.Run, cs c12Case, sh *c12Shared, given *message.Message) {
	t0 := time.Now()
	now := func() int64 { return int64(time.Since(t0) / time.Microsecond) }
	ctx, cancel := context.WithCancel(context.Background())
	defer cancel()
	var mu sync.Mutex
	n := 0
	doCancel := func() {
		r.Emit("cancel", "t", now())
		cancel()
	}
	h := func(msg *message.Message) ([]*message.Message, error) {
		mu.Lock()
		n++
		k := n
		mu.Unlock()
		r.Emit("att_start", "n", k, "t", now())
		if k == 1 && cs.SelfSettle == "ack" {
			msg.Ack()
		} else if k == 1 && cs.SelfSettle == "nack" {
			msg.Nack()
		}
		if cs.CancelInAtt == k {
			time.Sleep(cs.AttDur / 2)
			doCancel()
			time.Sleep(cs.AttDur / 2)
		} else if cs.AttDur > 0 {
			time.Sleep(cs.AttDur)
		}
		ok := cs.FailN >= 0 && k > cs.FailN
		var outs []*message.Message
		var err error
		errID, outID := "", ""
		if ok {
			outID = fmt.Sprintf("o%d", k)
			outs = []*message.Message{message.NewMessage(outID, nil)}
		} else {
			errID = fmt.Sprintf("e%d", k)
			err = fmt.Errorf("%s", errID)
			if cs.CtxErr {
				err = c12CtxErr{errID, []error{context.DeadlineExceeded, context.Canceled}[k%2]}
			}
			if cs.SliceErr {
				err = c12SliceErr{errID}
			}
			// failed attempts may carry messages too; they must never be reported as a success
			outs = []*message.Message{message.NewMessage(fmt.Sprintf("x%d", k), nil)}
		}
		if cs.CancelInWait == k {
			go func() { time.Sleep(cs.CancelAfter); doCancel() }()
		}
		r.Emit("att_end", "n", k, "t", now(), "ok", ok, "err", errID, "outs", outID)
		return outs, err
	}
	rt := middleware.Retry{
		MaxRetries: cs.MaxRetries, InitialInterval: cs.Initial, MaxInterval: cs.MaxI, Multiplier: float64(cs.MNum) / float64(cs.MDen),
		MaxElapsedTime: cs.MaxElapsed, RandomizationFactor: float64(cs.RFNum) / float64(cs.RFDen),
		OnRetryHook: func(k int, d time.Duration) { r.Emit("hook", "k", k, "wait", int64(d/time.Microsecond)) },
	}
	if cs.SliceErr {
		rt.Logger = watermill.NopLogger{}
	}
	msg := given
	if msg == nil {
		msg = message.NewMessage(fmt.Sprintf("r%d", r.ID), nil)
		msg.SetContext(ctx)
	}
	call := rt.Middleware(h)
	if sh != nil {
		sh.mu.Lock()
		sh.byMsg[msg.UUID] = h
		sh.mu.Unlock()
		call = sh.wrapped
	}
	done := make(chan struct{})
	go func() {
		defer close(done)
		if sh != nil {
			g := goid()
			sh.mu.Lock()
			sh.byGo[g] = rt.OnRetryHook
			sh.mu.Unlock()
			defer func() { sh.mu.Lock(); delete(sh.byGo, g); sh.mu.Unlock() }()
		}
		var outs []*message.Message
		var err error
		p, v := Guarded(func() { outs, err = call(msg) })
		if p {
			r.Emit("panic", "val", v)
			return
		}
		errID, outID := "", ""
		if err != nil {
			errID = err.Error()
		} else if len(outs) == 1 {
			outID = outs[0].UUID
		} else {
			outID = fmt.Sprintf("%d messages", len(outs))
		}
		r.Emit("ret", "t", now(), "ok", err == nil, "err", errID, "outs", outID)
	}()
	if !WaitOrHang(done) {
		r.Emit("hung")
		return
	}
	r.NonTrivial = cs.FailN != 0
}
