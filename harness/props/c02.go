package props

import (
	"context"
	"errors"
	"fmt"
	"math/rand"
	"strings"
	"sync"
	"sync/atomic"
	"time"

	"github.com/ThreeDotsLabs/watermill/message"

	"wmverif/sched"
	"wmverif/scripted"
	"wmverif/tr"
)

func init() { Registry["C02"] = runC02 }

// behaviour of the handler chain and of the publisher for one message
type c02Beh struct {
	Self   string // none | ack | nack
	End    string // ok | err | panic
	PanicV string // value | error | nil
	NOuts  int
	Pub    string // accept | error | error-canceled | error-wrapped-canceled | panic
	ErrK   string // for End == "err": plain | canceled | wrapped-canceled
	Late   string // "" | ack | nack: a goroutine started by the handler settles the message WHILE the router's own settlement is in progress
}

func (b c02Beh) String() string {
	return fmt.Sprintf("self=%s,end=%s/%s%s,outs=%d,pub=%s,late=%s", b.Self, b.End, b.PanicV, b.ErrK, b.NOuts, b.Pub, b.Late)
}

type c02Case struct {
	HasPub  bool
	Prefix  string // none | pass | append
	Msgs    []c02Beh
	Gate    string // "" or hook point at which message 1 is parked until the others are done
	Overlap bool   // the Publish call for message 1 is held inside the publisher until the handlers of the other messages have returned
	NoTopic bool   // the handler has a publisher and the publish topic "" (a topic like any other: the publisher decides what it means)
	CloseTO bool   // Router.Close runs into its (short) CloseTimeout while the only invocation is still running; it then ends normally: the message is settled by that outcome
	SamePS  bool   // one object is the handler's subscriber and its publisher, and the publish topic is the subscribe topic (the handler feeds itself)
	CtxEnd  string // "" | handler | pre: the consumed message's own context is done by the time the router settles it (the handler ended it / it arrived that way); the settlement is by the outcome all the same
	SameUUID string // "" | same | empty: all messages of the run carry one UUID (or none): they are different messages all the same -- told apart by their payload
	LateMsg bool   // the handler is stopped (Handler.Stop) while the source keeps its channel open; a message sent then is handled like any other or given up unsettled, never settled without the chain
}

var errScripted = errors.New("scripted failure")

// one object that is a Subscriber and a Publisher
type c02PubSub struct {
	*scripted.Sub
	pub *scripted.Pub
}

func (p *c02PubSub) Publish(topic string, msgs ...*message.Message) error {
	return p.pub.Publish(topic, msgs...)
}
func (p *c02PubSub) Close() error { _ = p.pub.Close(); return p.Sub.Close() }

func c02AllBehs(hasPub bool) []c02Beh {
	var out []c02Beh
	for _, self := range []string{"none", "ack", "nack"} {
		for _, end := range []string{"ok", "err", "panic"} {
			pvs := []string{""}
			nouts := []int{0, 1, 2}
			if end == "panic" {
				pvs = []string{"value", "error", "nil"}
				nouts = []int{0}
			}
			if !hasPub {
				nouts = []int{0}
			}
			if end != "panic" {
				nouts = append(nouts, -1) // an empty slice that is not nil: no messages all the same
			}
			for _, pv := range pvs {
				for _, n := range nouts {
					pubs := []string{"accept", "error", "error-canceled", "error-wrapped-canceled", "panic"}
					if !hasPub || n == 0 && end != "ok" || n < 0 {
						pubs = []string{"accept"}
					}
					errks := []string{""}
					if end == "err" {
						errks = []string{"plain", "canceled", "wrapped-canceled"}
					}
					for _, p := range pubs {
						for _, ek := range errks {
							out = append(out, c02Beh{self, end, pv, n, p, ek, ""})
						}
					}
				}
			}
		}
	}
	return out
}

func runC02(c *Ctx) error {
	T := c.Trace("RouterHandlerTrace")
	var cases []c02Case
	// (1) every single-message behaviour x handler kind x middleware prefix
	for _, hp := range []bool{true, false} {
		for _, prefix := range []string{"none", "pass", "append"} {
			for _, b := range c02AllBehs(hp) {
				cases = append(cases, c02Case{HasPub: hp, Prefix: prefix, Msgs: []c02Beh{b}})
			}
		}
	}
	// (1b) the handler's own goroutine settles the message concurrently with the router's settlement (parked inside it)
	for _, hp := range []bool{true, false} {
		for _, end := range []string{"ok", "err"} {
			for _, late := range []string{"ack", "nack"} {
				b := c02Beh{Self: "none", End: end, Pub: "accept", Late: late}
				if end == "err" {
					b.ErrK = "plain"
				}
				if hp && end == "ok" {
					b.NOuts = 1
				}
				cases = append(cases, c02Case{HasPub: hp, Prefix: "none", Msgs: []c02Beh{b}})
			}
		}
	}
	// (1c) several invocations of one handler publish at the same time, one of the Publish calls panics / fails: each settles by its own Publish
	for _, bad := range []string{"panic", "error"} {
		ok1 := c02Beh{Self: "none", End: "ok", NOuts: 1, Pub: "accept"}
		cases = append(cases, c02Case{HasPub: true, Prefix: "none", Overlap: true, Msgs: []c02Beh{{Self: "none", End: "ok", NOuts: 1, Pub: bad}, ok1, ok1}})
		cases = append(cases, c02Case{HasPub: true, Prefix: "pass", Overlap: true, Msgs: []c02Beh{{Self: "none", End: "ok", NOuts: 2, Pub: bad}, ok1, {Self: "none", End: "ok", NOuts: 2, Pub: "accept"}}}) // (the trace spec knows m1..m3)
	}
	// (1f) a publisher with the empty publish topic
	for _, n := range []int{0, 1, 2} {
		for _, p := range []string{"accept", "error"} {
			cases = append(cases, c02Case{HasPub: true, Prefix: "none", NoTopic: true, Msgs: []c02Beh{{Self: "none", End: "ok", NOuts: n, Pub: p}}})
		}
	}
	// (1g) the handler's publisher is its subscriber, the publish topic its subscribe topic
	for _, n := range []int{1, 2} {
		for _, p := range []string{"accept", "error", "panic"} {
			cases = append(cases, c02Case{HasPub: true, Prefix: "none", SamePS: true, Msgs: []c02Beh{{Self: "none", End: "ok", NOuts: n, Pub: p}}})
		}
	}
	// (1h) the consumed message's context is done at settlement
	for _, hp := range []bool{true, false} {
		for _, ce := range []string{"handler", "pre"} {
			for _, end := range []string{"ok", "err"} {
				b := c02Beh{Self: "none", End: end, Pub: "accept"}
				if end == "err" {
					b.ErrK = "plain"
				}
				if hp && end == "ok" {
					b.NOuts = 1
				}
				cases = append(cases, c02Case{HasPub: hp, Prefix: "none", CtxEnd: ce, Msgs: []c02Beh{b}})
			}
		}
	}
	// (1i) several messages with one UUID (a redelivery that overtook its predecessor, a producer that sets none) in flight together
	for _, su := range []string{"same", "empty"} {
		for _, hp := range []bool{true, false} {
			ok := c02Beh{Self: "none", End: "ok", Pub: "accept"}
			bad := c02Beh{Self: "none", End: "err", ErrK: "plain", Pub: "accept"}
			if hp {
				ok.NOuts = 1
			}
			cases = append(cases, c02Case{HasPub: hp, Prefix: "none", SameUUID: su, Msgs: []c02Beh{ok, ok, bad}})
			cases = append(cases, c02Case{HasPub: hp, Prefix: "pass", SameUUID: su, Msgs: []c02Beh{ok, bad, ok}})
		}
	}
	// (1e) Close times out while the invocation runs; the invocation's outcome still decides the settlement
	for _, hp := range []bool{true, false} {
		for _, end := range []string{"ok", "err"} {
			b := c02Beh{Self: "none", End: end, Pub: "accept"}
			if end == "err" {
				b.ErrK = "plain"
			}
			if hp && end == "ok" {
				b.NOuts = 1
			}
			cases = append(cases, c02Case{HasPub: hp, Prefix: "none", CloseTO: true, Msgs: []c02Beh{b}})
		}
	}
	// (1d) a message that the source still hands over after the handler was stopped is handled like any other, or
	// (the cancelled subscription gave it up) not handled and not settled at all
	for _, hp := range []bool{true, false} {
		b := c02Beh{Self: "none", End: "ok", Pub: "accept"}
		if hp {
			b.NOuts = 1
		}
		for k := 0; k < 6; k++ { // which way the pump's choice goes is not ours to decide
			cases = append(cases, c02Case{HasPub: hp, Prefix: "none", LateMsg: true, Msgs: []c02Beh{b, b}})
		}
	}
	nsingle := len(cases)
	// (2) three messages in flight concurrently on one handler, one of them parked at a hook point
	gates := []string{"", "router.handle.start", "router.handle.before_publish", "router.handle.before_settle"}
	ntriples := c.Pick(120, 20000)
	for i := 0; i < ntriples; i++ {
		hp := c.Rng.Intn(4) != 0
		all := c02AllBehs(hp)
		cs := c02Case{HasPub: hp, Prefix: []string{"none", "pass", "append"}[c.Rng.Intn(3)], Gate: gates[c.Rng.Intn(len(gates))]}
		for k := 0; k < 3; k++ {
			cs.Msgs = append(cs.Msgs, all[c.Rng.Intn(len(all))])
		}
		cases = append(cases, cs)
	}
	runs := make([]*tr.Run, len(cases))
	for i, cs := range cases {
		cls := "single"
		if len(cs.Msgs) > 1 {
			cls = "triple"
		}
		kind := "pub"
		if !cs.HasPub {
			kind = "nopub"
		}
		runs[i] = T.NewRun(fmt.Sprintf("%s/%s/%s", cls, kind, cs.Prefix), map[string]any{"haspub": cs.HasPub})
		runs[i].Key = fmt.Sprintf("%v", cs)
	}
	var gated int64
	var mu sync.Mutex
	Parallel(len(cases), func(i int) {
		if c02Run(runs[i], cases[i], c.SubRng(i)) {
			mu.Lock()
			gated++
			mu.Unlock()
		}
	})
	c.AddStat("single_cases", nsingle)
	c.AddStat("concurrent_triples", ntriples)
	c.AddStat("gates_reached", int(gated))
	return nil
}

func c02Run(r *tr.Run, cs c02Case, rng *rand.Rand) (gateReached bool) {
	ptopic := "out"
	if cs.NoTopic {
		ptopic = ""
	}
	if cs.SamePS {
		ptopic = "in"
	}
	closeTimeout := 5 * time.Second
	if cs.CloseTO {
		closeTimeout = 60 * time.Millisecond
	}
	holdCh := make(chan struct{})
	router, err := message.NewRouter(message.RouterConfig{CloseTimeout: closeTimeout}, nil)
	if err != nil {
		panic(err)
	}
	sub := scripted.NewSub("sub")
	sub.IgnoreCtx = cs.LateMsg
	othersReturned := make(chan struct{})
	var nOthers int32
	var handle *message.Handler
	pub := scripted.NewPub("pub")
	prefix := fmt.Sprintf("r%d-", r.ID)
	mid := func(uuid string) string { return strings.TrimPrefix(uuid, prefix) } // "m1"
	idOf := func(msg *message.Message) string {                                 // the harness' name of a consumed message
		if cs.SameUUID != "" {
			return string(msg.Payload)
		}
		return mid(msg.UUID)
	}
	beh := map[string]c02Beh{}
	consumed := map[string]*message.Message{}
	var outMu sync.Mutex
	var lateWg sync.WaitGroup
	started := map[string]bool{}
	returned := map[string][]*message.Message{} // outputs as returned by the chain, by consumed id
	snap := map[*message.Message]string{}

	snapshot := func(m *message.Message) string {
		return fmt.Sprintf("%s|%s|%v", m.UUID, string(m.Payload), map[string]string(m.Metadata))
	}

	var ctxMu sync.Mutex
	cancels := map[string]context.CancelFunc{}
	endCtx := func(msg *message.Message) {
		ctxMu.Lock()
		c := cancels[prefix+idOf(msg)]
		ctxMu.Unlock()
		if c != nil {
			c()
		}
	}
	handler := func(msg *message.Message) ([]*message.Message, error) {
		b := beh[idOf(msg)]
		if cs.SameUUID != "" {
			// every invocation stays until all the messages are in the handler (bounded): they are in flight together
			deadline := time.Now().Add(300 * time.Millisecond)
			for time.Now().Before(deadline) {
				outMu.Lock()
				n := len(started)
				outMu.Unlock()
				if n >= len(cs.Msgs) {
					break
				}
				time.Sleep(time.Millisecond)
			}
		}
		if cs.CloseTO {
			<-waitOr(holdCh, HangBound)
		}
		if cs.CtxEnd == "handler" {
			endCtx(msg)
		}
		switch b.Self {
		case "ack":
			r.Emit("hself", "m", idOf(msg), "kind", "ack")
			msg.Ack()
			endCtx(msg) // like GoChannel, the subscriber ends the delivery's context as soon as it is settled
		case "nack":
			r.Emit("hself", "m", idOf(msg), "kind", "nack")
			msg.Nack()
			endCtx(msg)
		}
		if b.Late != "" {
			m := idOf(msg)
			ga, gn := sched.Park("message.ack.locked", msg.UUID), sched.Park("message.nack.locked", msg.UUID)
			lateWg.Add(1)
			go func() {
				defer lateWg.Done()
				defer ga.Release()
				defer gn.Release()
				arrived := false
				for i := 0; i < 300 && !arrived; i++ {
					arrived = ga.Arrived(time.Millisecond) || gn.Arrived(time.Millisecond)
				}
				// the router is inside its own Ack/Nack of the message now
				res := make(chan bool, 1)
				go func() {
					if b.Late == "ack" {
						res <- msg.Ack()
					} else {
						res <- msg.Nack()
					}
				}()
				time.Sleep(3 * time.Millisecond)
				ga.Release()
				gn.Release()
				select {
				case ok := <-res:
					r.Emit("hlate", "m", m, "kind", b.Late, "res", ok, "parked", arrived)
				case <-time.After(HangBound):
					r.Emit("hung", "what", "late settlement never returned")
				}
			}()
		}
		var outs []*message.Message
		if b.NOuts < 0 {
			outs = []*message.Message{}
		}
		for k := 1; k <= b.NOuts; k++ {
			o := message.NewMessage(fmt.Sprintf("%s%s.o%d", prefix, idOf(msg), k), []byte(fmt.Sprintf("payload-%d", k)))
			o.Metadata.Set("k", fmt.Sprint(k))
			outs = append(outs, o)
		}
		switch b.End {
		case "err":
			switch b.ErrK {
			case "canceled":
				return outs, context.Canceled
			case "wrapped-canceled":
				return outs, fmt.Errorf("scripted: %w", context.Canceled)
			}
			return outs, errScripted
		case "panic":
			switch b.PanicV {
			case "value":
				panic("scripted panic")
			case "error":
				panic(errScripted)
			default:
				panic(nil)
			}
		}
		return outs, nil
	}
	// outermost middleware: records what the router sees of the chain
	recorder := func(h message.HandlerFunc) message.HandlerFunc {
		return func(msg *message.Message) (outs []*message.Message, err error) {
			m := idOf(msg)
			outMu.Lock()
			started[m] = true
			outMu.Unlock()
			r.Emit("hstart", "m", m)
			defer func() {
				if rec := recover(); rec != nil {
					r.Emit("hend", "m", m, "end", "panic", "outs", []string{})
					panic(rec)
				}
				ids := []string{}
				for _, o := range outs {
					ids = append(ids, strings.TrimPrefix(o.UUID, prefix+m+"."))
				}
				outMu.Lock()
				returned[m] = outs
				for _, o := range outs {
					snap[o] = snapshot(o)
				}
				outMu.Unlock()
				end := "ok"
				if err != nil {
					end = "err"
				}
				r.Emit("hend", "m", m, "end", end, "outs", ids)
				if m != "m1" && int(atomic.AddInt32(&nOthers, 1)) == len(cs.Msgs)-1 {
					close(othersReturned)
				}
			}()
			return h(msg)
		}
	}
	router.AddMiddleware(recorder)
	switch cs.Prefix {
	case "pass":
		router.AddMiddleware(func(h message.HandlerFunc) message.HandlerFunc {
			return func(msg *message.Message) ([]*message.Message, error) { return h(msg) }
		})
	case "append":
		router.AddMiddleware(func(h message.HandlerFunc) message.HandlerFunc {
			return func(msg *message.Message) ([]*message.Message, error) {
				outs, err := h(msg)
				if err == nil {
					outs = append(outs, message.NewMessage(fmt.Sprintf("%s%s.o%d", prefix, idOf(msg), len(outs)+1), []byte("appended")))
				}
				return outs, err
			}
		})
	}
	pub.Fn = func(n int, topic string, msgs []*message.Message) error {
		if len(msgs) == 0 {
			r.Emit("pcall-empty")
			return nil
		}
		u := msgs[0].UUID
		cu := u[:strings.LastIndex(u, ".")]
		m := mid(cu)
		ids := []string{}
		for _, o := range msgs {
			ids = append(ids, strings.TrimPrefix(o.UUID, cu+"."))
		}
		outMu.Lock()
		want := returned[m]
		intact := len(want) == len(msgs) && topic == ptopic
		for i := range msgs {
			if !intact {
				break
			}
			if want[i] != msgs[i] || snap[msgs[i]] != snapshot(msgs[i]) {
				intact = false
			}
		}
		outMu.Unlock()
		r.Emit("pcall", "m", m, "outs", ids, "sample", scripted.SettleState(consumed[m]), "intact", intact)
		if cs.Overlap && m == "m1" {
			// held until the other invocations have come back from their handlers (and, on the unchanged tree, published)
			<-waitOr(othersReturned, 400*time.Millisecond)
			time.Sleep(20 * time.Millisecond)
		}
		b := beh[m]
		outcome := b.Pub
		if strings.HasPrefix(outcome, "error") {
			outcome = "error"
		}
		r.Emit("pret", "m", m, "outcome", outcome, "sample", scripted.SettleState(consumed[m]))
		switch b.Pub {
		case "error":
			return errScripted
		case "error-canceled":
			return context.Canceled
		case "error-wrapped-canceled":
			return fmt.Errorf("scripted publish: %w", context.Canceled)
		case "panic":
			panic("scripted publisher panic")
		}
		return nil
	}
	hname := prefix + "h"
	if cs.SamePS {
		both := &c02PubSub{Sub: sub, pub: pub}
		handle = router.AddHandler(hname, "in", both, ptopic, both, handler)
	} else if cs.HasPub {
		handle = router.AddHandler(hname, "in", sub, ptopic, pub, handler)
	} else {
		handle = router.AddNoPublisherHandler(hname, "in", sub, func(msg *message.Message) error {
			_, err := handler(msg)
			return err
		})
	}
	ctx, cancel := context.WithCancel(context.Background())
	defer cancel()
	runDone := make(chan struct{})
	go func() { defer close(runDone); _ = router.Run(ctx) }()
	select {
	case <-router.Running():
	case <-time.After(HangBound):
		r.Emit("hung", "what", "router did not start")
		return
	}
	var gate *sched.Gate
	ids := []string{}
	for i, b := range cs.Msgs {
		m := fmt.Sprintf("m%d", i+1)
		ids = append(ids, m)
		beh[m] = b
		consumed[m] = message.NewMessage(prefix+m, []byte(m))
		switch cs.SameUUID {
		case "same":
			consumed[m].UUID = prefix + "same"
		case "empty":
			consumed[m].UUID = ""
		}
		mctx, mcancel := context.WithCancel(context.Background())
		defer mcancel()
		consumed[m].SetContext(mctx)
		ctxMu.Lock()
		cancels[prefix+m] = mcancel
		ctxMu.Unlock()
		if cs.CtxEnd == "pre" {
			mcancel()
		}
	}
	if cs.Gate != "" {
		gate = sched.Park(cs.Gate, prefix+"m1")
	}
	settled := make([]chan struct{}, len(ids))
	for i, m := range ids {
		settled[i] = make(chan struct{})
		msg := consumed[m]
		go func(m string, ch chan struct{}) {
			select {
			case <-msg.Acked():
				r.Emit("settled", "m", m, "kind", "ack")
			case <-msg.Nacked():
				r.Emit("settled", "m", m, "kind", "nack")
			}
			close(ch)
		}(m, settled[i])
	}
	for i, m := range ids {
		if cs.LateMsg && i == 1 {
			// the first message is through; now the handler is stopped, but the source goes on handing over
			select {
			case <-settled[0]:
			case <-time.After(HangBound):
			}
			handle.Stop()
			time.Sleep(5 * time.Millisecond)
		}
		r.Emit("emit", "m", m)
		if !sub.Emit("in", consumed[m]) {
			r.Emit("hung", "what", "subscription closed before emit")
			return
		}
	}
	if cs.CloseTO {
		// Close gives up waiting for the invocation (an error after CloseTimeout); the invocation then goes on and ends
		deadline := time.Now().Add(HangBound)
		for time.Now().Before(deadline) {
			outMu.Lock()
			st := started["m1"]
			outMu.Unlock()
			if st {
				break
			}
			time.Sleep(time.Millisecond)
		}
		cdone := make(chan struct{})
		go func() { defer close(cdone); _ = router.Close() }()
		if !WaitOrHang(cdone) {
			r.Emit("hung", "what", "router close (time-out expected)")
			return
		}
		close(holdCh)
	}
	if gate != nil {
		// let the other messages finish while m1 is parked (if its behaviour reaches the point at all)
		for i := 1; i < len(ids); i++ {
			select {
			case <-settled[i]:
			case <-time.After(HangBound):
			}
		}
		gateReached = gate.Arrived(20 * time.Millisecond)
		gate.Release()
	}
	untaken := ""
	for i := range ids {
		if cs.LateMsg && i == 1 {
			// the cancelled subscription may legitimately give the message up (the decorator's pump chooses between
			// handing over and the cancelled context): then it is never handled and stays unsettled
			select {
			case <-settled[i]:
			case <-time.After(300 * time.Millisecond):
				untaken = ids[i]
			}
			continue
		}
		if !WaitOrHang(settled[i]) {
			r.Emit("hung", "what", "message never settled", "m", ids[i])
			return
		}
	}
	closed := make(chan struct{})
	go func() { defer close(closed); _ = router.Close() }()
	if !WaitOrHang(closed) || !WaitOrHang(runDone) {
		r.Emit("hung", "what", "router close")
		return
	}
	<-waitOr(waitWG(&lateWg), HangBound)
	if untaken != "" {
		// the router is closed: nothing can start any more
		outMu.Lock()
		st := started[untaken]
		outMu.Unlock()
		if !st {
			r.Emit("untaken", "m", untaken)
		} else if !WaitOrHang(settled[1]) {
			r.Emit("hung", "what", "message never settled", "m", untaken)
			return
		}
	}
	final := [][]string{}
	for _, m := range ids {
		final = append(final, []string{m, scripted.SettleState(consumed[m])})
	}
	r.Emit("quiesce", "final", final)
	r.NonTrivial = true
	return
}
