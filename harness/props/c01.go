package props

import (
	"context"
	"fmt"
	"strings"
	"sync"
	"sync/atomic"
	"time"

	"github.com/ThreeDotsLabs/watermill/message"
	"github.com/ThreeDotsLabs/watermill/pubsub/gochannel"

	"wmverif/sched"
	"wmverif/scripted"
	"wmverif/tr"
)

func init() { Registry["C01"] = runC01 }

type c01Fault struct {
	Stage int
	Call  int
	Kind  string // herr | hpanic | pbefore | pafter | ppanic
}

type c01Case struct {
	Class     string
	K         int
	FanOut    int  // stage that emits two outputs per input (0: none)
	FanIn     bool // stage 1 reads two source topics
	OneRouter bool
	Msgs      int
	Buffer    int
	Blocking  bool
	Taps      int // late subscriptions to an intermediate topic made while the pipeline is busy (each acks whatever it gets)
	Faults    []c01Fault
	FanN      int  // number of outputs of the fan-out stage (0: two)
	SameUUID  bool // the outputs of the fan-out stage all carry the UUID of the message they derive from (the lineage travels in the metadata)
	DoneCtx   bool // every output carries a context that is done by the time the Router publishes it (derived from the delivery, released by a defer in the handler): the topics do not care
}

var c01Kinds = []string{"herr", "hpanic", "pbefore", "pafter", "ppanic", "pcancel"} // pcancel: the publisher refuses with an error that wraps context.Canceled

func runC01(c *Ctx) error {
	T := c.Trace("PipelineTrace")
	var cases []c01Case
	// no faults: all shapes
	for k := 1; k <= 4; k++ {
		for _, fo := range []int{0, 1, k} {
			for _, fi := range []bool{false, true} {
				cases = append(cases, c01Case{Class: "no-fault", K: k, FanOut: fo, FanIn: fi, OneRouter: k%2 == 0, Msgs: 2, Buffer: k % 3, Blocking: fo == 0 && k == 2})
			}
		}
	}
	// late taps on an intermediate topic of a busy pipeline (blocking and not): the pipeline must not care
	for _, blk := range []bool{true, false} {
		for _, k := range []int{2, 3} {
			cases = append(cases, c01Case{Class: "late-taps", K: k, Msgs: 3, Blocking: blk, Taps: 6, OneRouter: k == 3})
			cases = append(cases, c01Case{Class: "late-taps", K: k, Msgs: 3, Blocking: blk, Taps: 6, Faults: []c01Fault{{2, 1, "herr"}, {2, 2, "pbefore"}}})
		}
	}
	// a wide fan-out: every one of the outputs reaches the final topic
	for _, n := range []int{101, 130, 257} {
		cases = append(cases, c01Case{Class: "wide-fan-out", K: 1 + n%2, FanOut: 1, FanN: n, Msgs: 1, Buffer: n % 3})
	}
	cases = append(cases, c01Case{Class: "wide-fan-out", K: 2, FanOut: 2, FanN: 150, Msgs: 2, Faults: []c01Fault{{2, 1, "pbefore"}}})
	// fan-out outputs that share the UUID of the message they derive from (or have none)
	for _, k := range []int{1, 2, 3} {
		cases = append(cases, c01Case{Class: "fan-out-shared-uuid", K: k, FanOut: 1 + (k+1)%2, Msgs: 2, Buffer: k % 2, OneRouter: k == 3, SameUUID: true})
	}
	cases = append(cases, c01Case{Class: "fan-out-shared-uuid", K: 2, FanOut: 1, FanN: 5, Msgs: 2, SameUUID: true, Faults: []c01Fault{{1, 1, "pbefore"}, {2, 2, "herr"}}})
	// outputs that travel with a finished context
	for _, k := range []int{1, 2, 3} {
		cases = append(cases, c01Case{Class: "outputs-with-done-context", K: k, FanOut: k % 2, Msgs: 2, Buffer: k % 2, OneRouter: k == 2, DoneCtx: true})
		cases = append(cases, c01Case{Class: "outputs-with-done-context", K: k, FanOut: (k + 1) % 2, Msgs: 2, DoneCtx: true, Faults: []c01Fault{{k, 1, "herr"}, {1, 2, "pafter"}}})
	}
	// one fault: every stage x call 1..2 x kind, on K = 1, 2 (3 in thorough)
	maxK := c.Pick(2, 3)
	for k := 1; k <= maxK; k++ {
		for st := 1; st <= k; st++ {
			for call := 1; call <= 2; call++ {
				for _, kind := range c01Kinds {
					cases = append(cases, c01Case{Class: "one-fault", K: k, FanOut: (st + call) % (k + 1), Msgs: 2, Buffer: call % 2, Blocking: kind == "herr" && k == 2,
						OneRouter: call == 2, Faults: []c01Fault{{st, call, kind}}})
				}
			}
		}
	}
	// two faults: all pairs of (stage, call, kind) over the first 2 calls on K = 2 (thorough), a sample in quick
	var singles []c01Fault
	for st := 1; st <= 2; st++ {
		for call := 1; call <= 3; call++ {
			for _, kind := range c01Kinds {
				singles = append(singles, c01Fault{st, call, kind})
			}
		}
	}
	var pairs [][2]c01Fault
	for i := range singles {
		for j := i + 1; j < len(singles); j++ {
			if singles[i].Stage == singles[j].Stage && singles[i].Call == singles[j].Call && singles[i].Kind[0] == singles[j].Kind[0] {
				continue
			}
			pairs = append(pairs, [2]c01Fault{singles[i], singles[j]})
		}
	}
	np := len(pairs)
	if !c.Thorough() {
		np = 60
	}
	for i := 0; i < np; i++ {
		p := pairs[i]
		if !c.Thorough() {
			p = pairs[c.Rng.Intn(len(pairs))]
		}
		cases = append(cases, c01Case{Class: "two-faults", K: 2, FanOut: i % 3, Msgs: 2, Buffer: i % 2, OneRouter: i%4 == 0, Faults: []c01Fault{p[0], p[1]}})
	}
	// long random fault sequences on longer pipelines
	n := c.Pick(25, 6000)
	for i := 0; i < n; i++ {
		k := 2 + c.Rng.Intn(3)
		cs := c01Case{Class: "random-faults", K: k, FanOut: c.Rng.Intn(k + 1), FanIn: c.Rng.Intn(3) == 0, OneRouter: c.Rng.Intn(2) == 0, Msgs: 1 + c.Rng.Intn(3),
			Buffer: c.Rng.Intn(3), Blocking: c.Rng.Intn(5) == 0}
		for f := 0; f < 1+c.Rng.Intn(6); f++ {
			cs.Faults = append(cs.Faults, c01Fault{1 + c.Rng.Intn(k), 1 + c.Rng.Intn(5), c01Kinds[c.Rng.Intn(len(c01Kinds))]})
		}
		cases = append(cases, cs)
	}
	runs := make([]*tr.Run, len(cases))
	for i, cs := range cases {
		runs[i] = T.NewRun(cs.Class, map[string]any{"K": cs.K})
		runs[i].Key = fmt.Sprintf("%+v", cs)
	}
	sched.SetYield(100)
	var injected int64
	Parallel(len(cases), func(i int) { atomic.AddInt64(&injected, int64(c01Run(runs[i], cases[i]))) })
	sched.SetYield(0)
	c.AddStat("cases", len(cases))
	c.AddStat("faults_injected", int(injected))
	return nil
}

type c01Pub struct {
	inner message.Publisher
	fn    func(topic string, msgs []*message.Message) (string, bool) // returns fault kind and whether to delegate first
	// deadEnd: every stage also announces what it forwards on a topic that nobody listens to (an audit topic without consumers)
	deadEnd bool
}

func (p c01Pub) Publish(topic string, msgs ...*message.Message) error {
	kind, _ := p.fn(topic, msgs)
	switch kind {
	case "pbefore":
		return errScripted
	case "pcancel":
		return fmt.Errorf("scripted publisher: %w", context.Canceled)
	case "ppanic":
		panic("scripted publisher panic")
	case "pafter":
		if err := p.inner.Publish(topic, msgs...); err != nil {
			return err
		}
		return errScripted
	}
	if p.deadEnd {
		for _, m := range msgs {
			if err := p.inner.Publish("audit-nobody-listens", m.Copy()); err != nil {
				return err
			}
		}
	}
	return p.inner.Publish(topic, msgs...)
}
func (p c01Pub) Close() error { return nil }

// c01Lin is the lineage of a message: its UUID, unless the stage that produced it named it in the metadata (outputs that share a UUID).
func c01Lin(m *message.Message) string {
	if l := m.Metadata.Get("lin"); l != "" {
		return l
	}
	return m.UUID
}

func c01Run(r *tr.Run, cs c01Case) (injected int) {
	gc := gochannel.NewGoChannel(gochannel.Config{OutputChannelBuffer: int64(cs.Buffer), BlockPublishUntilSubscriberAck: cs.Blocking}, nil)
	defer gc.Close()
	faults := map[string]string{}
	for _, f := range cs.Faults {
		k := "h"
		if f.Kind[0] == 'p' {
			k = "p"
		}
		faults[fmt.Sprintf("%s/%d/%d", k, f.Stage, f.Call)] = f.Kind
	}
	var mu sync.Mutex
	hcalls := map[int]int{}
	pcalls := map[int]int{}
	consumed := map[string]*message.Message{} // by stage/lineage: the message the handler is working on
	inj := 0
	topic := func(i int) string { return fmt.Sprintf("t%d", i) }
	var routers []*message.Router
	newRouter := func() *message.Router {
		rt, _ := message.NewRouter(message.RouterConfig{CloseTimeout: 2 * time.Second}, nil)
		routers = append(routers, rt)
		return rt
	}
	var shared *message.Router
	if cs.OneRouter {
		shared = newRouter()
	}
	for st := 1; st <= cs.K; st++ {
		st := st
		rt := shared
		if rt == nil {
			rt = newRouter()
		}
		tout := topic(st + 1)
		pub := c01Pub{inner: gc, deadEnd: cs.Blocking, fn: func(tp string, msgs []*message.Message) (string, bool) {
			mu.Lock()
			pcalls[st]++
			n := pcalls[st]
			kind := faults[fmt.Sprintf("p/%d/%d", st, n)]
			if kind != "" {
				inj++
			}
			outs := []string{}
			for _, m := range msgs {
				outs = append(outs, c01Lin(m))
			}
			base := msgs[0].Metadata.Get("from")
			cm := consumed[fmt.Sprintf("%d/%s", st, base)]
			mu.Unlock()
			fk := map[string]string{"": "none", "pbefore": "before", "pcancel": "before", "pafter": "after", "ppanic": "panic"}[kind]
			sample := "unknown"
			if cm != nil {
				sample = scripted.SettleState(cm)
			}
			r.Emit("pcall", "stage", st, "n", n, "x", base, "outs", outs, "tin", msgs[0].Metadata.Get("tin"), "tout", tp, "fault", fk, "sample", sample)
			return kind, false
		}}
		mk := func(tin string) message.HandlerFunc {
			return func(msg *message.Message) ([]*message.Message, error) {
				x := c01Lin(msg)
				clean := msg.Metadata.Get("seen-by") == "" // a delivery is a copy of what was published: no stage has annotated it yet
				if err := msg.Context().Err(); err != nil {
					return nil, err // stages honour the context of the message they are given (a delivery arrives with a live one)
				}
				msg.Metadata.Set("seen-by", fmt.Sprint(st)) // stages annotate what they received (as the correlation-id middleware does)
				mu.Lock()
				hcalls[st]++
				n := hcalls[st]
				kind := faults[fmt.Sprintf("h/%d/%d", st, n)]
				if kind != "" {
					inj++
				}
				consumed[fmt.Sprintf("%d/%s", st, x)] = msg
				mu.Unlock()
				fk := map[string]string{"": "none", "herr": "error", "hpanic": "panic"}[kind]
				r.Emit("hcall", "stage", st, "n", n, "x", x, "tin", tin, "fault", fk, "clean", clean)
				switch kind {
				case "herr":
					return nil, errScripted
				case "hpanic":
					if (n+st)%2 == 0 {
						var nilMap map[string]int
						nilMap["x"] = 1 // a genuine runtime error (nil map write), not a panic("...") call
					}
					panic("scripted handler panic")
				}
				octx := context.Background()
				if cs.DoneCtx {
					var release context.CancelFunc
					octx, release = context.WithTimeout(msg.Context(), time.Hour)
					defer release()
				}
				mkOut := func(id string) *message.Message {
					o := message.NewMessage(id, msg.Payload)
					if cs.SameUUID && cs.FanOut == st {
						o.UUID = msg.UUID
						o.Metadata.Set("lin", id)
					}
					o.Metadata.Set("from", x)
					o.Metadata.Set("tin", tin)
					if cs.DoneCtx {
						o.SetContext(octx)
					}
					return o
				}
				if cs.FanOut == st {
					outs := []*message.Message{mkOut(x + ".a"), mkOut(x + ".b")}
					for k := 3; k <= cs.FanN; k++ {
						outs = append(outs, mkOut(fmt.Sprintf("%s.c%d", x, k)))
					}
					return outs, nil
				}
				return []*message.Message{mkOut(x)}, nil
			}
		}
		if st == 1 && cs.FanIn {
			rt.AddHandler(fmt.Sprintf("r%d-s1a", r.ID), "t1a", gc, tout, pub, mk("t1a"))
			rt.AddHandler(fmt.Sprintf("r%d-s1b", r.ID), "t1b", gc, tout, pub, mk("t1b"))
		} else {
			rt.AddHandler(fmt.Sprintf("r%d-s%d", r.ID, st), topic(st), gc, tout, pub, mk(topic(st)))
		}
	}
	ctx, cancel := context.WithCancel(context.Background())
	defer cancel()
	// sink
	sinkTopic := topic(cs.K + 1)
	sinkCh, err := gc.Subscribe(ctx, sinkTopic)
	if err != nil {
		r.Emit("error", "what", err.Error())
		return
	}
	var got sync.Map
	var ngot int32
	go func() {
		for m := range sinkCh {
			r.Emit("sink", "x", c01Lin(m), "tin", sinkTopic)
			if _, dup := got.LoadOrStore(c01Lin(m), true); !dup {
				atomic.AddInt32(&ngot, 1)
			}
			m.Ack()
		}
	}()
	var rw sync.WaitGroup
	for _, rt := range routers {
		rt := rt
		rw.Add(1)
		go func() { defer rw.Done(); _ = rt.Run(ctx) }()
	}
	for _, rt := range routers {
		select {
		case <-rt.Running():
		case <-time.After(HangBound):
			r.Emit("hung", "what", "router start")
			return
		}
	}
	// source
	want := 0
	var sw sync.WaitGroup
	for i := 1; i <= cs.Msgs; i++ {
		x := fmt.Sprintf("x%d", i)
		tp := topic(1)
		if cs.FanIn {
			tp = []string{"t1a", "t1b"}[i%2]
		}
		expect := []string{x}
		if cs.FanOut > 0 {
			expect = []string{x + ".a", x + ".b"}
			for k := 3; k <= cs.FanN; k++ {
				expect = append(expect, fmt.Sprintf("%s.c%d", x, k))
			}
		}
		want += len(expect)
		sw.Add(1)
		literal := i%2 == 0
		r.Emit("srcpub", "x", x, "ok", true, "topic", tp, "expect", expect)
		go func() {
			defer sw.Done()
			// logged before the call: the message is in the topic as soon as Publish linearizes
			src := message.NewMessage(x, []byte("payload"))
			if literal {
				src = &message.Message{UUID: x, Payload: []byte("payload")} // built without the constructor (nil metadata)
			}
			err := gc.Publish(tp, src)
			_ = err
			// Publish has returned: the object is the source's again, and it recycles it
			src.UUID = "recycled-" + x
			src.Payload = []byte("recycled")
			src.Metadata = message.Metadata{"recycled": "1"}
		}()
	}
	if cs.Taps > 0 {
		sw.Add(1)
		go func() {
			defer sw.Done()
			for k := 0; k < cs.Taps; k++ {
				time.Sleep(200 * time.Microsecond)
				done := make(chan struct{})
				go func() {
					defer close(done)
					ch, err := gc.Subscribe(ctx, topic(2))
					if err != nil {
						return
					}
					go func() {
						for m := range ch {
							m.Ack()
						}
					}()
				}()
				select {
				case <-done:
				case <-time.After(HangBound):
					r.Emit("hung", "what", "Subscribe to a topic of the busy pipeline")
					return
				}
			}
		}()
	}
	deadline := time.Now().Add(HangBound)
	for time.Now().Before(deadline) && int(atomic.LoadInt32(&ngot)) < want {
		time.Sleep(2 * time.Millisecond)
	}
	time.Sleep(10 * time.Millisecond)
	<-waitOr(waitWG(&sw), HangBound)
	r.Emit("quiesce")
	for _, rt := range routers {
		_ = rt.Close()
	}
	cancel()
	<-waitOr(waitWG(&rw), HangBound)
	mu.Lock()
	injected = inj
	mu.Unlock()
	r.NonTrivial = injected > 0
	_ = strings.TrimSpace
	return
}
