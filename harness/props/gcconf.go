package props

import (
	"context"
	"fmt"
	"strings"
	"sync"
	"time"

	"github.com/ThreeDotsLabs/watermill/message"
	"github.com/ThreeDotsLabs/watermill/pubsub/gochannel"
	"github.com/ThreeDotsLabs/watermill/verifhook"

	"wmverif/sched"
	"wmverif/tr"
)

// Conformance of GoChannelImpl.tla: a fixed-shape scenario (publishers p1, p2 with messages m1, m2 on one topic,
// subscriptions s1, s2, optional cancel, final Close) whose INTERNAL hook events are recorded and validated
// against the implementation-shaped model (spec/GoChannelImplTrace.tla).

var gcConfHooks = map[string]string{ // hook point -> goroutine kind
	"gochannel.publish.after_closed_check": "pub", "gochannel.publish.rlocked": "pub", "gochannel.publish.locked": "pub", "gochannel.publish.sent": "pub",
	"gochannel.subscribe.closed_checked": "subc", "gochannel.subscribe.registered": "subc",
	"gochannel.sub.close.before_lock": "tear", "gochannel.sub.close.closed": "tear",
	"gochannel.send.locked": "send", "gochannel.send.wait_settle": "send",
	"gochannel.close.signalled": "closer",
}

type gcConfCase struct {
	Variant  string // volatile | persistent | blocking  (selects the cfg)
	Behav    [2]string
	CancelS1 bool
	S2Phase  int // 1 concurrently with the publishers, 2 after them
	S1Phase  int // 0 before the publishers, 1 concurrently with them (a publish may find the topic without subscription)
}

func gcConformance(c *Ctx, n int) {
	variants := []string{"volatile", "persistent", "blocking"}
	traces := map[string]*tr.Trace{}
	for _, v := range variants {
		traces[v] = c.Trace("GoChannelImplTrace_" + v)
	}
	var cases []gcConfCase
	var runs []*tr.Run
	for i := 0; i < n; i++ {
		cs := gcConfCase{Variant: variants[i%3], Behav: [2]string{[]string{"ack", "nack1", "ack"}[c.Rng.Intn(3)], []string{"ack", "ack", "nack1"}[c.Rng.Intn(3)]},
			CancelS1: c.Rng.Intn(3) == 0, S2Phase: 1 + c.Rng.Intn(2), S1Phase: (i / 3) % 2}
		if cs.Variant == "volatile" && cs.S2Phase == 2 {
			cs.S2Phase = 1
		}
		cases = append(cases, cs)
		r := traces[cs.Variant].NewRun("conformance/"+cs.Variant, nil)
		r.Key = fmt.Sprintf("conf/%d/%+v", i, cs)
		r.NonTrivial = true
		runs = append(runs, r)
	}
	Parallel(len(cases), func(i int) { gcConfRun(runs[i], cases[i]) })
	c.AddStat("conformance_runs", n)
}

func gcConfRun(r *tr.Run, cs gcConfCase) {
	prefix := UniquePrefix() // run ids restart per trace file: hook ids must be unique in the process
	cfg := gochannel.Config{Persistent: cs.Variant == "persistent", BlockPublishUntilSubscriberAck: cs.Variant == "blocking"}
	if cs.Variant == "persistent" {
		cfg.OutputChannelBuffer = 1
	}
	g := gochannel.NewGoChannel(cfg, nil)
	short := func(id string) string { return strings.TrimPrefix(id, prefix) }
	onHook := func(point string, ids []string) {
		kind, ok := gcConfHooks[point]
		if !ok {
			return
		}
		t := ""
		switch kind {
		case "pub":
			t = "pub:p" + strings.TrimPrefix(short(ids[0]), "m")
		case "subc", "tear":
			t = kind + ":" + short(ids[0])
		case "send":
			t = "send:" + short(ids[0]) + "/" + short(ids[1])
		case "closer":
			t = "closer"
		}
		r.Emit("hook", "point", point, "t", t)
	}
	defer sched.Observe(prefix, onHook)()
	defer sched.ObserveID(verifhook.Ptr(g), onHook)()
	var wg, cons sync.WaitGroup
	cancels := map[string]context.CancelFunc{}
	var mu sync.Mutex
	subscribe := func(name, behav string, cancelAfter int) {
		ctx, cancel := context.WithCancel(verifhook.WithName(context.Background(), prefix+name))
		mu.Lock()
		cancels[name] = cancel
		mu.Unlock()
		ch, err := g.Subscribe(ctx, "t")
		if err != nil {
			return
		}
		cons.Add(1)
		go func() {
			defer cons.Done()
			nacked := map[string]bool{}
			n := 0
			for msg := range ch {
				m := short(msg.UUID)
				r.Emit("recv", "s", name, "m", m)
				n++
				if cancelAfter > 0 && n == cancelAfter {
					r.Emit("cancel", "s", name)
					cancel()
				}
				if behav == "nack1" && !nacked[m] {
					nacked[m] = true
					r.Emit("nack", "s", name, "m", m)
					msg.Nack()
					continue
				}
				r.Emit("ack", "s", name, "m", m)
				msg.Ack()
			}
		}()
	}
	ca := 0
	if cs.CancelS1 {
		ca = 1
	}
	if cs.S1Phase == 0 {
		subscribe("s1", cs.Behav[0], ca)
	} else {
		wg.Add(1)
		go func() { defer wg.Done(); subscribe("s1", cs.Behav[0], ca) }()
	}
	for k := 1; k <= 2; k++ {
		k := k
		wg.Add(1)
		go func() {
			defer wg.Done()
			msg := message.NewMessage(fmt.Sprintf("%sm%d", prefix, k), []byte("x"))
			err := g.Publish("t", msg)
			r.Emit("pubend", "p", fmt.Sprintf("p%d", k), "ok", err == nil)
		}()
	}
	if cs.S2Phase == 1 {
		wg.Add(1)
		go func() { defer wg.Done(); subscribe("s2", cs.Behav[1], 0) }()
	}
	if !WaitOrHang(waitWG(&wg)) {
		r.Emit("hung", "what", "publishers / subscribe")
		return
	}
	if cs.S2Phase == 2 {
		subscribe("s2", cs.Behav[1], 0)
	}
	time.Sleep(15 * time.Millisecond)
	closed := make(chan struct{})
	go func() { defer close(closed); _ = g.Close() }()
	if !WaitOrHang(closed) {
		r.Emit("hung", "what", "Close")
		return
	}
	r.Emit("closeend")
	if !WaitOrHang(waitWG(&cons)) {
		r.Emit("hung", "what", "consumers")
		return
	}
	time.Sleep(5 * time.Millisecond)
	r.Emit("end")
}
