package props

import (
	"context"
	"encoding/json"
	"fmt"
	"os"
	"strings"
	"sync"
	"time"

	"github.com/ThreeDotsLabs/watermill/message"
	"github.com/ThreeDotsLabs/watermill/pubsub/gochannel"
	"github.com/ThreeDotsLabs/watermill/verifhook"

	"wmverif/sched"
	"wmverif/tr"
)

// Conformance of GoChannelImpl.tla: a fixed-shape scenario (publishers p1, p2 with messages m1, m2 on one topic,
// subscriptions s1, s2, optional cancel, final Close) whose INTERNAL hook events are recorded and validated
// against the implementation-shaped model (spec/GoChannelImplTrace.tla).

var gcConfHooks = map[string]string{ // hook point -> goroutine kind
	"gochannel.publish.after_closed_check": "pub", "gochannel.publish.rlocked": "pub", "gochannel.publish.locked": "pub", "gochannel.publish.sent": "pub",
	"gochannel.subscribe.closed_checked": "subc", "gochannel.subscribe.registered": "subc",
	"gochannel.sub.close.before_lock": "tear", "gochannel.sub.close.closed": "tear",
	"gochannel.send.locked": "send", "gochannel.send.wait_settle": "send",
	"gochannel.close.signalled": "closer",
}

type gcConfCase struct {
	Variant  string // volatile | persistent | blocking  (selects the cfg)
	Behav    [2]string
	CancelS1 bool
	S2Phase  int // 1 concurrently with the publishers, 2 after them
	S1Phase  int // 0 before the publishers, 1 concurrently with them (a publish may find the topic without subscription)
}

func gcConformance(c *Ctx, n int) {
	variants := []string{"volatile", "persistent", "blocking"}
	traces := map[string]*tr.Trace{}
	for _, v := range variants {
		traces[v] = c.Trace("GoChannelImplTrace_" + v)
	}
	var cases []gcConfCase
	var runs []*tr.Run
	for i := 0; i < n; i++ {
		cs := gcConfCase{Variant: variants[i%3], Behav: [2]string{[]string{"ack", "nack1", "ack"}[c.Rng.Intn(3)], []string{"ack", "ack", "nack1"}[c.Rng.Intn(3)]},
			CancelS1: c.Rng.Intn(3) == 0, S2Phase: 1 + c.Rng.Intn(2), S1Phase: (i / 3) % 2}
		if cs.Variant == "volatile" && cs.S2Phase == 2 {
			cs.S2Phase = 1
		}
		cases = append(cases, cs)
		r := traces[cs.Variant].NewRun("conformance/"+cs.Variant, nil)
		r.Key = fmt.Sprintf("conf/%d/%+v", i, cs)
		r.NonTrivial = true
		runs = append(runs, r)
	}
	Parallel(len(cases), func(i int) { gcConfRun(runs[i], cases[i]) })
	c.AddStat("conformance_runs", n)
}

func gcConfRun(r *tr.Run, cs gcConfCase) {
	prefix := UniquePrefix() // run ids restart per trace file: hook ids must be unique in the process
	cfg := gochannel.Config{Persistent: cs.Variant == "persistent", BlockPublishUntilSubscriberAck: cs.Variant == "blocking"}
	if cs.Variant == "persistent" {
		cfg.OutputChannelBuffer = 1
	}
	g := gochannel.NewGoChannel(cfg, nil)
	short := func(id string) string { return strings.TrimPrefix(id, prefix) }
	onHook := func(point string, ids []string) {
		kind, ok := gcConfHooks[point]
		if !ok {
			return
		}
		t := ""
		switch kind {
		case "pub":
			t = "pub:p" + strings.TrimPrefix(short(ids[0]), "m")
		case "subc", "tear":
			t = kind + ":" + short(ids[0])
		case "send":
			t = "send:" + short(ids[0]) + "/" + short(ids[1])
		case "closer":
			t = "closer"
		}
		r.Emit("hook", "point", point, "t", t)
	}
	defer sched.Observe(prefix, onHook)()
	defer sched.ObserveID(verifhook.Ptr(g), onHook)()
	var wg, cons sync.WaitGroup
	cancels := map[string]context.CancelFunc{}
	var mu sync.Mutex
	subscribe := func(name, behav string, cancelAfter int) {
		ctx, cancel := context.WithCancel(verifhook.WithName(context.Background(), prefix+name))
		mu.Lock()
		cancels[name] = cancel
		mu.Unlock()
		ch, err := g.Subscribe(ctx, "t")
		if err != nil {
			return
		}
		cons.Add(1)
		go func() {
			defer cons.Done()
			nacked := map[string]bool{}
			n := 0
			for msg := range ch {
				m := short(msg.UUID)
				r.Emit("recv", "s", name, "m", m)
				n++
				if cancelAfter > 0 && n == cancelAfter {
					r.Emit("cancel", "s", name)
					cancel()
				}
				if behav == "nack1" && !nacked[m] {
					nacked[m] = true
					r.Emit("nack", "s", name, "m", m)
					msg.Nack()
					continue
				}
				r.Emit("ack", "s", name, "m", m)
				msg.Ack()
			}
		}()
	}
	ca := 0
	if cs.CancelS1 {
		ca = 1
	}
	if cs.S1Phase == 0 {
		subscribe("s1", cs.Behav[0], ca)
	} else {
		wg.Add(1)
		go func() { defer wg.Done(); subscribe("s1", cs.Behav[0], ca) }()
	}
	for k := 1; k <= 2; k++ {
		k := k
		wg.Add(1)
		go func() {
			defer wg.Done()
			msg := message.NewMessage(fmt.Sprintf("%sm%d", prefix, k), []byte("x"))
			err := g.Publish("t", msg)
			r.Emit("pubend", "p", fmt.Sprintf("p%d", k), "ok", err == nil)
		}()
	}
	if cs.S2Phase == 1 {
		wg.Add(1)
		go func() { defer wg.Done(); subscribe("s2", cs.Behav[1], 0) }()
	}
	if !WaitOrHang(waitWG(&wg)) {
		r.Emit("hung", "what", "publishers / subscribe")
		return
	}
	if cs.S2Phase == 2 {
		subscribe("s2", cs.Behav[1], 0)
	}
	time.Sleep(15 * time.Millisecond)
	closed := make(chan struct{})
	go func() { defer close(closed); _ = g.Close() }()
	if !WaitOrHang(closed) {
		r.Emit("hung", "what", "Close")
		return
	}
	r.Emit("closeend")
	if !WaitOrHang(waitWG(&cons)) {
		r.Emit("hung", "what", "consumers")
		return
	}
	time.Sleep(5 * time.Millisecond)
	r.Emit("end")
}

// ------------------------------------------------------------------ specification -> implementation: gate schedules

// gcSchedules reads the schedules TLC sampled from GoChannelImpl.tla (bin/gen-gochannel-schedules), by variant.
func gcSchedules() map[string][][]string {
	path := os.Getenv("VERIF_GOCHANNEL_SCHEDULES")
	if path == "" {
		return nil
	}
	b, err := os.ReadFile(path)
	if err != nil {
		return nil
	}
	var ws map[string][][]string
	if json.Unmarshal(b, &ws) != nil {
		return nil
	}
	return ws
}

func gcReplayAll(c *Ctx) {
	ws := gcSchedules()
	n := 0
	type job struct {
		r       *tr.Run
		variant string
		word    []string
	}
	var jobs []job
	for _, v := range []string{"volatile", "persistent", "blocking"} {
		T := c.Trace("GoChannelImplTrace_" + v)
		for i, w := range ws[v] {
			r := T.NewRun("schedule/"+v, nil)
			r.Key = fmt.Sprintf("schedule/%s/%d", v, i)
			r.NonTrivial = true
			jobs = append(jobs, job{r, v, w})
			n++
		}
	}
	Parallel(len(jobs), func(i int) { gcConfReplay(jobs[i].r, jobs[i].variant, jobs[i].word) })
	c.AddStat("gochannel_schedules_replayed", n)
}

// gcConfReplay drives the real GoChannel along one schedule of the specification: the calls are started when the schedule says so and
// every hook point of the run is gated -- a goroutine that reaches one stays there until the schedule releases it.  Where the code
// decides for itself (a select, the Go scheduler between two hook points) the run may leave the schedule: every wait is bounded and
// every action of the harness is a legal move of the environment, so the recorded internal trace is judged like any other.
func gcConfReplay(r *tr.Run, variant string, word []string) {
	prefix := UniquePrefix()
	cfg := gochannel.Config{Persistent: variant == "persistent", BlockPublishUntilSubscriberAck: variant == "blocking"}
	if variant == "persistent" {
		cfg.OutputChannelBuffer = 1
	}
	g := gochannel.NewGoChannel(cfg, nil)
	short := func(id string) string { return strings.TrimPrefix(id, prefix) }
	onHook := func(point string, ids []string) {
		kind, ok := gcConfHooks[point]
		if !ok {
			return
		}
		t := ""
		switch kind {
		case "pub":
			t = "pub:p" + strings.TrimPrefix(short(ids[0]), "m")
		case "subc", "tear":
			t = kind + ":" + short(ids[0])
		case "send":
			t = "send:" + short(ids[0]) + "/" + short(ids[1])
		case "closer":
			t = "closer"
		}
		r.Emit("hook", "point", point, "t", t)
	}
	defer sched.Observe(prefix, onHook)()
	defer sched.ObserveID(verifhook.Ptr(g), onHook)()

	const step = 90 * time.Millisecond
	var gmu sync.Mutex
	gates := map[string]*sched.Gate{} // "<goroutine>|<point>" -> the gate currently installed there
	freeRun := false
	park := func(name, point string) {
		var gt *sched.Gate
		switch {
		case strings.HasPrefix(name, "pub:p"):
			gt = sched.Park(point, prefix+"m"+strings.TrimPrefix(name, "pub:p"))
		case strings.HasPrefix(name, "subc:"), strings.HasPrefix(name, "tear:"):
			gt = sched.Park(point, prefix+name[5:])
		case strings.HasPrefix(name, "send:"):
			ms := strings.SplitN(name[5:], "/", 2)
			gt = sched.Park2(point, prefix+ms[0], prefix+ms[1])
		case name == "closer":
			gt = sched.Park(point, verifhook.Ptr(g))
		}
		gates[name+"|"+point] = gt
	}
	for point, kind := range gcConfHooks {
		switch kind {
		case "pub":
			park("pub:p1", point)
			park("pub:p2", point)
		case "subc", "tear":
			park(kind+":s1", point)
			park(kind+":s2", point)
		case "send":
			for _, m := range []string{"m1", "m2"} {
				for _, s := range []string{"s1", "s2"} {
					park("send:"+m+"/"+s, point)
				}
			}
		case "closer":
			park("closer", point)
		}
	}
	releaseAll := func() {
		gmu.Lock()
		freeRun = true
		for _, gt := range gates {
			gt.Release()
		}
		gmu.Unlock()
	}
	defer releaseAll()
	release := func(name, point string) {
		gmu.Lock()
		gt := gates[name+"|"+point]
		gmu.Unlock()
		if gt == nil || !gt.Arrived(step) {
			return
		}
		gmu.Lock()
		if !freeRun {
			park(name, point) // the point may be reached again (a redelivery): a new gate, installed before the goroutine moves on
		}
		gmu.Unlock()
		gt.Release()
	}

	var wg, cons sync.WaitGroup
	type subSt struct {
		cancel context.CancelFunc
		cmds   chan string
		called bool
	}
	subs := map[string]*subSt{}
	for _, s := range []string{"s1", "s2"} {
		subs[s] = &subSt{cmds: make(chan string, 32)}
	}
	var cmu sync.Mutex
	started := map[string]bool{}
	closeDone := make(chan struct{})
	closeCalled := false
	startClose := func() {
		if closeCalled {
			return
		}
		closeCalled = true
		go func() { defer close(closeDone); _ = g.Close() }()
	}
	for _, w := range word {
		f := strings.SplitN(w, ":", 3)
		switch f[0] {
		case "start":
			switch f[1] {
			case "pub":
				if started[w] {
					continue
				}
				started[w] = true
				k := strings.TrimPrefix(f[2], "p")
				wg.Add(1)
				go func() {
					defer wg.Done()
					msg := message.NewMessage(prefix+"m"+k, []byte("x"))
					err := g.Publish("t", msg)
					r.Emit("pubend", "p", "p"+k, "ok", err == nil)
				}()
			case "sub":
				name := f[2]
				st := subs[name]
				if st.called {
					continue
				}
				st.called = true
				ctx, cancel := context.WithCancel(verifhook.WithName(context.Background(), prefix+name))
				cmu.Lock()
				st.cancel = cancel
				cmu.Unlock()
				wg.Add(1)
				go func() {
					defer wg.Done()
					ch, err := g.Subscribe(ctx, "t")
					if err != nil {
						return
					}
					cons.Add(1)
					go func() { // the consumer acts on command; once the schedule is over it acknowledges whatever still comes
						defer cons.Done()
						var cur *message.Message
						settle := func(kind string) {
							if cur == nil {
								return
							}
							r.Emit(kind, "s", name, "m", short(cur.UUID))
							if kind == "ack" {
								cur.Ack()
							} else {
								cur.Nack()
							}
							cur = nil
						}
						for cmd := range st.cmds {
							switch cmd {
							case "recv":
								if cur != nil {
									continue
								}
								msg, ok := <-ch
								if !ok {
									return
								}
								r.Emit("recv", "s", name, "m", short(msg.UUID))
								cur = msg
							case "ack", "nack":
								settle(cmd)
							}
						}
						settle("ack")
						for msg := range ch {
							r.Emit("recv", "s", name, "m", short(msg.UUID))
							cur = msg
							settle("ack")
						}
					}()
				}()
			case "close":
				startClose()
			}
			time.Sleep(150 * time.Microsecond) // (the new goroutine gets to its first hook point)
		case "rel":
			if i := strings.LastIndex(w, ":"); i > 4 {
				release(w[4:i], w[i+1:]) // rel:<goroutine>:<hook point>
			}
		case "recv", "ack", "nack":
			select {
			case subs[f[1]].cmds <- f[0]:
			default:
			}
			time.Sleep(100 * time.Microsecond)
		case "cancel":
			cmu.Lock()
			c := subs[f[1]].cancel
			cmu.Unlock()
			if c != nil {
				r.Emit("cancel", "s", f[1])
				c()
			}
		}
	}
	// the schedule is over: all gates open, the consumers acknowledge what still comes, Close is called if it was not
	releaseAll()
	for _, st := range subs {
		close(st.cmds)
	}
	if !WaitOrHang(waitWG(&wg)) {
		r.Emit("hung", "what", "publishers / subscribe")
		return
	}
	time.Sleep(5 * time.Millisecond)
	startClose()
	if !WaitOrHang(closeDone) {
		r.Emit("hung", "what", "Close")
		return
	}
	r.Emit("closeend")
	if !WaitOrHang(waitWG(&cons)) {
		r.Emit("hung", "what", "consumers")
		return
	}
	cmu.Lock()
	for _, st := range subs {
		if st.cancel != nil {
			defer st.cancel()
		}
	}
	cmu.Unlock()
	time.Sleep(5 * time.Millisecond)
	r.Emit("end")
}
