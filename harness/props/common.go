// Package props contains one driver per property. A driver exercises the real
// watermill code on generated scenarios and records NDJSON traces; verdicts are
// produced afterwards by TLC validating those traces against the TLA+
// specifications in /verif/spec.
package props

import (
	"encoding/json"
	"fmt"
	"math/rand"
	"os"
	"path/filepath"
	"runtime"
	"sort"
	"sync"
	"sync/atomic"
	"time"

	"wmverif/tr"
)

type Ctx struct {
	Tier  string
	Seed  int64
	Out   string
	Only  string // optional: restrict to scenario classes with this prefix (replay)
	Rng   *rand.Rand
	mu    sync.Mutex
	Stats map[string]any
	trs   map[string]*tr.Trace
}

func NewCtx(tier string, seed int64, out string) *Ctx {
	return &Ctx{Tier: tier, Seed: seed, Out: out, Rng: rand.New(rand.NewSource(seed)), Stats: map[string]any{}, trs: map[string]*tr.Trace{}}
}

func (c *Ctx) Thorough() bool { return c.Tier == "thorough" }

// Pick returns q in the quick tier and t in the thorough tier.
func (c *Ctx) Pick(q, t int) int {
	if c.Thorough() {
		return t
	}
	return q
}

// Trace returns the trace file with the given name (= name of the trace spec that validates it).
func (c *Ctx) Trace(name string) *tr.Trace {
	c.mu.Lock()
	defer c.mu.Unlock()
	t := c.trs[name]
	if t == nil {
		t = tr.New()
		c.trs[name] = t
	}
	return t
}

func (c *Ctx) Stat(k string, v any) {
	c.mu.Lock()
	c.Stats[k] = v
	c.mu.Unlock()
}

func (c *Ctx) AddStat(k string, n int) {
	c.mu.Lock()
	if x, ok := c.Stats[k].(int); ok {
		c.Stats[k] = x + n
	} else {
		c.Stats[k] = n
	}
	c.mu.Unlock()
}

func (c *Ctx) Finish() error {
	names := []string{}
	for n, t := range c.trs {
		if err := t.Write(c.Out, n); err != nil {
			return err
		}
		names = append(names, n)
	}
	sort.Strings(names)
	c.Stats["traces"] = names
	b, _ := json.MarshalIndent(c.Stats, "", " ")
	return os.WriteFile(filepath.Join(c.Out, "stats.json"), b, 0o644)
}

// SubRng derives an independent PRNG for a worker.
func (c *Ctx) SubRng(i int) *rand.Rand { return rand.New(rand.NewSource(c.Seed*1000003 + int64(i))) }

type Driver func(c *Ctx) error

var Registry = map[string]Driver{}

// Parallel runs f(i) for i in [0,n) on up to GOMAXPROCS workers.
func Parallel(n int, f func(i int)) {
	w := runtime.GOMAXPROCS(0)
	if w > n {
		w = n
	}
	var wg sync.WaitGroup
	ch := make(chan int)
	for k := 0; k < w; k++ {
		wg.Add(1)
		go func() {
			defer wg.Done()
			for i := range ch {
				f(i)
			}
		}()
	}
	for i := 0; i < n; i++ {
		ch <- i
	}
	close(ch)
	wg.Wait()
}

// HangBound is how long a call may stay pending after the environment has
// discharged all its obligations before it is declared hung (paid only on failure).
var HangBound = 10 * time.Second

// Guarded runs f in the calling goroutine, converting a panic into a value.
func Guarded(f func()) (panicked bool, val string) {
	defer func() {
		if r := recover(); r != nil {
			panicked = true
			val = fmt.Sprint(r)
		}
	}()
	f()
	return
}

var hangs int32

// WaitOrHang waits for done; returns false if it is not closed within HangBound.
// After a few hangs have been seen in this process the bound is shortened, so
// that a tree on which everything hangs is still reported in reasonable time.
func WaitOrHang(done <-chan struct{}) bool {
	b := HangBound
	if atomic.LoadInt32(&hangs) >= 3 {
		b = HangBound / 4
	}
	select {
	case <-done:
		return true
	case <-time.After(b):
		atomic.AddInt32(&hangs, 1)
		return false
	}
}

var uniq int64

// UniquePrefix returns a process-wide unique id prefix ("k<n>-") for hook ids of one run.
func UniquePrefix() string { return fmt.Sprintf("k%d-", atomic.AddInt64(&uniq, 1)) }
