package props

import (
	"context"
	"encoding/json"
	"fmt"
	"github.com/ThreeDotsLabs/watermill"
	"os"
	"sort"
	"runtime"
	"strings"
	"sync"
	"sync/atomic"
	"time"

	"github.com/ThreeDotsLabs/watermill/message"

	"wmverif/sched"
	"wmverif/scripted"
	"wmverif/tr"
)

func init() { Registry["C10"] = runC10 }

// A lifecycle program: ops executed in order by the harness
//
//	add:<h>:<pub> | run | waitrunning | rh | rhx<n> (n concurrent RunHandlers) | started:<h> | stop:<h> | waitstopped:<h>
//	probe:<h> | cancel | run2 | gate:<h> (park RunHandlers right after Started(h) closes, call Stop/Stopped there)
//	holdsub:<h> (the Subscribe call of h blocks until released) | release | slowsub (Subscribe calls take 3 ms)
//	rhfresh (RunHandlers with a context of its own instead of the Run context) | close (Router.Close)
//	shorttimeout (CloseTimeout 150 ms instead of 3 s) | waitrun (wait until the first Run has returned)
//	hold:<h> (a message is sent to h whose handler function blocks until "unhold") | unhold | pause (15 ms)
type c10CtxKind struct{}

type c10Prog struct {
	Class string
	Ops   []string
}

// c10ParkLogger is silent; when armed it holds the goroutine that logs "Running router handlers" (RunHandlers, just inside its lock).
type c10ParkLogger struct {
	armed   int32
	parked  chan struct{}
	release chan struct{}
	once    sync.Once
}

func (l *c10ParkLogger) unpark()                                  { l.once.Do(func() { close(l.release) }) }
func (l *c10ParkLogger) Error(string, error, watermill.LogFields) {}
func (l *c10ParkLogger) Info(msg string, _ watermill.LogFields) {
	if msg == "Running router handlers" && atomic.CompareAndSwapInt32(&l.armed, 1, 0) {
		l.parked <- struct{}{}
		<-waitOr(l.release, HangBound)
	}
}
func (l *c10ParkLogger) Debug(string, watermill.LogFields)                {}
func (l *c10ParkLogger) Trace(string, watermill.LogFields)                {}
func (l *c10ParkLogger) With(watermill.LogFields) watermill.LoggerAdapter { return l }

func c10Programs(c *Ctx) []c10Prog {
	ps := []c10Prog{
		{"basic", strings.Fields("add:a:p1 add:b:p2 run waitrunning started:a started:b probe:a probe:b stop:a waitstopped:a probe:b probe:a cancel")},
		{"shared-publisher", strings.Fields("add:a:p1 add:b:p1 add:c:p2 run waitrunning started:a started:b started:c stop:a waitstopped:a probe:c probe:b cancel")},
		{"all-stopped-self-close", strings.Fields("add:a:p1 add:b:p2 run waitrunning started:a started:b stop:a stop:b waitstopped:a waitstopped:b")},
		{"late-handlers", strings.Fields("add:a:p1 run waitrunning add:b:p2 add:c:p3 rh started:b started:c probe:a probe:b probe:c rh rh probe:b cancel")},
		{"concurrent-runhandlers", strings.Fields("slowsub add:a:p1 run waitrunning add:b:p2 add:c:p3 add:d:p4 rhx4 started:b started:c started:d probe:b probe:c probe:d cancel")},
		{"concurrent-runhandlers", strings.Fields("slowsub add:a:p1 add:b:p2 run waitrunning add:c:p3 rhx6 started:c add:d:p1 rhx3 started:d probe:c probe:d cancel")},
		{"stop-at-started", strings.Fields("add:a:p1 add:b:p2 gate:a run waitrunning probe:b cancel")},
		{"stop-at-started", strings.Fields("add:a:p1 run waitrunning add:b:p2 gate:b rh probe:a cancel")},
		{"second-run", strings.Fields("add:a:p1 run waitrunning run2 probe:a cancel run2")},
		// ... also once the router has closed (cancelled, closed by the user, or all handlers stopped)
		{"second-run", strings.Fields("add:a:p1 run waitrunning probe:a cancel waitrun run2")},
		{"second-run", strings.Fields("add:a:p1 run waitrunning close waitrun run2")},
		{"second-run", strings.Fields("add:a:p1 add:b:p2 run waitrunning started:a started:b stop:a stop:b waitstopped:a waitstopped:b waitrun run2")},
		// RunHandlers is inside its critical section when Close is called (the two take their locks in a fixed order: both return)
		{"close-during-runhandlers", strings.Fields("add:a:p1 run waitrunning started:a add:b:p2 rhparked closebg unpark")},
		{"close-during-runhandlers", strings.Fields("add:a:p1 add:b:p2 run waitrunning started:a started:b rhparked closebg unpark")},
		// Stop() on a handler that has ended already, RunHandlers while a handler is ending: no panic, nothing starts twice
		{"stop-twice", strings.Fields("add:a:p1 add:b:p2 run waitrunning started:a started:b stop:a waitstopped:a stop:a probe:b cancel")},
		{"stop-twice", strings.Fields("add:a:p1 add:b:p2 run waitrunning started:a started:b stop:a rhx6 waitstopped:a rh stop:a probe:b cancel")},
		{"stop-abreast", strings.Fields("add:a:p1 add:b:p2 run waitrunning started:a started:b stopx:a waitstopped:a probe:b stopx:b waitstopped:b")},
		{"stop-abreast", strings.Fields("add:a:p1 add:b:p2 add:c:p3 run waitrunning started:a started:b started:c stopx:b waitstopped:b probe:a probe:c stopx:b cancel")},
		{"stop-abreast", strings.Fields("add:a:p1 run waitrunning started:a add:b:p2 rh started:b stopx:b waitstopped:b probe:a stopx:a waitstopped:a")},
		{"second-run-during-startup", strings.Fields("add:a:p1 add:b:p2 holdsub:a run run2 release waitrunning probe:a probe:b cancel")},
		{"publish-right-after-running", strings.Fields("add:a:p1 add:b:p2 add:c:p3 run waitrunning probe:c probe:b probe:a cancel")},
		{"rh-before-run", strings.Fields("add:a:p1 rh run waitrunning probe:a cancel")},
		// plugins: once, in order, before any Subscribe; a failing plugin aborts Run; duplicate handler names panic
		{"plugins", strings.Fields("plugin:x:ok add:a:p1 plugin:y:ok add:b:p2 adddup:a run waitrunning started:a started:b probe:a adddup:b cancel")},
		{"plugins", strings.Fields("plugin:x:ok add:a:p1 plugin:y:err plugin:z:ok run")},
		{"plugins", strings.Fields("plugin:x:err run run2")},
		// the router closes itself although an invocation outlives CloseTimeout: Run still returns nil
		{"selfclose-busy", strings.Fields("shorttimeout add:a:p1 add:b:p2 run waitrunning started:a started:b hold:a cancel")},
		{"selfclose-busy", strings.Fields("shorttimeout add:a:p1 run waitrunning started:a hold:a stop:a waitstopped:a")},
		// Stop ends that handler only -- also while another handler has an invocation in flight
		{"stop-while-other-busy", strings.Fields("add:a:p1 add:b:p2 add:c:p3 run waitrunning started:a started:b started:c hold:b stop:a waitstopped:a probe:c unhold probe:b cancel")},
		{"stop-while-other-busy", strings.Fields("add:a:p1 add:b:p2 run waitrunning started:a started:b hold:a hold:b stop:a unhold waitstopped:a probe:b cancel")},
		{"close", strings.Fields("add:a:p1 add:b:p2 run waitrunning started:a started:b probe:a close")},
		{"close", strings.Fields("add:a:p1 run waitrunning add:b:p2 rhfresh started:a started:b stop:a waitstopped:a probe:b close")},
		{"close", strings.Fields("run waitrunning add:a:p1 rh started:a close")},
		// Close on a router that was never run: it does not come up, its handlers hold no subscription
		{"close-before-run", strings.Fields("shorttimeout add:a:p1 isrunning close isrunning")},
		{"close-before-run", strings.Fields("shorttimeout add:a:p1 add:b:p2 close pause isrunning")},
		// a router started without handlers: the first handler arrives later, possibly after the Run context was cancelled
		{"empty-run", strings.Fields("run waitrunning add:a:p1 rh started:a probe:a stop:a waitstopped:a")},
		{"empty-run", strings.Fields("run waitrunning cancel pause add:a:p1 rh started:a")},
		{"empty-run", strings.Fields("run waitrunning cancel add:a:p1 rh started:a")},
		{"empty-run", strings.Fields("run waitrunning cancel pause add:a:p1 add:b:p2 rhfresh started:a started:b probe:a stop:a waitstopped:a probe:b stop:b waitstopped:b")},
		{"empty-run", strings.Fields("run waitrunning add:a:p1 rhfresh started:a cancel probe:a add:b:p2 rh started:b stop:a waitstopped:a")},
	}
	// programs generated by TLC from spec/RouterWatcher.tla (bin/gen-watcher-programs): all of them in the thorough tier, a sample in quick
	if path := os.Getenv("VERIF_C10_PROGRAMS"); path != "" {
		var gen []struct {
			Word []string `json:"word"`
			Ops  []string `json:"ops"`
		}
		if b, err := os.ReadFile(path); err == nil && json.Unmarshal(b, &gen) == nil {
			idx := c.Rng.Perm(len(gen))
			if !c.Thorough() && len(idx) > 48 {
				idx = idx[:48]
			}
			for _, i := range idx {
				ps = append(ps, c10Prog{"tlc-generated", gen[i].Ops})
			}
			c.AddStat("tlc_generated_programs", len(idx))
		}
	}
	n := c.Pick(20, 3000)
	for i := 0; i < n; i++ {
		hs := []string{"a", "b", "c", "d", "e"}[:1+c.Rng.Intn(5)]
		var ops []string
		if c.Rng.Intn(2) == 0 {
			ops = append(ops, "slowsub")
		}
		k := 1 + c.Rng.Intn(len(hs))
		if c.Rng.Intn(6) == 0 {
			k = 0 // Run without handlers
		}
		for _, h := range hs[:k] {
			ops = append(ops, fmt.Sprintf("add:%s:p%d", h, 1+c.Rng.Intn(2)))
		}
		ops = append(ops, "run", "waitrunning")
		for _, h := range hs[k:] {
			ops = append(ops, fmt.Sprintf("add:%s:p%d", h, 1+c.Rng.Intn(3)))
		}
		if k < len(hs) {
			if c.Rng.Intn(4) == 0 {
				ops = append(ops, "rhfresh")
			} else {
				ops = append(ops, fmt.Sprintf("rhx%d", 1+c.Rng.Intn(4)))
			}
		}
		for _, h := range hs {
			ops = append(ops, "started:"+h)
		}
		stopped := map[string]bool{}
		for j := 0; j < 4; j++ {
			h := hs[c.Rng.Intn(len(hs))]
			switch c.Rng.Intn(3) {
			case 0:
				ops = append(ops, "probe:"+h)
			case 1:
				if !stopped[h] {
					stopped[h] = true
					ops = append(ops, "stop:"+h, "waitstopped:"+h)
				}
			case 2:
				ops = append(ops, "rh")
			}
		}
		if len(stopped) < len(hs) {
			if c.Rng.Intn(3) == 0 {
				ops = append(ops, "close")
			} else {
				ops = append(ops, "cancel")
			}
		}
		ps = append(ps, c10Prog{"random", ops})
	}
	return ps
}

func runC10(c *Ctx) error {
	T := c.Trace("RouterLifecycleTrace")
	ps := c10Programs(c)
	if c.Only != "" {
		var keep []c10Prog
		for _, p := range ps {
			if strings.HasPrefix(p.Class, c.Only) {
				keep = append(keep, p)
			}
		}
		ps = keep
	}
	runs := make([]*tr.Run, len(ps))
	for i, p := range ps {
		runs[i] = T.NewRun(p.Class, map[string]any{"prog": strings.Join(p.Ops, " ")})
		runs[i].Key = strings.Join(p.Ops, " ")
	}
	Parallel(len(ps), func(i int) { c10Run(runs[i], ps[i]) })
	c.AddStat("programs", len(ps))
	return nil
}

func c10Run(r *tr.Run, p c10Prog) {
	prefix := fmt.Sprintf("r%d-", r.ID)
	closeTimeout := 3 * time.Second
	for _, op := range p.Ops {
		if op == "shorttimeout" {
			closeTimeout = 150 * time.Millisecond
		}
	}
	// a logger that can hold RunHandlers right after it has taken its lock (at its first log line), see "rhparked"
	plog := &c10ParkLogger{parked: make(chan struct{}, 4), release: make(chan struct{})}
	router, _ := message.NewRouter(message.RouterConfig{CloseTimeout: closeTimeout}, plog)
	subs := map[string]*scripted.Sub{}
	handles := map[string]*message.Handler{}
	handled := map[string]chan string{}
	var mu sync.Mutex
	slow := false
	hold := map[string]chan struct{}{}
	entered := map[string]chan struct{}{}
	var gates []*sched.Gate
	defer func() {
		for _, g := range gates {
			g.Release()
		}
	}()
	ctx, cancel := context.WithCancel(context.WithValue(context.Background(), c10CtxKind{}, "run"))
	defer cancel()
	freshCtx, cancelFresh := context.WithCancel(context.WithValue(context.Background(), c10CtxKind{}, "fresh"))
	defer cancelFresh()
	runDone := make(chan struct{})
	heldIn := make(chan string, 8)
	unhold := make(chan struct{})
	var unholdOnce sync.Once
	defer unholdOnce.Do(func() { close(unhold) })
	var endMu sync.Mutex
	quiesced := false
	nruns := 0
	seq := 0
	var bg, bg2 sync.WaitGroup
	for _, op := range p.Ops {
		f := strings.Split(op, ":")
		switch {
		case f[0] == "shorttimeout":
		case f[0] == "slowsub":
			slow = true
		case f[0] == "add":
			h := f[1]
			s := scripted.NewSub("sub-" + h)
			subs[h] = s
			ch := make(chan string, 16)
			handled[h] = ch
			ent := make(chan struct{})
			entered[h] = ent
			var once sync.Once
			s.OnSubscribe = func(string) {
				kind := "fresh"
				if sp := s.Subs(""); len(sp) > 0 {
					if v, _ := sp[len(sp)-1].Ctx.Value(c10CtxKind{}).(string); v != "" {
						kind = v
					}
				}
				r.Emit("subscribed", "h", h, "ctx", kind)
				once.Do(func() { close(ent) })
				mu.Lock()
				hc := hold[h]
				sl := slow
				mu.Unlock()
				if hc != nil {
					<-hc
				}
				if sl {
					time.Sleep(3 * time.Millisecond)
				}
			}
			r.Emit("addh", "h", h, "pub", f[2])
			handles[h] = router.AddNoPublisherHandler(prefix+h, "t-"+h, s, func(msg *message.Message) error {
				if strings.Contains(msg.UUID, "held") {
					heldIn <- h
					<-unhold
					return nil
				}
				ch <- msg.UUID
				return nil
			})
		case f[0] == "plugin":
			id, ok := f[1], f[2] == "ok"
			r.Emit("addplugin", "i", id, "ok", ok)
			router.AddPlugin(func(*message.Router) error {
				r.Emit("plugin", "i", id)
				if !ok {
					return fmt.Errorf("plugin %s fails", id)
				}
				return nil
			})
		case f[0] == "adddup":
			h := f[1]
			isDup := false
			func() {
				defer func() {
					if rec := recover(); rec != nil {
						_, isDup = rec.(message.DuplicateHandlerNameError)
					}
				}()
				router.AddNoPublisherHandler(prefix+h, "t-"+h, scripted.NewSub("dup"), func(*message.Message) error { return nil })
			}()
			r.Emit("adddup", "h", h, "panicked", isDup)
		case f[0] == "holdsub":
			mu.Lock()
			hold[f[1]] = make(chan struct{})
			mu.Unlock()
		case f[0] == "release":
			mu.Lock()
			for h, hc := range hold {
				close(hc)
				delete(hold, h)
			}
			mu.Unlock()
		case f[0] == "gate":
			h := f[1]
			g := sched.Park("router.runhandlers.started", prefix+h)
			gates = append(gates, g)
			bg.Add(1)
			go func() {
				defer bg.Done()
				if !g.Arrived(HangBound) {
					return
				}
				select {
				case <-handles[h].Started():
					r.Emit("started", "h", h)
				case <-time.After(time.Second):
					g.Release()
					return
				}
				// Started() is closed: Stop() and Stopped() must be usable now
				r.Emit("stopcall", "h", h)
				pn, v := Guarded(func() { handles[h].Stop() })
				if pn {
					r.Emit("stoppanic", "h", h, "val", v)
				} else {
					r.Emit("stopret", "h", h)
				}
				st := handles[h].Stopped()
				if st == nil {
					r.Emit("stoppednil", "h", h)
				}
				g.Release()
				if st != nil {
					select {
					case <-st:
						r.Emit("stopped", "h", h)
					case <-time.After(HangBound):
						r.Emit("hung", "what", "Stopped() never closed")
					}
				}
			}()
		case f[0] == "run" || f[0] == "run2":
			nruns++
			k := nruns
			r.Emit("runcall")
			if k == 1 {
				go func() {
					defer close(runDone)
					err := router.Run(ctx)
					endMu.Lock()
					defer endMu.Unlock()
					if quiesced { // the harness' own clean-up ended the router
						return
					}
					if router.IsClosed() {
						r.Emit("closedseen")
					}
					r.Emit("runret", "k", 1, "ok", err == nil)
				}()
				// when a Subscribe call is held, wait until the router is inside it
				mu.Lock()
				var waitFor chan struct{}
				for h := range hold {
					waitFor = entered[h]
				}
				mu.Unlock()
				if waitFor != nil {
					select {
					case <-waitFor:
					case <-time.After(HangBound):
					}
				}
			} else {
				done := make(chan error, 1)
				go func() { done <- router.Run(ctx) }()
				select {
				case err := <-done:
					r.Emit("runret", "k", k, "ok", err == nil)
				case <-time.After(800 * time.Millisecond):
					// a second Run that was admitted blocks like the first one
					r.Emit("runret", "k", k, "ok", true)
				}
			}
		case f[0] == "waitrun":
			// the first Run has returned (the router has closed itself or was closed): nothing is logged, it is only waited for
			select {
			case <-runDone:
			case <-time.After(HangBound):
				r.Emit("hung", "what", "Run did not return")
				return
			}
		case f[0] == "isrunning":
			// a look at Running() / IsRunning() without waiting
			select {
			case <-router.Running():
				r.Emit("running")
			default:
				if router.IsRunning() {
					r.Emit("running")
				} else {
					r.Emit("notrunning")
				}
			}
		case f[0] == "waitrunning":
			select {
			case <-router.Running():
				r.Emit("running")
			case <-time.After(HangBound):
				r.Emit("hung", "what", "Running() never closed")
				return
			}
		case f[0] == "rh" || f[0] == "rhfresh" || strings.HasPrefix(f[0], "rhx"):
			rhCtx := ctx
			if f[0] == "rhfresh" {
				rhCtx = freshCtx
			}
			n := 1
			if strings.HasPrefix(f[0], "rhx") {
				fmt.Sscanf(f[0], "rhx%d", &n)
			}
			var wg sync.WaitGroup
			start := make(chan struct{})
			for i := 0; i < n; i++ {
				seq++
				id := fmt.Sprintf("rh%d", seq)
				r.Emit("rhcall", "i", id)
				wg.Add(1)
				go func() {
					defer wg.Done()
					<-start
					var err error
					pn, v := Guarded(func() { err = router.RunHandlers(rhCtx) })
					if pn {
						r.Emit("panic", "where", "RunHandlers", "val", v)
						return
					}
					r.Emit("rhret", "i", id, "ok", err == nil)
				}()
			}
			close(start)
			if !WaitOrHang(waitWG(&wg)) {
				r.Emit("hung", "what", "RunHandlers")
				return
			}
		case f[0] == "rhparked":
			// RunHandlers (in the background) is held inside its critical section; "closebg" then calls Close meanwhile, "unpark" lets
			// RunHandlers go on and waits for both
			atomic.StoreInt32(&plog.armed, 1)
			seq++
			id := fmt.Sprintf("rh%d", seq)
			r.Emit("rhcall", "i", id)
			bg2.Add(1)
			go func() {
				defer bg2.Done()
				var err error
				pn, v := Guarded(func() { err = router.RunHandlers(ctx) })
				if pn {
					r.Emit("panic", "where", "RunHandlers", "val", v)
					return
				}
				r.Emit("rhret", "i", id, "ok", err == nil)
			}()
			select {
			case <-plog.parked:
			case <-time.After(HangBound):
				r.Emit("hung", "what", "RunHandlers did not reach its first log line")
				return
			}
		case f[0] == "closebg":
			r.Emit("closecall")
			bg2.Add(1)
			go func() {
				defer bg2.Done()
				var err error
				pn, v := Guarded(func() { err = router.Close() })
				if pn {
					r.Emit("panic", "where", "Close", "val", v)
					return
				}
				r.Emit("closeret", "ok", err == nil)
			}()
			time.Sleep(10 * time.Millisecond) // (Close is waiting for the lock RunHandlers holds)
		case f[0] == "unpark":
			plog.unpark()
			if !WaitOrHang(waitWG(&bg2)) {
				r.Emit("hung", "what", "RunHandlers and Close, overlapping, did not both return")
				return
			}
		case f[0] == "started":
			select {
			case <-handles[f[1]].Started():
				r.Emit("started", "h", f[1])
			case <-time.After(HangBound):
				r.Emit("hung", "what", "Started() never closed", "h", f[1])
				return
			}
		case f[0] == "stop":
			h := f[1]
			r.Emit("stopcall", "h", h)
			pn, v := Guarded(func() { handles[h].Stop() })
			if pn {
				r.Emit("stoppanic", "h", h, "val", v)
				return
			}
			r.Emit("stopret", "h", h)
		case f[0] == "stopx":
			// several Stop() calls on one handler at the same instant
			h := f[1]
			r.Emit("stopcall", "h", h)
			var sw sync.WaitGroup
			var ready, goNow int32
			const nstop = 6
			var panicked int32
			for i := 0; i < nstop; i++ {
				sw.Add(1)
				go func() {
					defer sw.Done()
					atomic.AddInt32(&ready, 1)
					for atomic.LoadInt32(&goNow) == 0 {
					}
					if pn, v := Guarded(func() { handles[h].Stop() }); pn {
						if atomic.AddInt32(&panicked, 1) == 1 {
							r.Emit("stoppanic", "h", h, "val", v)
						}
					}
				}()
			}
			for atomic.LoadInt32(&ready) < nstop {
				runtime.Gosched()
			}
			atomic.StoreInt32(&goNow, 1)
			if !WaitOrHang(waitWG(&sw)) {
				r.Emit("hung", "what", "concurrent Stop calls")
				return
			}
			if atomic.LoadInt32(&panicked) > 0 {
				return
			}
			r.Emit("stopret", "h", h)
		case f[0] == "waitstopped":
			st := handles[f[1]].Stopped()
			if st == nil {
				r.Emit("stoppednil", "h", f[1])
				return
			}
			select {
			case <-st:
				r.Emit("stopped", "h", f[1])
			case <-time.After(HangBound):
				r.Emit("hung", "what", "Stopped() never closed", "h", f[1])
				return
			}
		case f[0] == "probe":
			h := f[1]
			seq++
			msg := message.NewMessage(fmt.Sprintf("%sprobe%d", prefix, seq), nil)
			ok := false
			sent := make(chan bool, 1)
			go func() { sent <- subs[h].Emit("t-"+h, msg) }()
			select {
			case got := <-handled[h]:
				ok = got == msg.UUID
			case <-time.After(700 * time.Millisecond):
			}
			r.Emit("probe", "h", h, "ok", ok)
			if !ok { // don't leave an emitter blocked on a dead subscription
				for _, sp := range subs[h].Subs("") {
					_ = sp
				}
			}
		case f[0] == "hold":
			h := f[1]
			seq++
			msg := message.NewMessage(fmt.Sprintf("%sheld%d", prefix, seq), nil)
			go subs[h].Emit("t-"+h, msg)
			select {
			case <-heldIn:
			case <-time.After(HangBound):
				r.Emit("hung", "what", "held message not delivered", "h", h)
				return
			}
		case f[0] == "pause":
			time.Sleep(15 * time.Millisecond) // lets goroutines that wait for the previous op's effect run first
		case f[0] == "unhold":
			unholdOnce.Do(func() { close(unhold) })
		case f[0] == "cancel":
			r.Emit("cancelrun")
			cancel()
		case f[0] == "close":
			r.Emit("closecall")
			var err error
			pn, v := Guarded(func() { err = router.Close() })
			if pn {
				r.Emit("panic", "where", "Close", "val", v)
				return
			}
			r.Emit("closeret", "ok", err == nil)
		}
	}
	plog.unpark()
	bg.Wait()
	if nruns > 0 {
		select {
		case <-runDone:
		case <-time.After(2 * time.Second):
		}
	}
	// once the router has ended, the Stopped() channel of every started handler is closed (shortly after Run returned)
	unstopped := []string{}
	select {
	case <-runDone:
		hs := []string{}
		for h := range handles {
			hs = append(hs, h)
		}
		sort.Strings(hs)
		deadline := make(chan struct{})
		tm := time.AfterFunc(3*time.Second, func() { close(deadline) })
		defer tm.Stop()
		for _, h := range hs {
			select {
			case <-handles[h].Started():
			default:
				continue
			}
			st := handles[h].Stopped()
			if st == nil {
				unstopped = append(unstopped, h)
				continue
			}
			select {
			case <-st:
			case <-deadline:
				unstopped = append(unstopped, h)
			}
		}
	default:
	}
	endMu.Lock()
	r.Emit("quiesce", "unstopped", unstopped)
	quiesced = true
	endMu.Unlock()
	// clean up whatever is still running
	cancel()
	_ = router.Close()
	for _, s := range subs {
		_ = s.Close()
	}
	r.NonTrivial = len(handles) >= 2
}
