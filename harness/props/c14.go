package props

import (
	"bytes"
	"context"
	"fmt"
	"math/rand"
	"sync"
	"time"

	"github.com/ThreeDotsLabs/watermill/message"
	"github.com/ThreeDotsLabs/watermill/message/router/middleware"

	"wmverif/scripted"
	"wmverif/tr"
)

func init() { Registry["C14"] = runC14 }

type c14Case struct {
	Class      string
	Window     time.Duration
	Goroutines int
	Keys       int
	Rounds     int
	Decorator  bool
	EdgeTrials int    // >0: sequential trials presenting a key again just before its window ends
	Hasher     string // "" (key = a metadata field) | sha256 | adler32: the key is computed from a payload of 1 MiB, so that concurrent computations overlap
	Junk       int    // sweep-gap: that many other live keys in the repository (a clean-up pass takes a while)
}

func runC14(c *Ctx) error {
	T := c.Trace("DedupTrace")
	var cases []c14Case
	for _, g := range []int{1, 2, 8, 32} {
		for _, dec := range []bool{false, true} {
			for _, w := range []time.Duration{20 * time.Millisecond, 60 * time.Millisecond} {
				cases = append(cases, c14Case{Class: fmt.Sprintf("concurrent/g%d", g), Window: w, Goroutines: g, Keys: 4, Rounds: c.Pick(3, 12), Decorator: dec})
			}
		}
	}
	// barrier races on fresh keys (check-then-act windows are tiny)
	for i := 0; i < c.Pick(6, 200); i++ {
		cases = append(cases, c14Case{Class: "barrier", Window: 50 * time.Millisecond, Goroutines: 32, Keys: 40, Rounds: 0, Decorator: i%2 == 1})
	}
	// the built-in hashers are shared by all goroutines that go through the middleware
	for i := 0; i < c.Pick(2, 12); i++ {
		for _, hn := range []string{"sha256", "adler32"} {
			cases = append(cases, c14Case{Class: "barrier/" + hn, Window: 300 * time.Millisecond, Goroutines: 8, Keys: 4, Rounds: 0, Decorator: i%2 == 1, Hasher: hn})
		}
	}
	// arrivals of a remembered key while the clean-up pass of a big repository is under way
	for i := 0; i < c.Pick(2, 10); i++ {
		cases = append(cases, c14Case{Class: "sweep-gap", Window: 400 * time.Millisecond, Goroutines: 2, Junk: 250000, Decorator: i%2 == 1})
	}
	cases = append(cases, c14Case{Class: "decorator-batch", Window: 400 * time.Millisecond, Decorator: true})
	cases = append(cases, c14Case{Class: "default-repository", Window: time.Minute})
	// a delivery whose context is over already fails or passes; when it failed, the redelivery (live context) is the first of its key
	cases = append(cases, c14Case{Class: "abandoned-delivery", Window: 400 * time.Millisecond}, c14Case{Class: "abandoned-delivery", Window: 400 * time.Millisecond, Decorator: true})
	for i := 0; i < c.Pick(2, 20); i++ {
		cases = append(cases, c14Case{Class: "decorator-overlap", Window: 50 * time.Millisecond, Keys: 3, Decorator: true})
		cases = append(cases, c14Case{Class: "refresh", Window: 60 * time.Millisecond, Decorator: i%2 == 1})
	}
	// a key presented again in the last fraction of its window must still be suppressed
	for _, w := range []time.Duration{time.Millisecond, 2 * time.Millisecond, 3 * time.Millisecond, 5 * time.Millisecond} {
		for i := 0; i < c.Pick(6, 100); i++ {
			cases = append(cases, c14Case{Class: "window-edge", Window: w, EdgeTrials: 25})
		}
	}
	runs := make([]*tr.Run, len(cases))
	for i, cs := range cases {
		slack := cs.Window
		if slack < 250*time.Millisecond {
			slack = 250 * time.Millisecond
		}
		runs[i] = T.NewRun(cs.Class, map[string]any{"window": int64(cs.Window / time.Microsecond), "slack": int64(slack / time.Microsecond)})
		runs[i].Key = fmt.Sprintf("%+v/%d", cs, i)
	}
	Parallel(len(cases), func(i int) { c14Run(runs[i], cases[i], c.SubRng(i)) })
	c.AddStat("cases", len(cases))
	// hashers
	hr := T.NewRun("hashers", map[string]any{"window": 0, "slack": 0})
	hr.Key = "hashers"
	np := c14Hashers(hr, c.Rng, c.Pick(400, 20000))
	hr.NonTrivial = true
	c.AddStat("hash_pairs", np)
	return nil
}

func c14Run(r *tr.Run, cs c14Case, rng *rand.Rand) {
	created := time.Now()
	repo, err := middleware.NewMapExpiringKeyRepository(cs.Window)
	if err != nil {
		r.Emit("error", "what", err.Error())
		return
	}
	d := &middleware.Deduplicator{KeyFactory: middleware.NewMessageHasherFromMetadataField("key"), Repository: repo, Timeout: time.Second}
	if cs.Class == "default-repository" {
		// no repository given: the Deduplicator makes itself one -- ONE, shared by everything that is wrapped with this Deduplicator
		d = &middleware.Deduplicator{KeyFactory: middleware.NewMessageHasherFromMetadataField("key"), Timeout: time.Second}
	}
	var payloads sync.Map // logical key -> payload
	payloadOf := func(key string) []byte { return []byte(key) }
	if cs.Hasher != "" {
		const size = 1 << 20
		if cs.Hasher == "sha256" {
			d.KeyFactory = middleware.NewMessageHasherSHA256(2 * size)
		} else {
			d.KeyFactory = middleware.NewMessageHasherAdler32(2 * size)
		}
		payloadOf = func(key string) []byte {
			if p, ok := payloads.Load(key); ok {
				return p.([]byte)
			}
			p := make([]byte, size)
			rand.New(rand.NewSource(int64(len(key))*7919 + int64(key[len(key)-1]))).Read(p)
			copy(p, key)
			q, _ := payloads.LoadOrStore(key, p)
			return q.([]byte)
		}
	}
	t0 := time.Now()
	now := func() int64 { return int64(time.Since(t0) / time.Microsecond) }
	var invoked sync.Map
	mw := d.Middleware(func(m *message.Message) ([]*message.Message, error) {
		invoked.Store(m.UUID, true)
		return []*message.Message{message.NewMessage("out", nil)}, nil
	})
	mw2 := d.Middleware(func(m *message.Message) ([]*message.Message, error) { // a second handler wrapped with the same Deduplicator
		invoked.Store(m.UUID, true)
		return []*message.Message{message.NewMessage("out2", nil)}, nil
	})
	useMw2 := false
	inner := scripted.NewPub("inner")
	var beforeRead func(n int) // (decorator-overlap: the first inner call is held before it looks at its messages)
	inner.Fn = func(n int, topic string, msgs []*message.Message) error {
		if beforeRead != nil {
			beforeRead(n)
		}
		for _, m := range msgs {
			if _, twice := invoked.LoadOrStore(m.UUID, true); twice {
				r.Emit("twice", "what", "the inner publisher was handed the same message more than once")
			}
		}
		return nil
	}
	decorated, _ := d.PublisherDecorator()(inner)
	var seq int64
	var smu sync.Mutex
	present := func(g string, key string) {
		smu.Lock()
		seq++
		id := fmt.Sprintf("r%d-%d", r.ID, seq)
		smu.Unlock()
		m := message.NewMessage(id, payloadOf(key))
		m.Metadata.Set("key", key)
		a := now()
		var dup, acked bool
		if cs.Decorator {
			if err := decorated.Publish("t", m); err != nil {
				r.Emit("error", "what", err.Error())
				return
			}
			acked = scripted.SettleState(m) == "ack"
			_, fw := invoked.Load(id)
			dup = !fw
		} else {
			wrapped := mw
			if useMw2 {
				wrapped = mw2
			}
			outs, err := wrapped(m)
			if err != nil {
				r.Emit("error", "what", err.Error())
				return
			}
			dup = outs == nil
			acked = true // as middleware a dropped message is a success: (nil, nil) makes the router ack it
		}
		b := now()
		_, inv := invoked.Load(id)
		r.Emit("ret", "g", g, "key", key, "t0", a, "t1", b, "dup", dup, "invoked", inv, "acked", acked || !dup)
	}
	// several messages in ONE Publish call of the decorator: each is judged on its own, wherever it stands in the batch
	presentBatch := func(g string, keys []string) {
		var ms []*message.Message
		var ids []string
		for _, key := range keys {
			smu.Lock()
			seq++
			id := fmt.Sprintf("r%d-%d", r.ID, seq)
			smu.Unlock()
			m := message.NewMessage(id, payloadOf(key))
			m.Metadata.Set("key", key)
			ms, ids = append(ms, m), append(ids, id)
		}
		a := now()
		if err := decorated.Publish("t", ms...); err != nil {
			r.Emit("error", "what", err.Error())
			return
		}
		b := now()
		for i, key := range keys {
			_, inv := invoked.Load(ids[i])
			r.Emit("ret", "g", g, "key", key, "t0", a, "t1", b, "dup", !inv, "invoked", inv, "acked", scripted.SettleState(ms[i]) == "ack" || inv)
		}
	}
	switch {
	case cs.Class == "abandoned-delivery":
		for k := 0; k < 8; k++ {
			key := fmt.Sprintf("K%d", k)
			smu.Lock()
			seq++
			id := fmt.Sprintf("r%d-%d", r.ID, seq)
			smu.Unlock()
			m := message.NewMessage(id, payloadOf(key))
			m.Metadata.Set("key", key)
			dctx, dcancel := context.WithCancel(context.Background())
			dcancel()
			m.SetContext(dctx)
			a := now()
			var err error
			dup := false
			if cs.Decorator {
				err = decorated.Publish("t", m)
				_, fw := invoked.Load(id)
				dup = !fw
			} else {
				var outs []*message.Message
				outs, err = mw(m)
				dup = outs == nil
			}
			b := now()
			if err == nil { // (it passed all the same: judged like any other)
				_, inv := invoked.Load(id)
				r.Emit("ret", "g", "g0", "key", key, "t0", a, "t1", b, "dup", dup, "invoked", inv, "acked", true)
			}
			time.Sleep(3 * time.Millisecond)
			present("g0", key)
		}
	case cs.Class == "default-repository":
		present("g0", "X") // through the first wrapped handler
		useMw2 = true
		present("g0", "X") // through the second one
		cs.Decorator = true
		present("g0", "X") // through the publisher decorator
		present("g0", "Y")
		cs.Decorator = false
		present("g0", "Y")
		useMw2 = false
		present("g0", "Y")
	case cs.Class == "decorator-batch":
		present("g0", "A")
		presentBatch("g0", []string{"A", "B"})      // the duplicate comes first
		presentBatch("g0", []string{"B", "A"})      // nothing new at all
		presentBatch("g0", []string{"C", "A", "D"}) // a duplicate in the middle
		presentBatch("g0", []string{"E", "E"})      // twice in one batch
	case cs.Class == "decorator-overlap":
		// two Publish calls through one decorator are in flight at once: the first is held inside the inner publisher
		// while the second runs to completion; each inner call must still see its own message
		for k := 0; k < cs.Keys; k++ {
			entered, gate := make(chan struct{}, 1), make(chan struct{})
			held := false
			var hmu sync.Mutex
			beforeRead = func(int) {
				hmu.Lock()
				first := !held
				held = true
				hmu.Unlock()
				if first {
					entered <- struct{}{}
					<-gate
				}
			}
			done := make(chan struct{})
			go func() { defer close(done); present("g1", fmt.Sprintf("oa%d", k)) }()
			select {
			case <-entered:
				present("g2", fmt.Sprintf("ob%d", k))
			case <-time.After(HangBound):
				r.Emit("hung", "what", "inner publisher not reached")
			}
			close(gate)
			<-done
		}
	case cs.Class == "sweep-gap":
		for i := 0; i < cs.Junk; i++ {
			_, _ = repo.IsDuplicate(context.Background(), fmt.Sprintf("junk-%d", i))
		}
		present("g0", "p")
		// the clean-up ticker fires every half window after the repository was made; p stays remembered for a whole one
		half := cs.Window / 2
		tick := created.Add(half * (time.Since(created)/half + 1))
		time.Sleep(time.Until(tick.Add(-3 * time.Millisecond)))
		var wg sync.WaitGroup
		for g := 0; g < cs.Goroutines; g++ {
			wg.Add(1)
			go func(g int) {
				defer wg.Done()
				for time.Now().Before(tick.Add(15 * time.Millisecond)) {
					present(fmt.Sprintf("g%d", g+1), "p")
					for t := time.Now(); time.Since(t) < 120*time.Microsecond; {
					}
				}
			}(g)
		}
		wg.Wait()
	case cs.Class == "refresh":
		// one key presented again and again, faster than the window, for much longer than the window:
		// it has to be let through again once its window is over (sightings of duplicates do not prolong it)
		stop := time.Now().Add(cs.Window*3/2 + 600*time.Millisecond)
		for time.Now().Before(stop) {
			present("g0", "same")
			time.Sleep(cs.Window / 12)
		}
	case cs.EdgeTrials > 0:
		for i := 0; i < cs.EdgeTrials; i++ {
			key := fmt.Sprintf("e%d", i)
			start := time.Now()
			present("g0", key)
			// again shortly before the window (measured from before the first call) ends
			target := start.Add(cs.Window - time.Duration(60+rng.Intn(500))*time.Microsecond)
			for time.Now().Before(target) {
			}
			present("g0", key)
		}
	case cs.Rounds == 0: // barrier
		for k := 0; k < cs.Keys; k++ {
			key := fmt.Sprintf("b%d", k)
			var wg sync.WaitGroup
			start := make(chan struct{})
			for g := 0; g < cs.Goroutines; g++ {
				wg.Add(1)
				go func(g int) {
					defer wg.Done()
					<-start
					present(fmt.Sprintf("g%d", g), key)
				}(g)
			}
			close(start)
			wg.Wait()
			r.Emit("end") // keys are fresh per barrier: judge each barrier on its own
		}
	default:
		var wg sync.WaitGroup
		for g := 0; g < cs.Goroutines; g++ {
			wg.Add(1)
			lr := rand.New(rand.NewSource(rng.Int63()))
			go func(g int) {
				defer wg.Done()
				for round := 0; round < cs.Rounds; round++ {
					for k := 0; k < 3; k++ {
						present(fmt.Sprintf("g%d", g), fmt.Sprintf("k%d", lr.Intn(cs.Keys)))
						if lr.Intn(3) == 0 {
							time.Sleep(time.Duration(lr.Intn(int(cs.Window/4))) * time.Nanosecond)
						}
					}
					// sometimes long enough for the keys to be forgotten for sure
					if lr.Intn(2) == 0 {
						time.Sleep(cs.Window*3/2 + 400*time.Millisecond)
					} else {
						time.Sleep(cs.Window / 3)
					}
				}
			}(g)
		}
		wg.Wait()
	}
	r.Emit("end")
	r.NonTrivial = true
}

func c14Hashers(r *tr.Run, rng *rand.Rand, n int) int {
	type hs struct {
		name  string
		limit int64
		eff   int
		f     middleware.MessageHasher
	}
	var hashers []hs
	for _, lim := range []int64{1, 64, 100} {
		eff := int(lim)
		if eff < 64 {
			eff = 64
		}
		hashers = append(hashers, hs{"adler32", lim, eff, middleware.NewMessageHasherAdler32(lim)}, hs{"sha256", lim, eff, middleware.NewMessageHasherSHA256(lim)})
	}
	count := 0
	for _, h := range hashers {
		// messages without a payload (nil or empty) are equal up to any limit, whatever their UUIDs
		for _, pr := range [][2][]byte{{nil, nil}, {nil, {}}, {{}, {}}, {nil, []byte("x")}} {
			ka, e1 := h.f(message.NewMessage("uuid-one", pr[0]))
			kb, e2 := h.f(message.NewMessage("uuid-two", pr[1]))
			if e1 != nil || e2 != nil {
				r.Emit("error", "what", "hasher error")
				continue
			}
			r.Emit("hash", "hasher", h.name, "limit", h.limit, "equalprefix", bytes.Equal(pr[0], pr[1]), "samekey", ka == kb, "la", len(pr[0]), "lb", len(pr[1]))
			count++
		}
	}
	for i := 0; i < n; i++ {
		h := hashers[i%len(hashers)]
		la := h.eff - 6 + rng.Intn(13)
		a := make([]byte, la)
		rng.Read(a)
		var b []byte
		switch rng.Intn(5) {
		case 0: // identical
			b = append([]byte{}, a...)
		case 1: // differs at a position around the limit
			b = append([]byte{}, a...)
			if len(b) > 0 {
				p := rng.Intn(len(b))
				b[p] ^= byte(1 + rng.Intn(255))
			}
		case 2: // same prefix, longer tail
			b = append(append([]byte{}, a...), byte(rng.Intn(256)), byte(rng.Intn(256)))
		case 3: // shorter
			if len(a) > 2 {
				b = append([]byte{}, a[:len(a)-1-rng.Intn(2)]...)
			}
		default:
			b = make([]byte, h.eff-6+rng.Intn(13))
			rng.Read(b)
		}
		pa, pb := a, b
		if len(pa) > h.eff {
			pa = pa[:h.eff]
		}
		if len(pb) > h.eff {
			pb = pb[:h.eff]
		}
		ka, e1 := h.f(message.NewMessage("a", a))
		kb, e2 := h.f(message.NewMessage("b", b))
		if e1 != nil || e2 != nil {
			r.Emit("error", "what", "hasher error")
			continue
		}
		r.Emit("hash", "hasher", h.name, "limit", h.limit, "equalprefix", bytes.Equal(pa, pb), "samekey", ka == kb, "la", len(a), "lb", len(b))
		count++
	}
	return count
}
