package props

import (
	"context"
	"fmt"
	"math/rand"
	"strings"
	"sync"
	"time"

	"github.com/ThreeDotsLabs/watermill/message"

	"wmverif/scripted"
	"wmverif/tr"
)

func init() { Registry["C08"] = runC08 }

// the second topic differs from the first only by white space around its name: topic names are taken literally
var c08FarFuture = time.Now().Add(100 * time.Hour)

const c08T2 = " t1\t"

type c08CancelKey struct{}
type c08OutKey struct{}

// c08PassPub is a publisher decorator that does nothing (its type name is not the name of the handler's publisher).
// It looks at what passes: the outputs carry the handler's context values already when they reach the decorators.
type c08PassPub struct {
	message.Publisher
	see func(msgs []*message.Message)
}

func (p c08PassPub) Publish(topic string, msgs ...*message.Message) error {
	if p.see != nil {
		p.see(msgs)
	}
	return p.Publisher.Publish(topic, msgs...)
}

type c08Handler struct {
	Name   string
	Sub    string
	STopic string
	HasPub bool
	Pub    string
	PTopic string
}

// output shape of the handler function for one message
//
//	none | one | two | self (returns the consumed message) | twice (one fresh object twice) | err (error with a message) | mw (no-publisher handler: middleware adds an output)
//	nouuid (a second output whose UUID is empty)
var c08Shapes = []string{"none", "one", "two", "self", "twice", "err", "earlyack", "nouuid"}

func c08Options() []c08Handler {
	var opts []c08Handler
	for _, s := range []string{"sA", "sB"} {
		for _, st := range []string{"t1", c08T2} {
			opts = append(opts, c08Handler{Sub: s, STopic: st, HasPub: false})
			for _, p := range []string{"pA", "pB"} {
				for _, pt := range []string{"t1", c08T2, ""} { // "" is a topic like any other
					opts = append(opts, c08Handler{Sub: s, STopic: st, HasPub: true, Pub: p, PTopic: pt})
				}
			}
		}
	}
	return opts
}

func runC08(c *Ctx) error {
	T := c.Trace("RouterRoutingTrace")
	opts := c08Options()
	var cfgs [][]c08Handler
	// exhaustive: 1 and 2 handlers; thorough: 3 handlers sampled densely
	for _, a := range opts {
		cfgs = append(cfgs, []c08Handler{a})
	}
	for _, a := range opts {
		for _, b := range opts {
			cfgs = append(cfgs, []c08Handler{a, b})
		}
	}
	nex := len(cfgs)
	nrand := c.Pick(150, 20000)
	for i := 0; i < nrand; i++ {
		n := 3 + c.Rng.Intn(4)
		var hs []c08Handler
		for k := 0; k < n; k++ {
			hs = append(hs, opts[c.Rng.Intn(len(opts))])
		}
		cfgs = append(cfgs, hs)
	}
	runs := make([]*tr.Run, len(cfgs))
	for i := range cfgs {
		hm := map[string]any{}
		for k := range cfgs[i] {
			h := &cfgs[i][k]
			h.Name = fmt.Sprintf("h%d", k+1)
			if k == 0 && i%3 == 1 {
				h.Name = "" // a name like any other
			}
			pubname, pub, pt := "message.disabledPublisher", "", ""
			if h.HasPub {
				pubname, pub, pt = h.Pub, h.Pub, h.PTopic
			}
			hm[h.Name] = map[string]any{"sub": h.Sub, "stopic": h.STopic, "pub": pub, "ptopic": pt, "haspub": h.HasPub, "subname": h.Sub, "pubname": pubname}
		}
		cls := fmt.Sprintf("handlers%d", len(cfgs[i]))
		runs[i] = T.NewRun(cls, map[string]any{"handlers": hm})
		runs[i].Key = fmt.Sprintf("%v", cfgs[i])
	}
	Parallel(len(cfgs), func(i int) { c08Run(runs[i], cfgs[i], c.SubRng(i)) })
	c.AddStat("exhaustive_configs", nex)
	c.AddStat("random_configs", nrand)
	return nil
}

func c08Run(r *tr.Run, hs []c08Handler, rng *rand.Rand) {
	router, _ := message.NewRouter(message.RouterConfig{CloseTimeout: 5 * time.Second}, nil)
	prefix := fmt.Sprintf("r%d-", r.ID)
	subs := map[string]*scripted.Sub{"sA": scripted.NewSub("sA"), "sB": scripted.NewSub("sB")}
	pubs := map[string]*scripted.Pub{"pA": scripted.NewPub("pA"), "pB": scripted.NewPub("pB")}
	var mu sync.Mutex
	decSeen := map[*message.Message][]string{}               // context values of an output as the publisher decorator saw them
	var published []*message.Message                         // fresh output objects that went through a publisher (they carry a handler context)
	shared := message.NewMessage("shared", []byte("shared")) // one object returned by several handlers one after the other
	shape := map[string]string{}
	pre := map[string]string{}               // messages that arrive settled
	chainDone := map[string]chan struct{}{} // ... for those the harness waits for the chain itself (their settlement says nothing about it)
	consumed := map[string]*message.Message{}
	returned := map[string][]*message.Message{}
	snap := map[*message.Message]string{}
	snapshot := func(m *message.Message) string {
		return fmt.Sprintf("%s|%s|%v", m.UUID, string(m.Payload), map[string]string(m.Metadata))
	}
	mid := func(uuid string) string { return strings.TrimPrefix(uuid, prefix) }
	ctxOf := func(ctx context.Context) []string {
		return []string{message.HandlerNameFromCtx(ctx), message.SubscribeTopicFromCtx(ctx), message.PublishTopicFromCtx(ctx),
			message.SubscriberNameFromCtx(ctx), message.PublisherNameFromCtx(ctx)}
	}
	outID := func(cu string, o *message.Message) string {
		if o.UUID == cu {
			return "self"
		}
		return strings.TrimPrefix(o.UUID, cu+".")
	}
	for name, p := range pubs {
		name := name
		p.Fn = func(n int, topic string, msgs []*message.Message) error {
			if len(msgs) == 0 {
				r.Emit("pcall-empty")
				return nil
			}
			u := msgs[0].UUID
			cu := u
			if i := strings.LastIndex(u, "."); i >= 0 {
				cu = u[:i]
			}
			m := mid(cu)
			ids := []string{}
			octx := [][]string{}
			for _, o := range msgs {
				ids = append(ids, outID(cu, o))
				octx = append(octx, ctxOf(o.Context()))
			}
			mu.Lock()
			want := returned[m]
			intact := len(want) == len(msgs)
			for i := range msgs {
				if !intact {
					break
				}
				if want[i] != msgs[i] || snap[msgs[i]] != snapshot(msgs[i]) {
					intact = false
				}
				if seen, ok := decSeen[msgs[i]]; ok && fmt.Sprint(seen) != fmt.Sprint(ctxOf(msgs[i].Context())) {
					intact = false // the decorators in front of the publisher saw other handler values than the publisher
				}
				delete(decSeen, msgs[i])
				// a fresh output still carries the context the handler gave it (underneath what the router added)
				if v := msgs[i].Context().Value(c08OutKey{}); strings.Contains(msgs[i].UUID, ".o") && msgs[i] != shared && v != msgs[i].UUID {
					intact = false
				}
				if dl, has := msgs[i].Context().Deadline(); strings.Contains(msgs[i].UUID, ".o") && msgs[i] != shared && string(msgs[i].Payload) == "p" && !(has && dl.Equal(c08FarFuture)) {
					intact = false // ... and its deadline
				}
			}
			cm := consumed[m]
			for _, o := range msgs {
				if o != cm && o != shared {
					published = append(published, o)
				}
			}
			mu.Unlock()
			r.Emit("pcall", "m", m, "pub", name, "topic", topic, "outs", ids, "sample", scripted.SettleState(cm), "intact", intact, "octx", octx)
			r.Emit("pret", "m", m, "outcome", "accept", "sample", scripted.SettleState(cm))
			return nil
		}
	}
	mkHandler := func(h c08Handler) message.HandlerFunc {
		return func(msg *message.Message) ([]*message.Message, error) {
			m := mid(msg.UUID)
			r.Emit("hstart", "m", m, "h", h.Name, "ctx", ctxOf(msg.Context()))
			mu.Lock()
			sh := shape[m]
			mu.Unlock()
			var outs []*message.Message
			var err error
			fresh := func(k int) *message.Message {
				o := message.NewMessage(fmt.Sprintf("%s.o%d", msg.UUID, k), []byte("p"))
				o.Metadata.Set("k", fmt.Sprint(k))
				// every output travels with a context of its own, which the application gave it
				octx, _ := context.WithDeadline(context.WithValue(context.Background(), c08OutKey{}, o.UUID), c08FarFuture) // (... with a deadline of its own)
				o.SetContext(octx)
				return o
			}
			switch sh {
			case "one":
				outs = []*message.Message{fresh(1)}
			case "two":
				outs = []*message.Message{fresh(1), fresh(2)}
			case "self":
				outs = []*message.Message{msg}
			case "twice":
				o := fresh(1)
				outs = []*message.Message{o, o}
			case "nouuid":
				// the second output has no UUID (the application leaves that to its broker): it is handed over as it is
				o := message.NewMessage("", []byte("p"))
				outs = []*message.Message{fresh(1), o}
			case "err":
				outs = []*message.Message{fresh(1)}
				err = errScripted
			case "earlyack":
				// the handler settles the message itself -- the subscriber ends the delivery's context at once, as GoChannel does -- and still returns an output
				r.Emit("hself", "m", m, "kind", "ack")
				msg.Ack()
				if c, ok := msg.Context().Value(c08CancelKey{}).(context.CancelFunc); ok {
					c()
				}
				outs = []*message.Message{fresh(1)}
			case "shared":
				shared.UUID = msg.UUID + ".o1"
				outs = []*message.Message{shared}
			}
			if !h.HasPub && sh != "mw" && sh != "err" {
				outs = nil
			}
			return outs, err
		}
	}
	// outermost recorder middleware (router level) logs the chain result; for no-publisher handlers
	// a middleware may add an output ("mw" shape)
	router.AddMiddleware(func(next message.HandlerFunc) message.HandlerFunc {
		return func(msg *message.Message) (outs []*message.Message, err error) {
			m := mid(msg.UUID)
			outs, err = next(msg)
			mu.Lock()
			if shape[m] == "mw" && err == nil {
				o := message.NewMessage(msg.UUID+".o1", []byte("mw"))
				o.SetContext(context.WithValue(context.Background(), c08OutKey{}, o.UUID))
				outs = append(outs, o)
			}
			returned[m] = outs
			for _, o := range outs {
				snap[o] = snapshot(o)
			}
			mu.Unlock()
			ids := []string{}
			for _, o := range outs {
				ids = append(ids, outID(msg.UUID, o))
			}
			end := "ok"
			if err != nil {
				end = "err"
			}
			r.Emit("hend", "m", m, "end", end, "outs", ids)
			mu.Lock()
			if ch := chainDone[m]; ch != nil {
				close(ch)
				delete(chainDone, m)
			}
			mu.Unlock()
			return outs, err
		}
	})
	if r.ID%2 == 0 {
		// publisher decorators in front of every handler's publisher: the names in the context are still those of the publisher
		// the handler was registered with
		router.AddPublisherDecorators(func(p message.Publisher) (message.Publisher, error) {
			return c08PassPub{p, func(msgs []*message.Message) {
				mu.Lock()
				defer mu.Unlock()
				for _, o := range msgs {
					decSeen[o] = ctxOf(o.Context())
				}
			}}, nil
		})
	}
	for _, h := range hs {
		var handle *message.Handler
		if h.HasPub {
			handle = router.AddHandler(h.Name, h.STopic, subs[h.Sub], h.PTopic, pubs[h.Pub], mkHandler(h))
		} else {
			f := mkHandler(h)
			handle = router.AddNoPublisherHandler(h.Name, h.STopic, subs[h.Sub], func(msg *message.Message) error { _, err := f(msg); return err })
		}
		// the handler's own middleware: part of this handler's chain and of no other
		name := h.Name
		handle.AddMiddleware(func(next message.HandlerFunc) message.HandlerFunc {
			return func(msg *message.Message) ([]*message.Message, error) {
				outs, err := next(msg)
				r.Emit("hmw", "m", mid(msg.UUID), "h", name)
				return outs, err
			}
		})
	}
	ctx, cancel := context.WithCancel(context.Background())
	defer cancel()
	runDone := make(chan struct{})
	go func() { defer close(runDone); _ = router.Run(ctx) }()
	select {
	case <-router.Running():
	case <-time.After(HangBound):
		r.Emit("hung", "what", "router did not start")
		return
	}
	for _, h := range hs {
		if len(subs[h.Sub].Subs(h.STopic)) == 0 {
			r.Emit("hung", "what", "no subscription under the handler's subscribe topic", "h", h.Name, "topic", h.STopic)
			return
		}
	}
	// one or two messages per subscription, emitted concurrently across subscriptions
	type em struct {
		m       string
		sub     string
		topic   string
		sp      string
		spo     *scripted.Subscription
		settled chan struct{}
	}
	var ems []em
	k := 0
	for _, sn := range []string{"sA", "sB"} {
		for _, tp := range []string{"t1", c08T2} {
			for idx, spo := range subs[sn].Subs(tp) {
				n := 1
				if len(hs) <= 3 {
					n = 2
				}
				for j := 0; j < n && k < 9; j++ {
					k++
					m := fmt.Sprintf("m%d", k)
					sh := c08Shapes[rng.Intn(len(c08Shapes))]
					if rng.Intn(5) == 0 {
						sh = "mw"
					}
					shape[m] = sh
					if rng.Intn(6) == 0 && sh != "earlyack" {
						pre[m] = []string{"ack", "nack"}[rng.Intn(2)]
						chainDone[m] = make(chan struct{})
					}
					consumed[m] = message.NewMessage(prefix+m, []byte("in"))
					{
						// the delivery's context can be ended by whoever settles the message (the "earlyack" handlers do)
						holder := &struct{ cancel context.CancelFunc }{}
						base := context.WithValue(context.Background(), c08CancelKey{}, context.CancelFunc(func() { holder.cancel() }))
						mctx, mcancel := context.WithCancel(base)
						holder.cancel = mcancel
						consumed[m].SetContext(mctx)
					}
					ems = append(ems, em{m, sn, tp, fmt.Sprintf("%s/%s/%d", sn, tp, idx), spo, make(chan struct{})})
				}
			}
		}
	}
	var wg sync.WaitGroup
	bySp := map[string][]em{}
	order := []string{}
	for _, e := range ems {
		if _, ok := bySp[e.sp]; !ok {
			order = append(order, e.sp)
		}
		bySp[e.sp] = append(bySp[e.sp], e)
	}
	for _, sp := range order {
		wg.Add(1)
		go func(list []em) {
			defer wg.Done()
			for _, e := range list {
				msg := consumed[e.m]
				if k := pre[e.m]; k != "" {
					// whoever shares the message with the source settled it already: it is routed like any other
					r.Emit("preset", "m", e.m, "kind", k)
					if k == "ack" {
						msg.Ack()
					} else {
						msg.Nack()
					}
				}
				go func(e em) {
					select {
					case <-msg.Acked():
						r.Emit("settled", "m", e.m, "kind", "ack")
					case <-msg.Nacked():
						r.Emit("settled", "m", e.m, "kind", "nack")
					}
					close(e.settled)
				}(e)
				r.Emit("emit", "m", e.m, "sub", e.sub, "topic", e.topic, "sp", e.sp)
				if !e.spo.Send(msg) {
					r.Emit("hung", "what", "subscription closed")
					return
				}
			}
		}(bySp[sp])
	}
	wg.Wait()
	for _, e := range ems {
		mu.Lock()
		cd := chainDone[e.m]
		mu.Unlock()
		if pre[e.m] != "" && cd != nil {
			// (settled before it was handed over: wait until its chain has run, and a moment more for the publish)
			if !WaitOrHang(cd) {
				r.Emit("hung", "what", "a message that arrived settled was never handled", "m", e.m)
				return
			}
			time.Sleep(2 * time.Millisecond)
		}
		if !WaitOrHang(e.settled) {
			r.Emit("hung", "what", "never settled", "m", e.m)
			return
		}
	}
	// phase 2: the same message object is returned by two different handlers one after the other;
	// phase 3: a message object that was produced by one handler (and carries its context) arrives at another handler
	seq := func(m, sh string, sp string, msg *message.Message) bool {
		e := bySp[sp][0]
		mu.Lock()
		shape[m] = sh
		consumed[m] = msg
		mu.Unlock()
		ch := make(chan struct{})
		go func() {
			select {
			case <-msg.Acked():
				r.Emit("settled", "m", m, "kind", "ack")
			case <-msg.Nacked():
				r.Emit("settled", "m", m, "kind", "nack")
			}
			close(ch)
		}()
		r.Emit("emit", "m", m, "sub", e.sub, "topic", e.topic, "sp", sp)
		if !e.spo.Send(msg) {
			r.Emit("hung", "what", "subscription closed")
			return false
		}
		ems = append(ems, em{m, e.sub, e.topic, sp, e.spo, ch})
		return WaitOrHang(ch)
	}
	if len(order) >= 1 {
		a, b := order[0], order[len(order)-1]
		if !seq("m10", "shared", a, message.NewMessage(prefix+"m10", []byte("in"))) || !seq("m11", "shared", b, message.NewMessage(prefix+"m11", []byte("in"))) {
			r.Emit("hung", "what", "phase 2")
			return
		}
		mu.Lock()
		var carried *message.Message
		if len(published) > 0 {
			carried = published[rng.Intn(len(published))]
		}
		mu.Unlock()
		if carried != nil {
			in := carried.Copy()
			in.UUID = prefix + "m12"
			in.SetContext(carried.Context()) // same context chain as the produced message
			if !seq("m12", "one", order[rng.Intn(len(order))], in) {
				r.Emit("hung", "what", "phase 3")
				return
			}
		}
	}
	closed := make(chan struct{})
	go func() { defer close(closed); _ = router.Close() }()
	if !WaitOrHang(closed) || !WaitOrHang(runDone) {
		r.Emit("hung", "what", "router close")
		return
	}
	final := [][]string{}
	for _, e := range ems {
		final = append(final, []string{e.m, scripted.SettleState(consumed[e.m])})
	}
	r.Emit("quiesce", "final", final)
	r.NonTrivial = len(hs) > 1
}
