package props

import (
	"context"
	"fmt"
	"sync"
	"time"

	"github.com/ThreeDotsLabs/watermill/components/fanin"
	"github.com/ThreeDotsLabs/watermill/components/forwarder"
	"github.com/ThreeDotsLabs/watermill/components/requeuer"
	"github.com/ThreeDotsLabs/watermill/message"
	"github.com/ThreeDotsLabs/watermill/pubsub/gochannel"

	"wmverif/scripted"
	"wmverif/tr"
)

func init() { Registry["C17"] = runC17 }

type c17Msg struct {
	UUID    string
	Payload string
	Meta    map[string]string
	Env     string // forwarder: valid | notjson | emptydest | batch (published through the Forwarder Publisher in one batch call)
	Dest    string
	Topic   string // source topic (fan-in)
}

type c17Case struct {
	Comp       string // forwarder | fanin | fanout | requeuer
	AckInvalid bool
	Msgs       []c17Msg
	Fail       map[int]bool // destination call numbers (1-based) that fail
	Delay      time.Duration
	CancelAt   int  // requeuer: cancel the context of the k-th delivery during the delay (0: never)
	Defaults   bool // forwarder: default topic on both sides and a Router provided by the caller
	Overlap    bool // the first two deliveries (same source topic) are in flight together; the destination looks at what it was given for the first only once the second has arrived
}

func c17Metas() []map[string]string {
	return []map[string]string{
		{},
		{"k": "v", "empty": ""},
		{"k": "é世 \"q\" <&>", requeuer.RetriesKey: "3"},
		{requeuer.RetriesKey: "x"},
		{requeuer.RetriesKey: "0", "a": "b"},
		{requeuer.RetriesKey: "9223372036854775808", "big": "1"}, // not a counter the Requeuer can read: it starts again at 1
	}
}

func runC17(c *Ctx) error {
	T := c.Trace("RelayTrace")
	var cases []c17Case
	metas := c17Metas()
	fails := []map[int]bool{{}, {1: true}, {2: true}, {1: true, 2: true}, {1: true, 3: true}}
	for _, comp := range []string{"forwarder", "fanin", "requeuer", "fanout"} {
		for fi, f := range fails {
			if comp == "fanout" && fi > 0 {
				continue
			}
			for _, ack := range []bool{false, true} {
				if comp != "forwarder" && ack {
					continue
				}
				cs := c17Case{Comp: comp, AckInvalid: ack, Fail: f}
				for i := 0; i < 3; i++ {
					m := c17Msg{UUID: fmt.Sprintf("u%d é", i), Payload: fmt.Sprintf("payload-%d \x00\xff", i), Meta: metas[(i+fi)%len(metas)], Env: "valid", Dest: fmt.Sprintf("dest-%d", i%2), Topic: fmt.Sprintf("src%d", i%2)}
					if comp == "forwarder" {
						m.Env = []string{"valid", "batch", "batch"}[i]
					}
					cs.Msgs = append(cs.Msgs, m)
				}
				if comp == "forwarder" {
					cs.Msgs = append(cs.Msgs, c17Msg{UUID: "bad1", Payload: "not json at all", Meta: metas[1], Env: "notjson"},
						c17Msg{UUID: "bad2", Payload: `{"destination_topic":"","uuid":"x","payload":"cGF5","metadata":{}}`, Meta: metas[0], Env: "emptydest"},
						c17Msg{UUID: "bad3", Payload: "p3", Meta: metas[1], Env: "trailing"},
						c17Msg{UUID: "bad4", Payload: "p4", Meta: metas[0], Env: "double"},
						c17Msg{UUID: "u-last", Payload: "p", Meta: metas[2], Env: "valid", Dest: "dest-9"},
						// well-formed JSON that is no envelope (somebody else's event on the forwarder topic), right after a valid envelope
						c17Msg{UUID: "bad5", Payload: `{}`, Meta: metas[1], Env: "plainjson"},
						c17Msg{UUID: "u-mid1", Payload: "p", Meta: metas[2], Env: "valid", Dest: "dest-8"},
						c17Msg{UUID: "bad6", Payload: `null`, Meta: metas[0], Env: "plainjson"},
						c17Msg{UUID: "u-mid2", Payload: "p", Meta: metas[1], Env: "valid", Dest: "dest-7"},
						c17Msg{UUID: "bad7", Payload: `{"event":"OrderPlaced","n":1}`, Meta: metas[2], Env: "plainjson"},
						// a destination that has the same NAME as the forwarder topic (another broker, a second forwarder behind this one) is a destination
						c17Msg{UUID: "u-samename", Payload: "p", Meta: metas[1], Env: "valid", Dest: "<fwd>"},
						c17Msg{UUID: "u-nested", Payload: "p-nested", Meta: metas[1], Env: "nested", Dest: "dest-outer"},
						// a message without any payload is no envelope either
						c17Msg{UUID: "bad8", Payload: "", Meta: metas[1], Env: "plainjson"},
						c17Msg{UUID: "u-mid3", Payload: "p", Meta: metas[0], Env: "valid", Dest: "dest-6"},
						// control characters (the ones JSON has no short escape for) in the UUID, the metadata and the destination
						c17Msg{UUID: "u-ctl \x1f\a\x7f", Payload: "p\x00", Meta: map[string]string{"k\x1f": "v\x00\v\x7f"}, Env: "valid", Dest: "dest-\x1f"})
				}
				cases = append(cases, cs)
				if comp == "forwarder" && fi < 2 {
					cd := cs
					cd.Defaults = true
					cases = append(cases, cd)
				}
			}
		}
	}
	// two deliveries of one source topic in flight at the same time (a source that does not wait for the settlement of the previous message)
	for _, comp := range []string{"fanin", "forwarder", "requeuer"} {
		for _, f := range []map[int]bool{{}, {1: true}} {
			cs := c17Case{Comp: comp, Fail: f, Overlap: true}
			for i := 0; i < 3; i++ {
				cs.Msgs = append(cs.Msgs, c17Msg{UUID: fmt.Sprintf("ov%d", i), Payload: fmt.Sprintf("payload-%d", i), Meta: metas[i%2], Env: "valid", Dest: fmt.Sprintf("dest-%d", i), Topic: "src0"})
			}
			cases = append(cases, cs)
		}
	}
	// requeuer with a delay whose message context ends while it waits: nothing published => Nack
	cases = append(cases, c17Case{Comp: "requeuer", Delay: 150 * time.Millisecond, CancelAt: 1, Fail: map[int]bool{},
		Msgs: []c17Msg{{UUID: "d1", Payload: "p", Meta: metas[2], Env: "valid", Dest: "dest-0", Topic: "src0"}}})
	runs := make([]*tr.Run, len(cases))
	for i, cs := range cases {
		runs[i] = T.NewRun(cs.Comp, map[string]any{"comp": cs.Comp, "ackinvalid": cs.AckInvalid})
		runs[i].Key = fmt.Sprintf("%+v", cs)
	}
	Parallel(len(cases), func(i int) { c17Run(runs[i], cases[i]) })
	c.AddStat("cases", len(cases))
	return nil
}

func c17Run(r *tr.Run, cs c17Case) {
	src := scripted.NewSub("source")
	dest := scripted.NewPub("dest")
	var mu sync.Mutex
	current := map[string]*message.Message{} // logical id -> consumed copy of the running attempt
	idOf := map[string]string{}              // uuid of the relayed message -> logical id
	curDel, curUUID := "", ""                // the delivery in progress (deliveries are made one at a time)
	ovCalls, ovSecond := 0, make(chan struct{})
	dest.Fn = func(n int, topic string, msgs []*message.Message) error {
		if cs.Overlap {
			mu.Lock()
			ovCalls++
			k := ovCalls
			mu.Unlock()
			if k == 1 {
				<-waitOr(ovSecond, 300*time.Millisecond)
				time.Sleep(2 * time.Millisecond)
			} else if k == 2 {
				close(ovSecond)
			}
		}
		oc := "accept"
		if cs.Fail[n] {
			oc = "error"
		}
		for _, m := range msgs {
			mu.Lock()
			id := idOf[m.UUID]
			if curDel != "" && curUUID == m.UUID {
				id = curDel // (the same message may be relayed in more than one delivery)
			}
			cm := current[id]
			mu.Unlock()
			sample := "unknown"
			if cm != nil {
				sample = scripted.SettleState(cm)
			}
			r.Emit("dcall", "m", id, "topic", topic, "uuid", m.UUID, "payload", string(m.Payload), "meta", map[string]string(m.Metadata), "outcome", oc, "sample", sample)
		}
		if oc == "error" {
			return errScripted
		}
		return nil
	}
	ctx, cancel := context.WithCancel(context.Background())
	defer cancel()
	var run func(context.Context) error
	var running func() chan struct{}
	var closeFn func() error
	fanSubs := 0
	var fo *gochannel.FanOut
	switch cs.Comp {
	case "forwarder":
		fcfg := forwarder.Config{ForwarderTopic: "fwd", AckWhenCannotUnwrap: cs.AckInvalid, CloseTimeout: 2 * time.Second}
		if cs.Defaults {
			ownRouter, rerr := message.NewRouter(message.RouterConfig{CloseTimeout: 2 * time.Second}, nil)
			if rerr != nil {
				r.Emit("error", "what", rerr.Error())
				return
			}
			fcfg = forwarder.Config{AckWhenCannotUnwrap: cs.AckInvalid, Router: ownRouter} // ForwarderTopic left to its default
		}
		f, err := forwarder.NewForwarder(src, dest, nil, fcfg)
		if err != nil {
			r.Emit("error", "what", err.Error())
			return
		}
		run, running, closeFn = f.Run, f.Running, f.Close
	case "fanin":
		f, err := fanin.NewFanIn(src, dest, fanin.Config{SourceTopics: []string{"src0", "src1"}, TargetTopic: "target", CloseTimeout: 2 * time.Second}, nil)
		if err != nil {
			r.Emit("error", "what", err.Error())
			return
		}
		run, running, closeFn = f.Run, f.Running, f.Close
	case "requeuer":
		router, _ := message.NewRouter(message.RouterConfig{CloseTimeout: 2 * time.Second}, nil)
		q, err := requeuer.NewRequeuer(requeuer.Config{Subscriber: src, SubscribeTopic: "poison", Publisher: dest, Router: router, Delay: cs.Delay,
			GeneratePublishTopic: func(p requeuer.GeneratePublishTopicParams) (string, error) {
				return "dest-" + p.Message.Metadata.Get("route"), nil
			}}, nil)
		if err != nil {
			r.Emit("error", "what", err.Error())
			return
		}
		run, running, closeFn = q.Run, router.Running, router.Close
	case "fanout":
		var err error
		fo, err = gochannel.NewFanOut(src, nil)
		if err != nil {
			r.Emit("error", "what", err.Error())
			return
		}
		fo.AddSubscription("src0")
		fo.AddSubscription("src1")
		fo.AddSubscription("src0") // idempotent
		run, running, closeFn = fo.Run, fo.Running, fo.Close
		fanSubs = 2
	}
	go func() { _ = run(ctx) }()
	select {
	case <-running():
	case <-time.After(HangBound):
		r.Emit("hung", "what", "component start")
		return
	}
	var fanWg sync.WaitGroup
	var fanGot sync.Map
	if fo != nil {
		for s := 1; s <= fanSubs; s++ {
			for _, tp := range []string{"src0", "src1"} {
				ch, err := fo.Subscribe(ctx, tp)
				if err != nil {
					r.Emit("error", "what", err.Error())
					return
				}
				fanWg.Add(1)
				go func(s int, ch <-chan *message.Message) {
					defer fanWg.Done()
					for m := range ch {
						mu.Lock()
						id := idOf[m.UUID]
						mu.Unlock()
						r.Emit("drecv", "m", id, "sub", s, "uuid", m.UUID, "payload", string(m.Payload), "meta", map[string]string(m.Metadata))
						fanGot.Store(fmt.Sprintf("%s/%d", id, s), true)
						m.Ack()
					}
				}(s, ch)
			}
		}
	}
	// build what the source delivers
	type delivery struct {
		id    string
		topic string
		mk    func() *message.Message
		rec   map[string]any
		valid bool
	}
	var dels []delivery
	var batch []*message.Message
	var batchIdx []int
	fwdCapture := scripted.NewPub("capture")
	fwdTopic := "fwd"
	fwdPub := forwarder.NewPublisher(fwdCapture, forwarder.PublisherConfig{ForwarderTopic: "fwd"})
	if cs.Defaults {
		fwdPub = forwarder.NewPublisher(fwdCapture, forwarder.PublisherConfig{})
		fwdTopic = "forwarder_topic" // the documented default
	}
	for i, m := range cs.Msgs {
		i, m := i, m
		if m.Dest == "<fwd>" {
			m.Dest = fwdTopic
		}
		id := fmt.Sprintf("m%d", i+1)
		orig := message.NewMessage(m.UUID, []byte(m.Payload))
		for k, v := range m.Meta {
			orig.Metadata.Set(k, v)
		}
		if cs.Comp == "requeuer" {
			orig.Metadata.Set("route", fmt.Sprint(i%2))
		}
		meta := map[string]string{}
		for k, v := range orig.Metadata {
			meta[k] = v
		}
		d := delivery{id: id, valid: true}
		switch cs.Comp {
		case "forwarder":
			d.topic = fwdTopic
			switch m.Env {
			case "valid":
				before := len(fwdCapture.Calls())
				if err := fwdPub.Publish(m.Dest, orig); err != nil {
					r.Emit("error", "what", err.Error())
					return
				}
				env := fwdCapture.Calls()[before].Msgs[0]
				d.topic = fwdCapture.Calls()[before].Topic // (the topic the forwarder's Publisher really used)
				if i%2 == 1 {
					// metadata that the envelope message picked up on its way (outbox decorators, broker keys) is not the relayed message's
					env.Metadata.Set("correlation_id", "the-envelope's-own")
					env.Metadata.Set("trace-id", "added-on-the-way")
				}
				d.mk = func() *message.Message { return env.Copy() }
			case "nested":
				// the message handed to the Publisher is itself an envelope (chained forwarders, a relayed envelope): a message like any
				// other -- it arrives, as it is, on the topic named in THIS Publish call
				before := len(fwdCapture.Calls())
				if err := fwdPub.Publish("dest-inner", orig); err != nil {
					r.Emit("error", "what", err.Error())
					return
				}
				inner := fwdCapture.Calls()[before].Msgs[0].Copy()
				before = len(fwdCapture.Calls())
				if err := fwdPub.Publish(m.Dest, inner); err != nil {
					r.Emit("error", "what", err.Error())
					return
				}
				env := fwdCapture.Calls()[before].Msgs[0]
				d.mk = func() *message.Message { return env.Copy() }
				m.UUID, m.Payload = inner.UUID, string(inner.Payload)
				meta = map[string]string{}
				for k, v := range inner.Metadata {
					meta[k] = v
				}
			case "batch":
				batch = append(batch, orig)
				batchIdx = append(batchIdx, len(dels))
			case "trailing", "double":
				// a well-formed envelope followed by more bytes is not a valid envelope
				before := len(fwdCapture.Calls())
				if err := fwdPub.Publish("dest-0", orig); err != nil {
					r.Emit("error", "what", err.Error())
					return
				}
				env := fwdCapture.Calls()[before].Msgs[0].Copy()
				if m.Env == "trailing" {
					env.Payload = append(append([]byte{}, env.Payload...), []byte(` {"x":1} trailing`)...)
				} else {
					env.Payload = append(append([]byte{}, env.Payload...), env.Payload...)
				}
				d.valid = false
				d.mk = func() *message.Message { return env.Copy() }
			default:
				d.valid = false
				d.mk = func() *message.Message { return orig.Copy() }
			}
			d.rec = map[string]any{"uuid": m.UUID, "payload": m.Payload, "meta": meta, "valid": d.valid, "dest": m.Dest}
		case "fanin":
			d.topic = m.Topic
			d.mk = func() *message.Message { return orig.Copy() }
			d.rec = map[string]any{"uuid": m.UUID, "payload": m.Payload, "meta": meta, "valid": true, "dest": "target"}
		case "requeuer":
			d.topic = "poison"
			d.mk = func() *message.Message { return orig.Copy() }
			d.rec = map[string]any{"uuid": m.UUID, "payload": m.Payload, "meta": meta, "valid": true, "dest": "dest-" + fmt.Sprint(i%2)}
		case "fanout":
			d.topic = m.Topic
			d.mk = func() *message.Message { return orig.Copy() }
			d.rec = map[string]any{"uuid": m.UUID, "payload": m.Payload, "meta": meta, "valid": true, "dest": m.Topic}
		}
		mu.Lock()
		idOf[m.UUID] = id
		mu.Unlock()
		dels = append(dels, d)
	}
	if len(batch) > 0 { // several messages for different... the same destination in ONE Publish call of the Forwarder Publisher
		before := len(fwdCapture.Calls())
		if err := fwdPub.Publish("dest-batch", batch...); err != nil {
			r.Emit("error", "what", err.Error())
			return
		}
		envs := fwdCapture.Calls()[before].Msgs
		for k, di := range batchIdx {
			env := envs[k]
			dels[di].mk = func() *message.Message { return env.Copy() }
			dels[di].rec["dest"] = "dest-batch"
		}
		// the caller goes on to send the same batch (its own slice) to a second destination
		before = len(fwdCapture.Calls())
		if err := fwdPub.Publish("dest-again", batch...); err != nil {
			r.Emit("error", "what", err.Error())
			return
		}
		envs = fwdCapture.Calls()[before].Msgs
		for k, di := range batchIdx {
			env := envs[k]
			d := dels[di]
			d.id = fmt.Sprintf("m%d", len(dels)+1)
			d.mk = func() *message.Message { return env.Copy() }
			d.rec = map[string]any{"uuid": d.rec["uuid"], "payload": d.rec["payload"], "meta": d.rec["meta"], "valid": true, "dest": "dest-again"}
			dels = append(dels, d)
		}
	}
	// deliver, redelivering a fresh copy after every Nack (as GoChannel does), at most 4 attempts
	ndeliv := 0
	if cs.Overlap && len(dels) >= 2 {
		var pair [2]*message.Message
		for k := 0; k < 2; k++ {
			d := dels[k]
			pair[k] = d.mk()
			mu.Lock()
			current[d.id] = pair[k]
			mu.Unlock()
			r.Emit("consume", "m", d.id, "uuid", d.rec["uuid"], "payload", d.rec["payload"], "meta", d.rec["meta"], "valid", d.rec["valid"], "dest", d.rec["dest"])
		}
		for k := 0; k < 2; k++ {
			if !src.Emit(dels[k].topic, pair[k]) {
				r.Emit("hung", "what", "source emit")
				return
			}
		}
		for k := 0; k < 2; k++ {
			kind := ""
			select {
			case <-pair[k].Acked():
				kind = "ack"
			case <-pair[k].Nacked():
				kind = "nack"
			case <-time.After(HangBound):
				r.Emit("hung", "what", "message not settled")
				return
			}
			r.Emit("settled", "m", dels[k].id, "kind", kind)
		}
		// (a nacked one is redelivered below, like the others)
	}
	for _, d := range dels {
		mu.Lock()
		done := current[d.id] != nil && scripted.SettleState(current[d.id]) == "ack"
		mu.Unlock()
		if done {
			continue
		}
		for attempt := 1; attempt <= 4; attempt++ {
			msg := d.mk()
			mctx, mcancel := context.WithCancel(context.Background())
			msg.SetContext(mctx)
			mu.Lock()
			current[d.id] = msg
			curDel, curUUID = d.id, fmt.Sprint(d.rec["uuid"])
			mu.Unlock()
			ndeliv++
			r.Emit("consume", "m", d.id, "uuid", d.rec["uuid"], "payload", d.rec["payload"], "meta", d.rec["meta"], "valid", d.rec["valid"], "dest", d.rec["dest"])
			if cs.CancelAt == ndeliv {
				go func() { time.Sleep(cs.Delay / 3); mcancel() }()
			}
			if !src.Emit(d.topic, msg) {
				r.Emit("hung", "what", "source emit")
				mcancel()
				return
			}
			kind := ""
			select {
			case <-msg.Acked():
				kind = "ack"
			case <-msg.Nacked():
				kind = "nack"
			case <-time.After(HangBound):
				r.Emit("hung", "what", "message not settled")
				mcancel()
				return
			}
			mcancel()
			r.Emit("settled", "m", d.id, "kind", kind)
			if kind == "ack" || !d.valid {
				break
			}
		}
	}
	if fo != nil {
		deadline := time.Now().Add(HangBound)
		for time.Now().Before(deadline) {
			n := 0
			fanGot.Range(func(k, v any) bool { n++; return true })
			if n >= len(dels)*fanSubs {
				break
			}
			time.Sleep(2 * time.Millisecond)
		}
	}
	r.Emit("quiesce", "fansubs", fanSubs)
	_ = closeFn()
	cancel()
	<-waitOr(waitWG(&fanWg), 2*time.Second)
	r.NonTrivial = len(cs.Fail) > 0 || cs.Comp == "forwarder"
}
