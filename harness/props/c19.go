package props

import (
	"context"
	stderrors "errors"
	"fmt"
	"runtime"
	"sync"
	"time"

	"github.com/ThreeDotsLabs/watermill/components/delay"
	"github.com/ThreeDotsLabs/watermill/message"
	"github.com/ThreeDotsLabs/watermill/message/router/middleware"
	pkgerrors "github.com/pkg/errors"
	"github.com/sony/gobreaker"

	"wmverif/tr"
)

func init() { Registry["C19"] = runC19 }

var (
	c19E1  = stderrors.New("e1")
	c19E2  = stderrors.New("e2")
	c19WE1 = pkgerrors.Wrap(c19E1, "wrapped")
	// an error that IS a context error (as a handler returns it after its per-call deadline): just another error for every middleware
	c19CE = fmt.Errorf("attempt gave up: %w", context.DeadlineExceeded)
)

type c19Out struct {
	ID   string `json:"id"`
	Corr string `json:"corr"`
}
type c19Res struct {
	Outs  []c19Out `json:"outs"`
	Err   string   `json:"err"`
	Panic string   `json:"panic"`
}

var c19Names = []string{"Timeout", "TimeoutZero", "CorrelationID", "Recoverer", "IgnoreErrors", "InstantAck", "Throttle", "CircuitBreaker", "DelayOnError", "Retry", "Duplicator", "RandomFail", "RandomPanic"}

func c19Scripts() [][]c19Res {
	ok0 := c19Res{[]c19Out{}, "nil", "none"}
	ok1 := c19Res{[]c19Out{{"o1", ""}}, "nil", "none"}
	ok2 := c19Res{[]c19Out{{"o1", ""}, {"o2", "own"}}, "nil", "none"}
	e1o := c19Res{[]c19Out{{"x1", ""}}, "e1", "none"}
	e1 := c19Res{[]c19Out{}, "e1", "none"}
	we1 := c19Res{[]c19Out{}, "we1", "none"}
	e2 := c19Res{[]c19Out{}, "e2", "none"}
	pv := c19Res{[]c19Out{}, "nil", "value"}
	pe := c19Res{[]c19Out{}, "nil", "error"}
	pn := c19Res{[]c19Out{}, "nil", "nil"}
	ps := c19Res{[]c19Out{}, "nil", "slice"} // a panic value of a type that == cannot compare
	ce := c19Res{[]c19Out{}, "ce", "none"}
	return [][]c19Res{
		{ce, ok1}, {ce, ce, ok2}, {ce},
		{ok0}, {ok1}, {ok2}, {e1o, ok1}, {e1}, {we1, ok0}, {e2, e2, ok2}, {e2}, {pv}, {pe}, {pn}, {ps}, {e1, pv}, {e1, e2, e1o, ok2},
	}
}

type c19Case struct {
	Chain       []string
	Script      []c19Res
	NCalls      int
	Corr        string
	DInit, DMax time.Duration
	DNum, DDen  int
	Settle0     string // "" | nack: the message has been settled by somebody else before it reaches the chain (Ack in the chain is then without effect, nothing else changes)
}

func runC19(c *Ctx) error {
	T := c.Trace("MiddlewareAlgebraTrace")
	var chains [][]string
	chains = append(chains, []string{})
	for _, a := range c19Names {
		chains = append(chains, []string{a})
		for _, b := range c19Names {
			chains = append(chains, []string{a, b})
		}
	}
	n2 := len(chains)
	var chains3 [][]string
	for _, a := range c19Names {
		for _, b := range c19Names {
			for _, d := range c19Names {
				chains3 = append(chains3, []string{a, b, d})
			}
		}
	}
	if c.Thorough() {
		chains = append(chains, chains3...)
	} else {
		for i := 0; i < 250; i++ {
			chains = append(chains, chains3[c.Rng.Intn(len(chains3))])
		}
	}
	scripts := c19Scripts()
	delays := []struct {
		i, m time.Duration
		n, d int
	}{
		{100 * time.Millisecond, 1 * time.Second, 3, 2},
		{1 * time.Second, 10 * time.Second, 5, 2},
		{10 * time.Millisecond, 25 * time.Millisecond, 2, 1},
		{40 * time.Millisecond, 400 * time.Second, 5, 4},
		{time.Second, time.Second, 1, 1},
		// the same steps as two of the above, with a ceiling that is reached early: each middleware value has its own MaxInterval
		{100 * time.Millisecond, 180 * time.Millisecond, 3, 2},
		{40 * time.Millisecond, 70 * time.Millisecond, 5, 4},
	}
	var cases []c19Case
	for ci, ch := range chains {
		for si, sc := range scripts {
			if ci >= n2 && !c.Thorough() && (ci+si)%3 != 0 {
				continue
			}
			dl := delays[(ci+si)%len(delays)]
			corr := "c0"
			if (ci+si)%5 == 0 {
				corr = ""
			}
			cases = append(cases, c19Case{Chain: ch, Script: sc, NCalls: 1 + (ci+si)%3, Corr: corr, DInit: dl.i, DMax: dl.m, DNum: dl.n, DDen: dl.d})
		}
	}
	// a message that was nacked before it reaches the chain (an outer party gave the delivery up): chains with InstantAck behave as ever
	for ci, ch := range chains[:n2] {
		has := false
		for _, m := range ch {
			has = has || m == "InstantAck"
		}
		if !has {
			continue
		}
		for si, sc := range scripts {
			dl := delays[(ci+si)%len(delays)]
			cases = append(cases, c19Case{Chain: ch, Script: sc, NCalls: 1 + (ci+si)%2, Corr: "c0", DInit: dl.i, DMax: dl.m, DNum: dl.n, DDen: dl.d, Settle0: "nack"})
		}
	}
	// DelayOnError on long failure sequences with fractional multipliers
	for _, dl := range delays {
		cases = append(cases, c19Case{Chain: []string{"DelayOnError"}, Script: scripts[4], NCalls: 7, Corr: "c0", DInit: dl.i, DMax: dl.m, DNum: dl.n, DDen: dl.d})
		cases = append(cases, c19Case{Chain: []string{"Retry", "DelayOnError"}, Script: scripts[7], NCalls: 2, Corr: "c0", DInit: dl.i, DMax: dl.m, DNum: dl.n, DDen: dl.d})
	}
	runs := make([]*tr.Run, len(cases))
	for i, cs := range cases {
		cls := fmt.Sprintf("chain%d", len(cs.Chain))
		s0 := "none"
		if cs.Settle0 != "" {
			s0 = cs.Settle0
		}
		runs[i] = T.NewRun(cls, map[string]any{"chain": cs.Chain, "script": cs.Script, "corr": cs.Corr, "settle0": s0,
			"cfg": map[string]any{"dInit": int64(cs.DInit / time.Microsecond), "dMax": int64(cs.DMax / time.Microsecond), "dNum": cs.DNum, "dDen": cs.DDen, "retries": 2}})
		runs[i].Key = fmt.Sprintf("%v|%v|%d|%s", cs.Chain, cs.Script, cs.NCalls, cs.Settle0)
	}
	Parallel(len(cases), func(i int) { c19Run(runs[i], cases[i]) })
	c.AddStat("algebra_cases", len(cases))

	// Throttle timing
	TT := c.Trace("ThrottleTrace")
	nth := c.Pick(6, 30)
	thr := make([]*tr.Run, nth)
	for i := range thr {
		thr[i] = TT.NewRun("throttle", map[string]any{"period": 20000, "slack": 20000})
		thr[i].Key = fmt.Sprintf("throttle%d", i)
	}
	Parallel(nth, func(i int) { c19Throttle(thr[i], 4+i%5, i%3) })

	// CircuitBreaker beyond the closed state (CircuitBreakerTrace.tla)
	TB := c.Trace("CircuitBreakerTrace")
	nb := c.Pick(16, 400)
	brs := make([]*tr.Run, nb)
	type bcase struct {
		trip, maxreq int
		script       []string
	}
	bcs := make([]bcase, nb)
	for i := range brs {
		bc := bcase{trip: 1 + i%3, maxreq: 1 + (i/3)%2}
		if i%7 == 6 {
			bc.trip = 6 // gobreaker's default ReadyToTrip (more than 5 consecutive failures)
		}
		n := 8 + c.Rng.Intn(8)
		for k := 0; k < n; k++ {
			bc.script = append(bc.script, []string{"ok", "err", "err", "panic", "short", "long"}[c.Rng.Intn(6)])
		}
		// make sure the breaker opens and is tried again at least once
		for k := 0; k < bc.trip; k++ {
			bc.script = append(bc.script, "err")
		}
		bc.script = append(bc.script, "ok", "long", "ok", "ok", "err", "long", "err", "short", "ok")
		bcs[i] = bc
		brs[i] = TB.NewRun("breaker", map[string]any{"cfg": map[string]any{"trip": bc.trip, "timeout": int64(c19BreakerTimeout / time.Microsecond), "maxreq": bc.maxreq}})
		brs[i].Key = fmt.Sprintf("breaker/%+v", bc)
	}
	Parallel(nb, func(i int) { c19Breaker(brs[i], bcs[i].trip, bcs[i].maxreq, bcs[i].script) })
	c.AddStat("breaker_scripts", nb)
	c.AddStat("throttle_runs", nth)
	return nil
}

func c19Build(name string, cs c19Case) message.HandlerMiddleware {
	switch name {
	case "Timeout":
		return middleware.Timeout(time.Hour)
	case "TimeoutZero":
		return middleware.Timeout(0)
	case "CorrelationID":
		return middleware.CorrelationID
	case "Recoverer":
		return middleware.Recoverer
	case "IgnoreErrors":
		// the list belongs to the caller, who goes on using it (to configure the next middleware, say)
		errs := []error{c19E1}
		ig := middleware.NewIgnoreErrors(errs)
		errs[0] = c19E2
		return ig.Middleware
	case "InstantAck":
		return middleware.InstantAck
	case "Throttle":
		return middleware.NewThrottle(2000, time.Second).Middleware
	case "RandomFail":
		return middleware.RandomFail(1)
	case "RandomPanic":
		return middleware.RandomPanic(1)
	case "CircuitBreaker":
		return middleware.NewCircuitBreaker(gobreaker.Settings{Name: "cb", ReadyToTrip: func(gobreaker.Counts) bool { return false }}).Middleware
	case "DelayOnError":
		d := &middleware.DelayOnError{InitialInterval: cs.DInit, MaxInterval: cs.DMax, Multiplier: float64(cs.DNum) / float64(cs.DDen)}
		return d.Middleware
	case "Duplicator":
		return middleware.Duplicator
	case "Retry":
		return middleware.Retry{MaxRetries: 2, InitialInterval: 0, MaxInterval: 0, Multiplier: 1}.Middleware
	}
	panic(name)
}

func c19ErrClass(err error) string {
	var rp middleware.RecoveredPanicError
	switch {
	case err == nil:
		return "nil"
	case err == c19E1:
		return "e1"
	case err == c19E2:
		return "e2"
	case err == c19WE1:
		return "we1"
	case err == c19CE:
		return "ce"
	case stderrors.As(err, &rp):
		return "panic:" + c19PanicKind(rp.V)
	case err.Error() == "random fail occurred":
		return "rf"
	}
	return "other:" + err.Error()
}

func c19PanicKind(v any) string {
	switch x := v.(type) {
	case nil:
		return "nil"
	case *runtime.PanicNilError:
		return "nil"
	case []string:
		if len(x) == 3 && x[0] == "scripted" && x[2] == "value" {
			return "slice"
		}
	case string:
		if x == "scripted panic value" {
			return "value"
		}
		if x == "random panic occurred" {
			return "rp"
		}
	case error:
		if x == c19E2 {
			return "error"
		}
	}
	return fmt.Sprintf("unknown(%v)", v)
}

func c19State(msg *message.Message) (ctx string, dl bool, settle string) {
	ctx = "live"
	if msg.Context().Err() != nil {
		ctx = "cancelled"
	}
	_, dl = msg.Context().Deadline()
	settle = "none"
	select {
	case <-msg.Acked():
		settle = "ack"
	default:
	}
	select {
	case <-msg.Nacked():
		settle = "nack"
	default:
	}
	return
}

func c19Run(r *tr.Run, cs c19Case) {
	var mu sync.Mutex
	k := 0
	handler := func(msg *message.Message) ([]*message.Message, error) {
		mu.Lock()
		k++
		idx := k
		mu.Unlock()
		if idx > len(cs.Script) {
			idx = len(cs.Script)
		}
		res := cs.Script[idx-1]
		ctx, dl, settle := c19State(msg)
		r.Emit("h", "ctx", ctx, "dl", dl, "settle", settle)
		switch res.Panic {
		case "value":
			panic("scripted panic value")
		case "error":
			panic(c19E2)
		case "nil":
			panic(nil)
		case "slice":
			panic([]string{"scripted", "panic", "value"})
		}
		var outs []*message.Message
		for _, o := range res.Outs {
			m := message.NewMessage(o.ID, nil)
			if o.Corr != "" {
				middleware.SetCorrelationID(o.Corr, m)
			} else if o.ID == "o1" {
				m.Metadata.Set(middleware.CorrelationIDMetadataKey, "") // the key is there, the id is not: an output that lacks one
			}
			outs = append(outs, m)
		}
		switch res.Err {
		case "e1":
			return outs, c19E1
		case "e2":
			return outs, c19E2
		case "we1":
			return outs, c19WE1
		case "ce":
			return outs, c19CE
		}
		return outs, nil
	}
	var h message.HandlerFunc = handler
	for i := len(cs.Chain) - 1; i >= 0; i-- {
		h = c19Build(cs.Chain[i], cs)(h)
	}
	msg := message.NewMessage(fmt.Sprintf("r%d", r.ID), []byte("p"))
	if cs.Corr != "" {
		middleware.SetCorrelationID(cs.Corr, msg)
	}
	if cs.Settle0 == "nack" {
		msg.Nack()
	}
	for j := 0; j < cs.NCalls; j++ {
		r.Emit("call")
		var outs []*message.Message
		var err error
		done := make(chan struct{})
		var pk string
		go func() {
			defer close(done)
			defer func() {
				if rec := recover(); rec != nil {
					pk = c19PanicKind(rec)
				}
			}()
			outs, err = h(msg)
		}()
		if !WaitOrHang(done) {
			r.Emit("hung")
			return
		}
		ctx, dl, settle := c19State(msg)
		dly := int64(-1)
		if s := msg.Metadata.Get(delay.DelayedForKey); s != "" {
			if d, e := time.ParseDuration(s); e == nil {
				dly = int64(d / time.Microsecond)
			} else {
				dly = -2
			}
		}
		os := []c19Out{}
		for _, o := range outs {
			os = append(os, c19Out{o.UUID, middleware.MessageCorrelationID(o)})
		}
		ec, pn := c19ErrClass(err), "none"
		if pk != "" {
			ec, pn, os = "nil", pk, []c19Out{}
		}
		r.Emit("ret", "outs", os, "err", ec, "panic", pn, "ctx", ctx, "dl", dl, "delay", dly, "settle", settle)
	}
	r.NonTrivial = len(cs.Chain) > 0
}

const c19BreakerTimeout = 40 * time.Millisecond

// c19Breaker drives one CircuitBreaker middleware through a script of handler outcomes and pauses, then checks the
// half-open admission limit with trials held inside the handler.
func c19Breaker(r *tr.Run, trip, maxreq int, script []string) {
	st := gobreaker.Settings{Name: "cb", Timeout: c19BreakerTimeout, MaxRequests: uint32(maxreq)}
	if trip != 6 {
		st.ReadyToTrip = func(c gobreaker.Counts) bool { return int(c.ConsecutiveFailures) >= trip }
	}
	var mu sync.Mutex
	outcome := "ok"
	invoked := false
	var hold chan struct{} // when set, the handler blocks on it (half-open trials in flight)
	entered := make(chan struct{}, 8)
	h := middleware.NewCircuitBreaker(st).Middleware(func(msg *message.Message) ([]*message.Message, error) {
		mu.Lock()
		invoked = true
		o, hc := outcome, hold
		mu.Unlock()
		if hc != nil {
			entered <- struct{}{}
			<-hc
		}
		switch o {
		case "err":
			return nil, c19E1
		case "panic":
			panic("scripted panic value")
		}
		return []*message.Message{message.NewMessage("o", nil)}, nil
	})
	t0 := time.Now()
	now := func() int64 { return int64(time.Since(t0) / time.Microsecond) }
	call := func(o string) string {
		mu.Lock()
		outcome, invoked = o, false
		mu.Unlock()
		a := now()
		var outs []*message.Message
		var err error
		p, _ := Guarded(func() { outs, err = h(message.NewMessage("m", nil)) })
		b := now()
		ret := "ok"
		switch {
		case p:
			ret = "panic"
		case err == gobreaker.ErrOpenState:
			ret = "open"
		case err == gobreaker.ErrTooManyRequests:
			ret = "toomany"
		case err == c19E1:
			ret = "err"
		case err != nil:
			ret = "other:" + err.Error()
		case len(outs) != 1:
			ret = "lost-outputs"
		}
		mu.Lock()
		inv := invoked
		mu.Unlock()
		r.Emit("cbcall", "t0", a, "t1", b, "invoked", inv, "outcome", o, "ret", ret)
		return ret
	}
	for _, s := range script {
		switch s {
		case "short":
			time.Sleep(time.Millisecond)
		case "long":
			time.Sleep(c19BreakerTimeout + 15*time.Millisecond)
		default:
			call(s)
		}
	}
	// bring the breaker into the half-open state with maxreq trials held inside the handler
	for k := 0; k < 8; k++ {
		call("err")
	}
	time.Sleep(c19BreakerTimeout + 15*time.Millisecond)
	hc := make(chan struct{})
	mu.Lock()
	outcome, hold = "ok", hc
	mu.Unlock()
	var wg sync.WaitGroup
	for k := 0; k < maxreq; k++ {
		wg.Add(1)
		go func() { defer wg.Done(); _, _ = h(message.NewMessage("trial", nil)) }()
		select {
		case <-entered:
		case <-time.After(HangBound):
			r.Emit("hung", "what", "half-open trial not admitted")
			close(hc)
			return
		}
	}
	mu.Lock()
	invoked = false
	mu.Unlock()
	extra := make(chan error, 1)
	go func() { _, err := h(message.NewMessage("extra", nil)); extra <- err }()
	select {
	case err := <-extra:
		ret := "other"
		if err == gobreaker.ErrTooManyRequests {
			ret = "toomany"
		} else if err != nil {
			ret = "other:" + err.Error()
		}
		r.Emit("overflow", "invoked", false, "ret", ret)
	case <-time.After(300 * time.Millisecond):
		// it sits inside the handler: admitted beyond MaxRequests
		r.Emit("overflow", "invoked", true, "ret", "admitted")
	}
	close(hc)
	wg.Wait()
	r.NonTrivial = true
}

// mode: 0 live messages; 1 messages whose context is already cancelled; 2 Throttle inside a Timeout shorter than the period
func c19Throttle(r *tr.Run, callers int, mode int) {
	th := middleware.NewThrottle(50, time.Second) // period 20 ms
	t0 := time.Now()
	var mu sync.Mutex
	h := th.Middleware(func(msg *message.Message) ([]*message.Message, error) {
		mu.Lock() // log in start order
		r.Emit("tstart", "t", int64(time.Since(t0)/time.Microsecond))
		mu.Unlock()
		return nil, nil
	})
	if mode == 2 {
		h = middleware.Timeout(3 * time.Millisecond)(h)
	}
	newMsg := func() *message.Message {
		m := message.NewMessage("t", nil)
		if mode == 1 {
			ctx, cancel := context.WithCancel(context.Background())
			cancel()
			m.SetContext(ctx)
		}
		return m
	}
	time.Sleep(time.Duration(10+7*callers) * time.Millisecond) // a tick may already be buffered
	var wg sync.WaitGroup
	for g := 0; g < callers; g++ {
		wg.Add(1)
		go func() {
			defer wg.Done()
			for i := 0; i < 4; i++ {
				h(newMsg())
			}
		}()
	}
	wg.Wait()
	r.NonTrivial = true
}
