package props

import (
	"strings"
	"context"
	"encoding/hex"
	"errors"
	"fmt"
	pkgerrors "github.com/pkg/errors"
	"math/rand"
	"reflect"
	"sync"
	"time"

	"github.com/ThreeDotsLabs/watermill/components/cqrs"
	"github.com/ThreeDotsLabs/watermill/components/forwarder"
	"github.com/ThreeDotsLabs/watermill/components/requestreply"
	"github.com/ThreeDotsLabs/watermill/message"
	gogotypes "github.com/gogo/protobuf/types"
	"google.golang.org/protobuf/proto"
	"google.golang.org/protobuf/types/known/structpb"
	"google.golang.org/protobuf/types/known/wrapperspb"

	"wmverif/scripted"
	"wmverif/tr"
)

func init() { Registry["C16"] = runC16 }

// ---- string / payload atoms: every atom stands for a class; members are drawn by seed
func c16Str(class string, rng *rand.Rand, rep bool) string {
	switch class {
	case "empty":
		return ""
	case "a":
		if rep {
			return "a"
		}
		return fmt.Sprintf("a%d", rng.Intn(1000))
	case "b":
		if rep {
			return "b"
		}
		return fmt.Sprintf("b-%x", rng.Int63())
	case "ctl":
		all := []string{"\x00", "\x01", "\x1f", "\"", "\\", "\u2028", "\u2029", "<", ">", "&", "\n", "\t", "\r", "'", "\x7f"}
		if rep {
			return "\x01\"\\\u2028<>&"
		}
		s := ""
		for i := 0; i < 1+rng.Intn(6); i++ {
			s += all[rng.Intn(len(all))]
			if rng.Intn(2) == 0 {
				s += "x"
			}
		}
		return s
	default: // multibyte
		all := []string{"é", "世", "界", "🙂", "ß", "Ω", "\u00a0", "\ufeff", "\U0010ffff", "ñ"}
		if rep {
			return "é世🙂"
		}
		s := ""
		for i := 0; i < 1+rng.Intn(5); i++ {
			s += all[rng.Intn(len(all))]
		}
		return s
	}
}

var c16StrClasses = []string{"empty", "a", "b", "ctl", "multibyte"}

func c16Payload(class string, rng *rand.Rand) []byte {
	switch class {
	case "nil":
		return nil
	case "empty":
		return []byte{}
	case "zero":
		return []byte{0}
	case "ff":
		return []byte{255}
	case "ab":
		return []byte("ab")
	default:
		n := rng.Intn(4096)
		b := make([]byte, n)
		rng.Read(b)
		return b
	}
}

var c16PayClasses = []string{"nil", "empty", "zero", "ff", "ab", "random"}

func c16Project(m *message.Message) map[string]any {
	meta := map[string]string{}
	for k, v := range m.Metadata {
		meta[k] = v
	}
	return map[string]any{"uuid": m.UUID, "payload": hex.EncodeToString(m.Payload), "meta": meta}
}

func runC16(c *Ctx) error {
	T := c.Trace("ValuesTrace")
	nm := c.Pick(3, 50)
	rng := c.Rng
	// ---------------- (1) heap operation sequences, exhaustively in a small scope
	type op struct {
		kind    string
		i, j    int
		k, x    string
		uuid    string
		pay     string
		metaSel int
	}
	metas := []map[string]string{nil, {}, {"k1": ""}, {"k2": ""}, {"k1": "a", "k2": ""}}
	var alphabet []op
	for i := 1; i <= 2; i++ {
		for ms := range metas {
			alphabet = append(alphabet, op{kind: "new", i: i, uuid: []string{"", "a"}[ms%2], pay: []string{"nil", "ab"}[ms%2], metaSel: ms})
		}
		alphabet = append(alphabet, op{kind: "copy", i: i, j: 3 - i}, op{kind: "copy", i: i, j: 3})
		for _, k := range []string{"k1", "k2"} {
			for _, x := range []string{"", "a"} {
				alphabet = append(alphabet, op{kind: "setmeta", i: i, k: k, x: x})
			}
		}
	}
	alphabet = append(alphabet, op{kind: "setmeta", i: 3, k: "k1", x: "a"}, op{kind: "setmeta", i: 3, k: "k2", x: ""})
	maxLen := c.Pick(3, 4)
	var seqs [][]op
	var rec func(cur []op, have map[int]bool)
	rec = func(cur []op, have map[int]bool) {
		if len(cur) > 0 {
			seqs = append(seqs, append([]op{}, cur...))
		}
		if len(cur) == maxLen {
			return
		}
		for _, o := range alphabet {
			if o.kind != "new" && !have[o.i] {
				continue
			}
			h2 := map[int]bool{}
			for k, v := range have {
				h2[k] = v
			}
			if o.kind == "new" {
				h2[o.i] = true
			}
			if o.kind == "copy" {
				h2[o.j] = true
			}
			rec(append(cur, o), h2)
		}
	}
	rec(nil, map[int]bool{})
	// only maximal sequences are needed (prefix-closed)
	var maximal [][]op
	for _, s := range seqs {
		if len(s) == maxLen {
			maximal = append(maximal, s)
		}
	}
	if !c.Thorough() && len(maximal) > 6000 {
		rng.Shuffle(len(maximal), func(i, j int) { maximal[i], maximal[j] = maximal[j], maximal[i] })
		maximal = maximal[:6000]
	}
	heapRuns := make([]*tr.Run, len(maximal))
	for i := range maximal {
		heapRuns[i] = T.NewRun("heap", nil)
		heapRuns[i].Key = fmt.Sprintf("heap/%v", maximal[i])
	}
	Parallel(len(maximal), func(ri int) {
		r := heapRuns[ri]
		cells := map[int]*message.Message{}
		viaCopy := map[int]bool{} // cells produced by Copy(): they own a (writable) metadata map whatever the original looked like
		obs := func() {
			for i := 1; i <= 3; i++ {
				if m := cells[i]; m != nil {
					r.Emit("obs", "i", i, "val", c16Project(m))
				}
			}
			for i := 1; i <= 3; i++ {
				for j := 1; j <= 3; j++ {
					if cells[i] != nil && cells[j] != nil && i != j {
						r.Emit("equals", "i", i, "j", j, "res", cells[i].Equals(cells[j]))
					}
				}
			}
		}
		for _, o := range maximal[ri] {
			p, v := Guarded(func() {
				switch o.kind {
				case "new":
					var m *message.Message
					pay := c16Payload(o.pay, rng)
					if metas[o.metaSel] == nil {
						m = &message.Message{UUID: o.uuid, Payload: pay} // built without the constructor: nil metadata
					} else {
						m = message.NewMessage(o.uuid, pay)
						for k, x := range metas[o.metaSel] {
							m.Metadata.Set(k, x)
						}
					}
					cells[o.i] = m
					viaCopy[o.i] = false
					r.Emit("new", "i", o.i, "val", c16Project(m))
				case "copy":
					cells[o.j] = cells[o.i].Copy()
					viaCopy[o.j] = true
					r.Emit("copy", "i", o.i, "j", o.j)
				case "setmeta":
					if cells[o.i].Metadata == nil && !viaCopy[o.i] {
						cells[o.i].Metadata = message.Metadata{} // the owner of a zero-value message initialises its map itself
					}
					cells[o.i].Metadata.Set(o.k, o.x)
					r.Emit("setmeta", "i", o.i, "k", o.k, "x", o.x)
				}
			})
			if p {
				r.Emit("panic", "val", v, "op", o.kind)
				return
			}
			obs()
		}
		r.NonTrivial = true
	})
	c.AddStat("heap_sequences", len(maximal))

	// ---------------- (2) pairs of messages differing in exactly one component (class representatives + random members)
	pr := T.NewRun("one-component-pairs", nil)
	pr.Key = "pairs"
	pr.NonTrivial = true
	npairs := 0
	for round := 0; round <= nm; round++ {
		rep := round == 0
		for _, uc := range c16StrClasses {
			for _, pc := range c16PayClasses {
				for _, kc := range c16StrClasses {
					base := message.NewMessage(c16Str(uc, rng, rep), c16Payload(pc, rng))
					base.Metadata.Set(c16Str(kc, rng, rep), c16Str(c16StrClasses[(round+len(uc))%5], rng, rep))
					base.Metadata.Set("fixed", "")
					variants := []func(*message.Message){
						func(m *message.Message) { m.UUID += "x" },
						func(m *message.Message) { m.Payload = append(append([]byte{}, m.Payload...), 0) },
						func(m *message.Message) { m.Metadata.Set("fixed", "y") },
						func(m *message.Message) { delete(m.Metadata, "fixed"); m.Metadata.Set("other", "") }, // same size, other key, empty value
						func(m *message.Message) { m.Metadata.Set("extra", "") },
						func(m *message.Message) {}, // identical
					}
					for _, f := range variants {
						other := base.Copy()
						f(other)
						pr.Emit("new", "i", 1, "val", c16Project(base))
						pr.Emit("new", "i", 2, "val", c16Project(other))
						pr.Emit("equals", "i", 1, "j", 2, "res", base.Equals(other))
						pr.Emit("equals", "i", 2, "j", 1, "res", other.Equals(base))
						npairs++
					}
				}
			}
		}
	}
	c.AddStat("one_component_pairs", npairs)

	// ---------------- (3) codec round trips
	cr := T.NewRun("codecs", nil)
	cr.Key = "codecs"
	cr.NonTrivial = true
	nrt := c16Codecs(cr, rng, nm)
	c.AddStat("round_trips", nrt)
	return nil
}

type C16J struct {
	S string            `json:"s"`
	B []byte            `json:"b"`
	M map[string]string `json:"m"`
	N int64             `json:"n"`
	F float64           `json:"f"`
	P *C16J             `json:"p,omitempty"`
}

// C16Named names its values itself (cqrs.NamedStruct): the name depends on the value.
// C16Dyn has dynamically typed positions: what JSON decodes there by default (float64, string, bool, nil, maps, slices) comes back as it went in.
type C16Dyn struct {
	A any
	M map[string]any
	L []any
}

type C16Named struct {
	Kind string
	X    int
}

func (n *C16Named) Name() string { return n.Kind }

func c16Codecs(r *tr.Run, rng *rand.Rand, nm int) int {
	n := 0
	protoUsed := map[string]proto.Message{} // by type: a value that already went through an earlier round
	// forwarder envelope: wrap with the Forwarder's Publisher, unwrap by a running Forwarder
	capture := scripted.NewPub("capture")
	fp := forwarder.NewPublisher(capture, forwarder.PublisherConfig{ForwarderTopic: "fwd"})
	src := scripted.NewSub("src")
	dst := scripted.NewPub("dst")
	f, err := forwarder.NewForwarder(src, dst, nil, forwarder.Config{ForwarderTopic: "fwd", CloseTimeout: 2 * time.Second})
	if err != nil {
		r.Emit("error", "what", err.Error())
		return 0
	}
	ctx, cancel := context.WithCancel(context.Background())
	defer cancel()
	go func() { _ = f.Run(ctx) }()
	select {
	case <-f.Running():
	case <-time.After(HangBound):
		r.Emit("hung", "what", "forwarder start")
		return 0
	}
	defer f.Close()
	var lastEnv *message.Message
	envSeq := 0
	envelope := func(topic string, m *message.Message) {
		lastEnv = nil
		orig := c16Project(m)
		orig["topic"] = topic
		before := len(capture.Calls())
		if err := fp.Publish(topic, m); err != nil {
			r.Emit("rt", "kind", "envelope", "orig", orig, "back", map[string]any{"error": err.Error()}, "nameok", true)
			return
		}
		env := capture.Calls()[before].Msgs[0]
		lastEnv = env.Copy()
		envSeq++
		if envSeq%2 == 0 {
			// the envelope message picks up metadata of its own on its way (a decorated outbox publisher, a broker that adds
			// partition / trace keys on the subscriber side): that is the envelope's, not the enveloped message's
			env.Metadata.Set("trace-id", "added-on-the-way")
			env.Metadata.Set("correlation_id", "the-envelope's-own")
			env.Metadata.Set("k", "not the message's k")
		}
		db := len(dst.Calls())
		if !src.Emit("fwd", env) {
			r.Emit("hung", "what", "forwarder emit")
			return
		}
		select {
		case <-env.Acked():
		case <-env.Nacked():
		case <-time.After(HangBound):
		}
		back := map[string]any{"error": "not forwarded"}
		if calls := dst.Calls(); len(calls) > db && len(calls[db].Msgs) == 1 {
			back = c16Project(calls[db].Msgs[0])
			back["topic"] = calls[db].Topic
		}
		r.Emit("rt", "kind", "envelope", "orig", orig, "back", back, "nameok", true)
		n++
	}
	// two Publish calls through ONE forwarder Publisher overlap: the first is held inside the wrapped publisher before it
	// looks at what it was given, the second runs to completion meanwhile; each envelope must still carry its own message
	overlap := func(topicA string, mA *message.Message, topicB string, mB *message.Message) {
		entered, gate := make(chan struct{}, 1), make(chan struct{})
		var mu sync.Mutex
		first := true
		seen := map[string]*message.Message{} // envelope seen by the wrapped publisher, by destination ("A"/"B" = order of arrival)
		capture.Fn = func(n int, topic string, msgs []*message.Message) error {
			mu.Lock()
			mine := "B"
			if first {
				mine, first = "A", false
			}
			mu.Unlock()
			if mine == "A" {
				entered <- struct{}{}
				<-gate
			}
			mu.Lock()
			if len(msgs) == 1 {
				seen[mine] = msgs[0]
			}
			mu.Unlock()
			return nil
		}
		defer func() { capture.Fn = nil }()
		done := make(chan struct{})
		go func() { defer close(done); _ = fp.Publish(topicA, mA) }()
		select {
		case <-entered:
			_ = fp.Publish(topicB, mB)
		case <-time.After(HangBound):
			r.Emit("hung", "what", "wrapped publisher not reached")
		}
		close(gate)
		<-done
		for _, x := range []struct {
			k     string
			topic string
			m     *message.Message
		}{{"A", topicA, mA}, {"B", topicB, mB}} {
			orig := c16Project(x.m)
			orig["topic"] = x.topic
			mu.Lock()
			env := seen[x.k]
			mu.Unlock()
			back := map[string]any{"error": "no envelope"}
			if env != nil {
				env = env.Copy() // (in a broken tree both calls may have been handed the same envelope object)
				db := len(dst.Calls())
				if !src.Emit("fwd", env) {
					r.Emit("hung", "what", "forwarder emit")
					return
				}
				select {
				case <-env.Acked():
				case <-env.Nacked():
				case <-time.After(HangBound):
				}
				back = map[string]any{"error": "not forwarded"}
				if calls := dst.Calls(); len(calls) > db && len(calls[db].Msgs) == 1 {
					back = c16Project(calls[db].Msgs[0])
					back["topic"] = calls[db].Topic
				}
			}
			r.Emit("rt", "kind", "envelope-overlap", "orig", orig, "back", back, "nameok", true)
			n++
		}
	}
	for i := 0; i < 6; i++ {
		mA := message.NewMessage(fmt.Sprintf("ov-a%d", i), []byte(fmt.Sprintf("payload a%d", i)))
		mB := message.NewMessage(fmt.Sprintf("ov-b%d", i), []byte(fmt.Sprintf("payload b%d", i)))
		mA.Metadata.Set("who", "a")
		overlap(fmt.Sprintf("dest-a%d", i), mA, fmt.Sprintf("dest-b%d", i), mB)
	}
	for round := 0; round <= nm; round++ {
		rep := round == 0
		for _, uc := range c16StrClasses {
			for _, pc := range c16PayClasses {
				for _, tc := range c16StrClasses {
					if tc == "empty" {
						continue // destination topics are non-empty
					}
					m := message.NewMessage(c16Str(uc, rng, rep), c16Payload(pc, rng))
					for _, kc := range c16StrClasses {
						m.Metadata.Set(c16Str(kc, rng, rep), c16Str(c16StrClasses[(round+len(kc)+len(tc))%5], rng, rep))
					}
					envelope(c16Str(tc, rng, rep), m)
					if inner := lastEnv; inner != nil && (len(uc)+len(pc)+round)%3 == 0 {
						// an envelope is a message like any other (chained forwarders, relayed envelopes): enveloped again with
						// another destination it comes back as it was, on that destination
						envelope("relay/"+c16Str(tc, rng, rep), inner)
					}
				}
			}
		}
	}
	// several envelopes produced one after the other and only then unwrapped (buffers must not be shared)
	{
		var envs []*message.Message
		var origs []map[string]any
		for i := 0; i < 4; i++ {
			m := message.NewMessage(fmt.Sprintf("seq-%d", i), []byte(fmt.Sprintf("payload %d", i)))
			m.Metadata.Set("i", fmt.Sprint(i))
			o := c16Project(m)
			o["topic"] = fmt.Sprintf("topic-%d", i)
			before := len(capture.Calls())
			_ = fp.Publish(fmt.Sprintf("topic-%d", i), m)
			envs = append(envs, capture.Calls()[before].Msgs[0])
			origs = append(origs, o)
		}
		for i, env := range envs {
			db := len(dst.Calls())
			src.Emit("fwd", env)
			select {
			case <-env.Acked():
			case <-env.Nacked():
			case <-time.After(HangBound):
			}
			back := map[string]any{"error": "not forwarded"}
			if calls := dst.Calls(); len(calls) > db && len(calls[db].Msgs) == 1 {
				back = c16Project(calls[db].Msgs[0])
				back["topic"] = calls[db].Topic
			}
			r.Emit("rt", "kind", "envelope-sequence", "orig", origs[i], "back", back, "nameok", true)
			n++
		}
	}
	// CQRS marshalers
	show := func(v any) string { return fmt.Sprintf("%#v", v) }
	for round := 0; round <= nm; round++ {
		rep := round == 0
		for _, sc := range c16StrClasses {
			for _, pc := range c16PayClasses {
				s := c16Str(sc, rng, rep)
				v := &C16J{S: s, B: c16Payload(pc, rng), M: map[string]string{s: c16Str(c16StrClasses[round%5], rng, rep), "": ""}, N: rng.Int63() - 1<<62, F: float64(rng.Intn(1000)) / 8,
					P: &C16J{S: c16Str("multibyte", rng, rep)}}
				for _, gen := range []func(interface{}) string{nil, cqrs.StructName} {
					jm := cqrs.JSONMarshaler{GenerateName: gen}
					msg, err := jm.Marshal(v)
					back := &C16J{}
					ok := err == nil && jm.Unmarshal(msg, back) == nil
					// JSON has no distinction between a nil and an empty byte slice / map: compare up to that
					norm := func(x *C16J) string {
						y := *x
						if len(y.B) == 0 {
							y.B = nil
						}
						return show(y.S) + show(y.B) + show(y.M) + show(y.N) + show(y.F) + show(y.P)
					}
					b := "error"
					if ok {
						b = norm(back)
					}
					r.Emit("rt", "kind", "cqrs-json", "orig", norm(v), "back", b, "nameok", ok && jm.NameFromMessage(msg) == jm.Name(v))
					n++
				}
				{
					f := float64(rng.Intn(100000)) / 8
					dv := &C16Dyn{A: f, M: map[string]any{"n": f + 0.5, "s": s, "in": map[string]any{"k": float64(round), "t": true}}, L: []any{s, f, true, nil, []any{float64(1)}}}
					if round%2 == 1 {
						dv.A = s
					}
					jm := cqrs.JSONMarshaler{}
					msg, err := jm.Marshal(dv)
					back := &C16Dyn{}
					ok := err == nil && jm.Unmarshal(msg, back) == nil && reflect.DeepEqual(dv, back)
					r.Emit("rt", "kind", "cqrs-json-dynamic", "orig", "v", "back", map[bool]string{true: "v", false: "different"}[ok], "nameok", err == nil && jm.NameFromMessage(msg) == jm.Name(dv))
					n++
				}
				pv := wrapperspb.String(s)
				sv, _ := structpb.NewStruct(map[string]any{"k": s, "n": float64(round), "l": []any{s, true, nil}})
				bv := wrapperspb.Bytes(c16Payload(pc, rng))
				for _, val := range []proto.Message{pv, sv, bv} {
					for _, mk := range []cqrs.CommandEventMarshaler{cqrs.ProtoMarshaler{}, cqrs.ProtobufMarshaler{}} {
						msg, err := mk.Marshal(val)
						back := reflect.New(reflect.TypeOf(val).Elem()).Interface().(proto.Message)
						ok := err == nil && mk.Unmarshal(msg, back) == nil && proto.Equal(val, back)
						r.Emit("rt", "kind", fmt.Sprintf("cqrs-proto/%T", mk), "orig", "v", "back", map[bool]string{true: "v", false: "different"}[ok], "nameok", err == nil && mk.NameFromMessage(msg) == mk.Name(val))
						n++
						// ... and into a value that is not fresh: what it held before is gone afterwards (proto.Unmarshal resets its target)
						tn := fmt.Sprintf("%T", val)
						if used := protoUsed[tn]; used != nil {
							ok := err == nil && mk.Unmarshal(msg, used) == nil && proto.Equal(val, used)
							r.Emit("rt", "kind", fmt.Sprintf("cqrs-proto-used-target/%T", mk), "orig", "v", "back", map[bool]string{true: "v", false: "different"}[ok], "nameok", true)
							n++
						}
					}
					protoUsed[fmt.Sprintf("%T", val)] = proto.Clone(val)
				}
				// a value that was marshaled before and whose nested part has changed since (sizes cached inside the value are stale)
				for _, mk := range []cqrs.CommandEventMarshaler{cqrs.ProtoMarshaler{}, cqrs.ProtobufMarshaler{}} {
					nested, _ := structpb.NewStruct(map[string]any{"inner": map[string]any{"text": s}, "list": []any{s}})
					_, _ = mk.Marshal(nested)
					_ = proto.Size(nested)
					nested.Fields["inner"].GetStructValue().Fields["text"] = structpb.NewStringValue(s + "-grown-after-the-first-marshal")
					nested.Fields["list"].GetListValue().Values = append(nested.Fields["list"].GetListValue().Values, structpb.NewNumberValue(float64(round)))
					msg, err := mk.Marshal(nested)
					back := &structpb.Struct{}
					ok := err == nil && mk.Unmarshal(msg, back) == nil && proto.Equal(nested, back)
					r.Emit("rt", "kind", fmt.Sprintf("cqrs-proto-remarshal/%T", mk), "orig", "v", "back", map[bool]string{true: "v", false: "different"}[ok], "nameok", err == nil && mk.NameFromMessage(msg) == mk.Name(nested))
					n++
				}
				{
					// a type that names its values itself (NamedStruct): the name in the message is THIS value's name
					nv := &C16Named{Kind: "kind-" + s, X: round}
					nm2 := cqrs.JSONMarshaler{GenerateName: cqrs.NamedStruct(cqrs.StructName)}
					msg, err := nm2.Marshal(nv)
					back := &C16Named{}
					ok := err == nil && nm2.Unmarshal(msg, back) == nil && *back == *nv
					r.Emit("rt", "kind", "cqrs-json-named", "orig", "v", "back", map[bool]string{true: "v", false: "different"}[ok],
						"nameok", err == nil && nm2.NameFromMessage(msg) == nv.Name() && nm2.Name(nv) == nv.Name())
					n++
				}
				gv := &gogotypes.StringValue{Value: s}
				gm := cqrs.ProtobufMarshaler{}
				msg, err := gm.Marshal(gv)
				gback := &gogotypes.StringValue{}
				ok := err == nil && gm.Unmarshal(msg, gback) == nil && gback.Value == gv.Value
				r.Emit("rt", "kind", "cqrs-gogo", "orig", "v", "back", map[bool]string{true: "v", false: "different"}[ok], "nameok", err == nil && gm.NameFromMessage(msg) == gm.Name(gv))
				n++
				// request-reply replies: result and error text
				rm := requestreply.BackendPubsubJSONMarshaler[C16J]{}
				for ei, et := range []string{"none", c16Str(c16StrClasses[(round+1)%5], rng, rep), "", "wrapped", strings.Repeat("a long error text é世 / ", 60+rng.Intn(200))} { // (an error whose text is empty is an error)
					var herr error
					if et != "none" {
						herr = errors.New(et)
					}
					if ei == 3 {
						// an error with context added by a wrapper: the text is the whole text, not that of the innermost cause
						herr = pkgerrors.WithMessage(pkgerrors.Wrap(errors.New("cause "+c16Str("a", rng, rep)), "middle"), "outer")
						et = herr.Error()
					}
					v2 := *v
					v2.P = nil
					rmsg, err := rm.MarshalReply(requestreply.BackendOnCommandProcessedParams[C16J]{HandlerResult: v2, HandleErr: herr})
					b := "error"
					if err == nil {
						rep2, e2 := rm.UnmarshalReply(rmsg)
						if e2 == nil {
							etb := "none"
							if rep2.Error != nil {
								etb = rep2.Error.Error()
							}
							y := rep2.HandlerResult
							if len(y.B) == 0 {
								y.B = nil
							}
							b = show(y.S) + show(y.B) + show(y.M) + show(y.N) + show(y.F) + "|" + etb
						}
					}
					y := v2
					if len(y.B) == 0 {
						y.B = nil
					}
					r.Emit("rt", "kind", "reply", "orig", show(y.S)+show(y.B)+show(y.M)+show(y.N)+show(y.F)+"|"+et, "back", b, "nameok", true)
					n++
				}
			}
		}
	}
	return n
}
