package props

import (
	"context"
	"fmt"
	"github.com/ThreeDotsLabs/watermill/message"
	"github.com/ThreeDotsLabs/watermill/pubsub/gochannel"
	"math/rand"
	"strings"
	"sync"
	"sync/atomic"
	"time"

	"wmverif/sched"
	"wmverif/tr"
)

func init() {
	Registry["C04"] = func(c *Ctx) error {
		gcPingPong(c)
		return gcDrive(c, gcScenariosC04(c))
	}
	Registry["C05"] = func(c *Ctx) error { return gcDrive(c, gcScenariosC05(c)) }
	Registry["C07"] = func(c *Ctx) error {
		// the subscriber decorator on its own, at the grain of its goroutines (spec/SubDecorator.tla): in these runs Close comes
		// only after every cancelled subscription's output channel was closed -- a cancel completes without anybody's help
		TD := c.Trace("SubDecoratorTrace")
		n := c.Pick(90, 3000)
		druns := make([]*tr.Run, n)
		for i := range druns {
			druns[i] = TD.NewRun("decorator-conformance", nil)
			druns[i].Key = fmt.Sprintf("decorator-conformance/%d", i)
		}
		Parallel(n, func(i int) { subdecRun(druns[i], c.SubRng(5000+i), i%3 != 2) })
		c.AddStat("decorator_conformance_runs", n)
		{
			hr := TD.NewRun("close-abreast-hammer", nil)
			hr.Key = "close-abreast-hammer"
			subdecCloseHammer(hr, c.Pick(1500, 40000), false)
		}
		subdecReplayAll(c, TD)
		return gcDrive(c, gcScenariosC07(c))
	}
	Registry["C11"] = func(c *Ctx) error { return gcDrive(c, gcScenariosC11(c)) }
}

func gcDrive(c *Ctx, scs []gcScenario) error {
	// internal-trace conformance of the implementation-shaped model (GoChannelImplTrace.tla)
	gcConformance(c, c.Pick(12, 240))
	gcReplayAll(c) // ... and in the other direction: TLC-generated gate schedules replayed against the real code
	T := c.Trace("GoChannelTrace")
	runs := make([]*tr.Run, len(scs))
	for i, sc := range scs {
		runs[i] = T.NewRun(sc.Class, map[string]any{"persistent": sc.Persistent, "blocking": sc.Blocking, "buffer": sc.Buffer})
		runs[i].Key = fmt.Sprintf("%+v|%+v", sc, sc.Gate)
	}
	sched.SetYield(150)
	var gates, gated int64
	Parallel(len(scs), func(i int) {
		if c.Only != "" && !strings.HasPrefix(scs[i].Class, c.Only) {
			return
		}
		reached := gcRun(runs[i], scs[i], c.SubRng(i))
		if scs[i].Gate != nil {
			atomic.AddInt64(&gates, 1)
			if reached {
				atomic.AddInt64(&gated, 1)
				runs[i].NonTrivial = true
			}
		} else {
			runs[i].NonTrivial = len(scs[i].Pubs) > 0 && len(scs[i].Subs) > 0
		}
	})
	sched.SetYield(0)
	c.AddStat("scenarios", len(scs))
	c.AddStat("gated_scenarios", int(gates))
	c.AddStat("gates_reached", int(gated))
	return nil
}

func gcCfgName(p, b bool, buf int) string {
	s := ""
	if p {
		s += "persistent"
	} else {
		s += "volatile"
	}
	if b {
		s += "+blocking"
	}
	return fmt.Sprintf("%s+buf%d", s, buf)
}

func gcRandomProgram(rng *rand.Rand, persistent, blocking bool, class string) gcScenario {
	behavs := []string{"ack", "ack", "nack1", "nack2", "mutate", "slow"}
	sc := gcScenario{Class: class + "/" + gcCfgName(persistent, blocking, 0), Persistent: persistent, Blocking: blocking, Buffer: rng.Intn(4)}
	sc.Class = class + "/" + gcCfgName(persistent, blocking, sc.Buffer)
	topics := []string{"t1", "t2"}
	ns := 1 + rng.Intn(3)
	for i := 0; i < ns; i++ {
		ph := rng.Intn(3)
		if !persistent && ph == 2 {
			ph = 0
		}
		sc.Subs = append(sc.Subs, gcSub{Name: fmt.Sprintf("s%d", i+1), Topic: topics[rng.Intn(2)], Behav: behavs[rng.Intn(len(behavs))], Phase: ph})
	}
	np := 1 + rng.Intn(3)
	for i := 0; i < np; i++ {
		sc.Pubs = append(sc.Pubs, gcPub{Name: fmt.Sprintf("p%d", i+1), Topic: topics[rng.Intn(2)], N: 1 + rng.Intn(3), Batch: rng.Intn(5) == 0})
	}
	return sc
}

// ---------------------------------------------------------------- C04
func gcScenariosC04(c *Ctx) []gcScenario {
	var scs []gcScenario
	// small configurations exhaustively: config x consumer behaviour pair x subscribe phase
	for _, buf := range []int{0, 1} {
		for _, per := range []bool{false, true} {
			for _, blk := range []bool{false, true} {
				for _, b1 := range []string{"ack", "nack1", "mutate"} {
					for _, b2 := range []string{"ack", "nack2", "slow"} {
						for _, ph := range []int{0, 1} {
							scs = append(scs, gcScenario{Class: "small/" + gcCfgName(per, blk, buf), Persistent: per, Blocking: blk, Buffer: buf,
								Subs: []gcSub{{Name: "s1", Topic: "t1", Behav: b1}, {Name: "s2", Topic: "t1", Behav: b2, Phase: ph}, {Name: "s3", Topic: "t2", Behav: "ack"}},
								Pubs: []gcPub{{Name: "p1", Topic: "t1", N: 2}, {Name: "p2", Topic: "t2", N: 1}}})
						}
					}
				}
			}
		}
	}
	// the context the PUBLISHER gave its message is over (cancelled, deadline passed): the deliveries live by the Subscribe contexts
	for _, per := range []bool{false, true} {
		for _, blk := range []bool{false, true} {
			scs = append(scs, gcScenario{Class: "publisher-ctx-over/" + gcCfgName(per, blk, 1), Persistent: per, Blocking: blk, Buffer: 1,
				Subs: []gcSub{{Name: "s1", Topic: "t1", Behav: "nack1"}, {Name: "s2", Topic: "t1", Behav: "slow"}, {Name: "s3", Topic: "t1", Behav: "ack", Phase: 2}},
				Pubs: []gcPub{{Name: "p1", Topic: "t1", N: 2, DeadCtx: true}, {Name: "p2", Topic: "t1", N: 2, Batch: true, DeadCtx: true}}})
		}
	}
	// topic names are arbitrary strings: names that differ in surrounding white space are different topics
	for _, per := range []bool{false, true} {
		scs = append(scs, gcScenario{Class: "whitespace-topics/" + gcCfgName(per, false, 1), Persistent: per, Buffer: 1,
			Subs: []gcSub{{Name: "s1", Topic: "t1", Behav: "ack"}, {Name: "s2", Topic: "t1 ", Behav: "ack"}, {Name: "s3", Topic: " t1", Behav: "nack1"}, {Name: "s4", Topic: "t1\n", Behav: "ack", Phase: 2}},
			Pubs: []gcPub{{Name: "p1", Topic: "t1", N: 2}, {Name: "p2", Topic: "t1 ", N: 2}, {Name: "p3", Topic: " t1", N: 1}, {Name: "p4", Topic: "t1\n", N: 1}, {Name: "p5", Topic: "\tt1", N: 1}}})
	}
	// the only subscription of a topic is cancelled and the topic is subscribed again while the old subscription is being taken
	// out: the new one is a subscription like any other -- it gets what is published afterwards
	for _, per := range []bool{false, true} {
		for _, blk := range []bool{false, true} {
			for _, pt := range []string{"gochannel.unsubscribe.before_remove", "gochannel.unsubscribe.before_lock", "gochannel.sub.close.closed"} {
				scs = append(scs, gcScenario{Class: "resubscribe-last/" + pt + "/" + gcCfgName(per, blk, 0), Persistent: per, Blocking: blk, Buffer: 0,
					Subs: []gcSub{{Name: "s1", Topic: "t1", Behav: "ack"}, {Name: "s2", Topic: "t2", Behav: "ack", CancelAt: 1}},
					Pubs: []gcPub{{Name: "p1", Topic: "t1", N: 2}, {Name: "p2", Topic: "t2", N: 2, Late: true}},
					Gate: &gcGate{Point: pt, ID: "s:s2", Event: "subscribe:t2"}})
			}
		}
	}
	// subscriptions made with a context that can never be cancelled: every delivery still has a context of its own that ends with its Ack
	for _, per := range []bool{false, true} {
		for _, blk := range []bool{false, true} {
			scs = append(scs, gcScenario{Class: "uncancellable-subscribe-ctx/" + gcCfgName(per, blk, 0), Persistent: per, Blocking: blk, Buffer: 0,
				Subs: []gcSub{{Name: "s1", Topic: "t1", Behav: "nack1", BgCtx: true}, {Name: "s2", Topic: "t1", Behav: "ack", BgCtx: true, Phase: 1}},
				Pubs: []gcPub{{Name: "p1", Topic: "t1", N: 2}}})
		}
	}
	// messages published with an empty UUID arrive with an empty UUID (every delivery, every redelivery, every replay)
	for _, per := range []bool{false, true} {
		for _, blk := range []bool{false, true} {
			scs = append(scs, gcScenario{Class: "empty-uuid/" + gcCfgName(per, blk, 1), Persistent: per, Blocking: blk, Buffer: 1, EmptyUUID: true,
				Subs: []gcSub{{Name: "s1", Topic: "t1", Behav: "nack1"}, {Name: "s2", Topic: "t1", Behav: "ack"}, {Name: "s3", Topic: "t1", Behav: "ack", Phase: 2}},
				Pubs: []gcPub{{Name: "p1", Topic: "t1", N: 2}, {Name: "p2", Topic: "t1", N: 2, Batch: true}}})
		}
	}
	// messages without metadata: what one subscriber writes into its copy is its own business
	for _, per := range []bool{false, true} {
		for _, blk := range []bool{false, true} {
			scs = append(scs, gcScenario{Class: "no-metadata/" + gcCfgName(per, blk, 1), Persistent: per, Blocking: blk, Buffer: 1, NoMeta: true,
				Subs: []gcSub{{Name: "s1", Topic: "t1", Behav: "mutate"}, {Name: "s2", Topic: "t1", Behav: "nack1"}, {Name: "s3", Topic: "t1", Behav: "ack", Phase: 2}},
				Pubs: []gcPub{{Name: "p1", Topic: "t1", N: 2}}})
		}
	}
	// forced Publish/Subscribe overlaps
	for _, per := range []bool{false, true} {
		for _, pt := range []string{"gochannel.publish.after_closed_check", "gochannel.publish.rlocked", "gochannel.publish.locked", "gochannel.publish.persisted", "gochannel.publish.sent", "gochannel.publish.unlock"} {
			if !per && pt == "gochannel.publish.persisted" {
				continue
			}
			scs = append(scs, gcScenario{Class: "overlap/" + pt, Persistent: per, Buffer: 1,
				Subs: []gcSub{{Name: "s1", Topic: "t1", Behav: "ack"}},
				Pubs: []gcPub{{Name: "p1", Topic: "t1", N: 2}},
				Gate: &gcGate{Point: pt, ID: "m:1", Event: "subscribe:t1"}})
		}
		for _, pt := range []string{"gochannel.subscribe.closed_checked", "gochannel.subscribe.locked", "gochannel.subscribe.replay", "gochannel.subscribe.registered"} {
			if !per && pt == "gochannel.subscribe.replay" {
				continue
			}
			scs = append(scs, gcScenario{Class: "overlap/" + pt, Persistent: per, Buffer: 0,
				Subs: []gcSub{{Name: "s1", Topic: "t1", Behav: "ack"}, {Name: "s2", Topic: "t1", Behav: "nack1", Phase: 1}},
				Pubs: []gcPub{{Name: "p1", Topic: "t1", N: 1}},
				Gate: &gcGate{Point: pt, ID: "s:s2", Event: "publish:t1"}})
		}
	}
	// the FIRST subscription of a topic arrives while a Publish that found nobody is inside its critical section; later publishes must reach it
	for _, per := range []bool{false, true} {
		for _, pt := range []string{"gochannel.publish.after_closed_check", "gochannel.publish.rlocked", "gochannel.publish.locked", "gochannel.publish.sent", "gochannel.publish.unlock"} {
			scs = append(scs, gcScenario{Class: "overlap-first-subscriber/" + pt, Persistent: per, Buffer: 1,
				Pubs: []gcPub{{Name: "p1", Topic: "t1", N: 3}},
				Gate: &gcGate{Point: pt, ID: "m:1", Event: "subscribe:t1"}})
		}
	}
	// more than 64 subscriptions of which the first 64 never settle: the others are served all the same
	for _, per := range []bool{false, true} {
		sc := gcScenario{Class: "wide-fanout", Persistent: per, Buffer: 0}
		for k := 0; k < 70; k++ {
			b := "neverack"
			if k >= 64 {
				b = "ack"
			}
			sc.Subs = append(sc.Subs, gcSub{Name: fmt.Sprintf("s%d", k+1), Topic: "t1", Behav: b})
		}
		sc.Pubs = []gcPub{{Name: "p1", Topic: "t1", N: 2}}
		scs = append(scs, sc)
	}
	// a late subscription that stalls on the second message of the replayed backlog: the first delivery's context ends with its Ack all the same
	for _, buf := range []int{0, 2} {
		scs = append(scs, gcScenario{Class: "replay-stall", Persistent: true, Buffer: buf,
			Subs: []gcSub{{Name: "s1", Topic: "t1", Behav: "stall2", Phase: 2}},
			Pubs: []gcPub{{Name: "p1", Topic: "t1", N: 3}}})
		scs = append(scs, gcScenario{Class: "live-stall", Persistent: buf == 0, Buffer: buf,
			Subs: []gcSub{{Name: "s1", Topic: "t1", Behav: "stall2"}},
			Pubs: []gcPub{{Name: "p1", Topic: "t1", N: 3}}})
	}
	// a Subscribe that lands between two messages of one multi-message Publish
	for _, blk := range []bool{false, true} {
		for _, pt := range []string{"gochannel.publish.rlocked", "gochannel.publish.locked", "gochannel.publish.persisted", "gochannel.publish.sent"} {
			for _, id := range []string{"m:1", "m:2"} {
				scs = append(scs, gcScenario{Class: "overlap-batch/" + pt, Persistent: true, Blocking: blk, Buffer: 1,
					Subs: []gcSub{{Name: "s1", Topic: "t1", Behav: "ack"}},
					Pubs: []gcPub{{Name: "p1", Topic: "t1", N: 3, Batch: true}},
					Gate: &gcGate{Point: pt, ID: id, Event: "subscribe:t1"}})
			}
		}
		scs = append(scs, gcScenario{Class: "batch-subscribe", Persistent: true, Blocking: blk, Buffer: 0,
			Subs: []gcSub{{Name: "s1", Topic: "t1", Behav: "slow"}, {Name: "s2", Topic: "t1", Behav: "ack", Phase: 1}, {Name: "s3", Topic: "t1", Behav: "ack", Phase: 1}},
			Pubs: []gcPub{{Name: "p1", Topic: "t1", N: 4, Batch: true}}})
	}
	// fan-out to many subscriptions while some of them are cancelled: the others must not be affected
	for i := 0; i < c.Pick(12, 150); i++ {
		sc := gcScenario{Class: "fanout-unsubscribe", Persistent: i%3 == 0, Blocking: i%4 == 1, Buffer: i % 2}
		for k := 0; k < 14; k++ {
			sb := gcSub{Name: fmt.Sprintf("s%d", k+1), Topic: "t1", Behav: "ack"}
			if k < 4 {
				sb.CancelAt = 1
			}
			sc.Subs = append(sc.Subs, sb)
		}
		sc.Pubs = []gcPub{{Name: "p1", Topic: "t1", N: 4}, {Name: "p2", Topic: "t1", N: 4}}
		scs = append(scs, sc)
	}
	n := c.Pick(80, 2500)
	for i := 0; i < n; i++ {
		scs = append(scs, gcRandomProgram(c.Rng, c.Rng.Intn(2) == 0, c.Rng.Intn(3) == 0, "random"))
	}
	return scs
}

// ---------------------------------------------------------------- C05
func gcScenariosC05(c *Ctx) []gcScenario {
	var scs []gcScenario
	for _, per := range []bool{false, true} {
		for _, buf := range []int{0, 1, 5} {
			// several publishers against one subscription: receipts must alternate with settlements
			for _, b := range []string{"slow", "nack2", "mutate", "peek"} {
				scs = append(scs, gcScenario{Class: "one-inflight/" + gcCfgName(per, false, buf), Persistent: per, Buffer: buf,
					Subs: []gcSub{{Name: "s1", Topic: "t1", Behav: b}, {Name: "s2", Topic: "t1", Behav: "ack", Phase: 1}},
					Pubs: []gcPub{{Name: "p1", Topic: "t1", N: 3}, {Name: "p2", Topic: "t1", N: 3}, {Name: "p3", Topic: "t1", N: 2, Batch: true}}})
			}
			// blocking publish: returns only after the acks; per-publisher order
			for _, b := range []string{"ack", "nack1", "slow"} {
				scs = append(scs, gcScenario{Class: "blocking/" + gcCfgName(per, true, buf), Persistent: per, Blocking: true, Buffer: buf,
					Subs: []gcSub{{Name: "s1", Topic: "t1", Behav: b}, {Name: "s2", Topic: "t1", Behav: "ack"}},
					Pubs: []gcPub{{Name: "p1", Topic: "t1", N: 3}, {Name: "p2", Topic: "t1", N: 2}}})
			}
			// the context of the PUBLISHED message is of no concern to the Pub/Sub: a blocking Publish waits for the acks all the same
			scs = append(scs, gcScenario{Class: "blocking-dead-publish-ctx/" + gcCfgName(per, true, buf), Persistent: per, Blocking: true, Buffer: buf,
				Subs: []gcSub{{Name: "s1", Topic: "t1", Behav: "slow"}, {Name: "s2", Topic: "t1", Behav: "nack1"}},
				Pubs: []gcPub{{Name: "p1", Topic: "t1", N: 3, DeadCtx: true}, {Name: "p2", Topic: "t1", N: 2, Batch: true, DeadCtx: true}}})
			// one blocking Publish call with several messages: handed over one after the other
			for _, b := range []string{"ack", "nack1", "slow"} {
				scs = append(scs, gcScenario{Class: "blocking-batch/" + gcCfgName(per, true, buf), Persistent: per, Blocking: true, Buffer: buf,
					Subs: []gcSub{{Name: "s1", Topic: "t1", Behav: b}, {Name: "s2", Topic: "t1", Behav: "ack"}},
					Pubs: []gcPub{{Name: "p1", Topic: "t1", N: 5, Batch: true}, {Name: "p2", Topic: "t1", N: 3, Batch: true}}})
			}
			// blocking publish against a consumer that never acks: released by cancel / by Close
			scs = append(scs, gcScenario{Class: "blocking-neverack-cancel/" + gcCfgName(per, true, buf), Persistent: per, Blocking: true, Buffer: buf,
				Subs: []gcSub{{Name: "s1", Topic: "t1", Behav: "neverack", CancelAt: 2}},
				Pubs: []gcPub{{Name: "p1", Topic: "t1", N: 1}}})
			scs = append(scs, gcScenario{Class: "blocking-neverack-close/" + gcCfgName(per, true, buf), Persistent: per, Blocking: true, Buffer: buf,
				Subs: []gcSub{{Name: "s1", Topic: "t1", Behav: "neverack"}, {Name: "s2", Topic: "t1", Behav: "ack"}},
				Pubs: []gcPub{{Name: "p1", Topic: "t1", N: 1}}})
			// subscriptions come and go while a blocking publish is waiting
			scs = append(scs, gcScenario{Class: "blocking-subs-come-and-go/" + gcCfgName(per, true, buf), Persistent: per, Blocking: true, Buffer: buf,
				Subs: []gcSub{{Name: "s1", Topic: "t1", Behav: "slow"}, {Name: "s2", Topic: "t1", Behav: "ack", Phase: 1}, {Name: "s3", Topic: "t2", Behav: "ack", Phase: 1, CancelAt: 1}},
				Pubs: []gcPub{{Name: "p1", Topic: "t1", N: 3}}})
			// the consumer publishes to another topic of the same Pub/Sub before acking
			scs = append(scs, gcScenario{Class: "blocking-republish/" + gcCfgName(per, true, buf), Persistent: per, Blocking: true, Buffer: buf,
				Subs: []gcSub{{Name: "s1", Topic: "t1", Behav: "republish:t2"}, {Name: "s2", Topic: "t2", Behav: "ack"}},
				Pubs: []gcPub{{Name: "p1", Topic: "t1", N: 2}}})
			// ... while a Subscribe call arrives (writer pending on the subscribers lock)
			scs = append(scs, gcScenario{Class: "blocking-republish-pending-subscribe/" + gcCfgName(per, true, buf), Persistent: per, Blocking: true, Buffer: buf,
				Subs: []gcSub{{Name: "s1", Topic: "t1", Behav: "republish:t2"}, {Name: "s2", Topic: "t2", Behav: "ack"}},
				Pubs: []gcPub{{Name: "p1", Topic: "t1", N: 1}},
				Gate: &gcGate{Point: "gochannel.send.wait_settle", ID: "m:1", Event: "subscribe:t2"}})
			// ... the same while the Publish call that waits is one of several messages
			scs = append(scs, gcScenario{Class: "blocking-republish-pending-subscribe-batch/" + gcCfgName(per, true, buf), Persistent: per, Blocking: true, Buffer: buf,
				Subs: []gcSub{{Name: "s1", Topic: "t1", Behav: "republish:t2"}, {Name: "s2", Topic: "t2", Behav: "ack"}},
				Pubs: []gcPub{{Name: "p1", Topic: "t1", N: 2, Batch: true}},
				Gate: &gcGate{Point: "gochannel.send.wait_settle", ID: "m:1", Event: "subscribe:t2"}})
			// ... or a Subscribe to the very topic whose blocking Publish is waiting for that ack
			scs = append(scs, gcScenario{Class: "blocking-republish-pending-subscribe-same-topic/" + gcCfgName(per, true, buf), Persistent: per, Blocking: true, Buffer: buf,
				Subs: []gcSub{{Name: "s1", Topic: "t1", Behav: "republish:t2"}, {Name: "s2", Topic: "t2", Behav: "ack"}},
				Pubs: []gcPub{{Name: "p1", Topic: "t1", N: 1}},
				Gate: &gcGate{Point: "gochannel.send.wait_settle", ID: "m:1", Event: "subscribe:t1"}})
		}
	}
	// a message is still waiting to be RECEIVED (the consumer does not look at its channel) when that subscription is cancelled:
	// the blocking Publish returns, the other subscription is served
	for _, buf := range []int{0, 1} {
		for _, per := range []bool{false, true} {
			scs = append(scs, gcScenario{Class: "cancel-unreceived/" + gcCfgName(per, true, buf), Persistent: per, Blocking: true, Buffer: buf,
				Subs: []gcSub{{Name: "s1", Topic: "t1", Behav: "noread", CancelAt: 2}, {Name: "s2", Topic: "t1", Behav: "ack"}},
				Pubs: []gcPub{{Name: "p1", Topic: "t1", N: 3}}})
		}
	}
	// blocking fan-out to many subscriptions while some of them are cancelled: Publish still waits for all the others
	for i := 0; i < c.Pick(10, 150); i++ {
		sc := gcScenario{Class: "blocking-fanout-unsubscribe", Persistent: i%3 == 0, Blocking: true, Buffer: i % 2}
		for k := 0; k < 12; k++ {
			sb := gcSub{Name: fmt.Sprintf("s%d", k+1), Topic: "t1", Behav: "ack"}
			if k < 5 {
				sb.CancelAt = 1
			}
			sc.Subs = append(sc.Subs, sb)
		}
		sc.Pubs = []gcPub{{Name: "p1", Topic: "t1", N: 4}, {Name: "p2", Topic: "t1", N: 4}, {Name: "p3", Topic: "t1", N: 4}}
		scs = append(scs, sc)
	}
	n := c.Pick(60, 2000)
	for i := 0; i < n; i++ {
		scs = append(scs, gcRandomProgram(c.Rng, c.Rng.Intn(2) == 0, c.Rng.Intn(2) == 0, "random"))
	}
	return scs
}

// ---------------------------------------------------------------- C07
var gcPubPoints = []string{"gochannel.publish.after_closed_check", "gochannel.publish.rlocked", "gochannel.publish.locked", "gochannel.publish.persisted",
	"gochannel.publish.sent", "gochannel.publish.wait_ack", "gochannel.publish.unlock"}
var gcSendPoints = []string{"gochannel.send.locked", "gochannel.send.before_chan", "gochannel.send.wait_settle"}
var gcSubPoints = []string{"gochannel.subscribe.closed_checked", "gochannel.subscribe.locked", "gochannel.subscribe.replay", "gochannel.subscribe.registered",
	"gochannel.teardown.woken", "gochannel.sub.close.before_lock", "gochannel.sub.close.closed", "gochannel.unsubscribe.before_lock", "gochannel.unsubscribe.before_remove"}

func gcScenariosC07(c *Ctx) []gcScenario {
	var scs []gcScenario
	cfgs := []struct{ per, blk bool }{{false, false}, {true, false}}
	decs := []int{0, 1}
	if c.Thorough() {
		cfgs = append(cfgs, struct{ per, blk bool }{false, true}, struct{ per, blk bool }{true, true})
		decs = []int{0, 1, 2}
	}
	events := []string{"close", "close2", "cancel:s1", "cancel:s2", "publish:t1", "subscribe:t1"}
	for _, cf := range cfgs {
		for _, d := range decs {
			base := func(gate *gcGate, cancelS2 bool) gcScenario {
				sc := gcScenario{Class: fmt.Sprintf("pair/%s/%s/dec%d", gate.Point, gate.Event, d), Persistent: cf.per, Blocking: cf.blk, Buffer: 0,
					Subs: []gcSub{{Name: "s1", Topic: "t1", Behav: "nack1", Decorators: d}, {Name: "s2", Topic: "t1", Behav: "ack", Phase: 1, Decorators: d}},
					Pubs: []gcPub{{Name: "p1", Topic: "t1", N: 2}}, Gate: gate}
				if cancelS2 {
					sc.Subs[1].CancelAt = 1
				}
				return sc
			}
			for _, ev := range events {
				for _, pt := range gcPubPoints {
					if (!cf.per && pt == "gochannel.publish.persisted") || (!cf.blk && pt == "gochannel.publish.wait_ack") {
						continue
					}
					scs = append(scs, base(&gcGate{Point: pt, ID: "m:1", Event: ev}, false))
				}
				for _, pt := range gcSendPoints {
					scs = append(scs, base(&gcGate{Point: pt, ID: "m:1", Event: ev}, false))
				}
				for _, pt := range gcSubPoints {
					if !cf.per && pt == "gochannel.subscribe.replay" {
						continue
					}
					// tear-down points of s2 are reached because s2 is cancelled in phase 1
					scs = append(scs, base(&gcGate{Point: pt, ID: "s:s2", Event: ev}, true))
				}
			}
			// a forwarding goroutine of the decorator is parked (about to hand a message over / about to finish) while two Close calls
			// overlap: neither returns before every output channel is closed
			if d > 0 {
				for _, g := range []gcGate{{Point: "decorator.sub.before_out", ID: "m:1", Event: "closepair"},
					{Point: "decorator.sub.before_out", ID: "m:2", Event: "closepair"}} {
					g := g
					sc := base(&g, false)
					sc.Subs[0].Behav = "ack"
					scs = append(scs, sc)
				}
			}
			// a subscription whose context runs into its deadline at the very moment Close is called
			if d == 0 {
				for k := 0; k < 6; k++ {
					scs = append(scs, gcScenario{Class: "deadline-at-close/" + gcCfgName(cf.per, cf.blk, k%2), Persistent: cf.per, Blocking: cf.blk, Buffer: k % 2,
						Subs: []gcSub{{Name: "s1", Topic: "t1", Behav: "ack"}, {Name: "s2", Topic: "t1", Behav: "ack", Deadline: true, CancelAt: 3}, {Name: "s3", Topic: "t2", Behav: "ack", Deadline: true}},
						Pubs: []gcPub{{Name: "p1", Topic: "t1", N: 2}}})
				}
			}
			// a subscription whose context ends by its deadline, its tear-down parked while Close arrives
			if d == 0 {
				for _, pt := range []string{"gochannel.teardown.woken", "gochannel.sub.close.before_lock", "gochannel.unsubscribe.before_lock"} {
					for _, ev := range []string{"close", "close2"} {
						g := gcGate{Point: pt, ID: "s:s2", Event: ev}
						sc := base(&g, true)
						sc.Class = "deadline-ctx/" + sc.Class
						sc.Subs[1].Deadline = true
						scs = append(scs, sc)
					}
				}
			}
			// a subscription made with a context that cannot be cancelled, parked inside Subscribe while Close / a second Close / a Publish arrives
			if d == 0 {
				for _, ev := range []string{"close", "close2", "publish:t1"} {
					for _, pt := range []string{"gochannel.subscribe.closed_checked", "gochannel.subscribe.locked", "gochannel.subscribe.registered"} {
						sc := gcScenario{Class: fmt.Sprintf("pair-bgctx/%s/%s", pt, ev), Persistent: cf.per, Blocking: cf.blk, Buffer: 0,
							Subs: []gcSub{{Name: "s1", Topic: "t1", Behav: "ack", BgCtx: true}, {Name: "s2", Topic: "t1", Behav: "ack", Phase: 1, BgCtx: true}},
							Pubs: []gcPub{{Name: "p1", Topic: "t1", N: 2}}, Gate: &gcGate{Point: pt, ID: "s:s2", Event: ev}}
						scs = append(scs, sc)
					}
				}
			}
			// an unread channel, an unsettled message: the consumer stops reading
			for _, buf := range []int{0, 2} {
				scs = append(scs, gcScenario{Class: fmt.Sprintf("unread/%s/dec%d", gcCfgName(cf.per, cf.blk, buf), d), Persistent: cf.per, Blocking: cf.blk, Buffer: buf,
					Subs: []gcSub{{Name: "s1", Topic: "t1", Behav: "ack", CancelAfter: 1, StopReading: true, Decorators: d}, {Name: "s2", Topic: "t1", Behav: "neverack", Decorators: d}},
					Pubs: []gcPub{{Name: "p1", Topic: "t1", N: 3}}, Closers: 2})
				scs = append(scs, gcScenario{Class: fmt.Sprintf("cancel-mid-stream/%s/dec%d", gcCfgName(cf.per, cf.blk, buf), d), Persistent: cf.per, Blocking: cf.blk, Buffer: buf,
					Subs: []gcSub{{Name: "s1", Topic: "t1", Behav: "nack2", CancelAfter: 2, Decorators: d}, {Name: "s2", Topic: "t1", Behav: "ack", Decorators: d}},
					Pubs: []gcPub{{Name: "p1", Topic: "t1", N: 3}, {Name: "p2", Topic: "t1", N: 2}}, CloseAt: 1, Closers: 2})
			}
		}
	}
	// a multi-message Publish in blocking mode is waiting for the ack of a subscription that never acks; that subscription is
	// cancelled: the call goes on with the remaining messages, the other subscription gets them all
	for _, per := range []bool{false, true} {
		for _, d := range []int{0, 1} {
			scs = append(scs, gcScenario{Class: fmt.Sprintf("blocking-batch-cancel/%s/dec%d", gcCfgName(per, true, 0), d), Persistent: per, Blocking: true, Buffer: 0,
				Subs: []gcSub{{Name: "s1", Topic: "t1", Behav: "neverack", CancelAt: 2, Decorators: d}, {Name: "s2", Topic: "t1", Behav: "ack", Decorators: d}},
				Pubs: []gcPub{{Name: "p1", Topic: "t1", N: 3, Batch: true}}})
		}
	}
	// ... and while it waits (its consumer publishes to another topic before it acks) a Subscribe or a cancel arrives
	for _, ev := range []string{"subscribe:t2", "cancel:s3"} {
		scs = append(scs, gcScenario{Class: "blocking-batch-republish/" + ev, Blocking: true, Buffer: 0,
			Subs: []gcSub{{Name: "s1", Topic: "t1", Behav: "republish:t2"}, {Name: "s2", Topic: "t2", Behav: "ack"}, {Name: "s3", Topic: "t3", Behav: "ack"}},
			Pubs: []gcPub{{Name: "p1", Topic: "t1", N: 2, Batch: true}},
			Gate: &gcGate{Point: "gochannel.send.wait_settle", ID: "m:1", Event: ev}})
	}
	// several subscriptions through ONE decorator object: cancelling one of them concerns that one only
	for i := 0; i < c.Pick(6, 60); i++ {
		d := 1 + i%2
		scs = append(scs, gcScenario{Class: "shared-decorator", Persistent: i%3 == 0, Buffer: i % 2, SharedDec: true, Closers: 1,
			Subs: []gcSub{{Name: "s1", Topic: "t1", Behav: "ack", CancelAfter: 1, StopReading: i%2 == 0, Decorators: d}, {Name: "s2", Topic: "t1", Behav: "nack1", Decorators: d},
				{Name: "s3", Topic: "t1", Behav: "ack", Decorators: d, CancelAt: 2}},
			Pubs: []gcPub{{Name: "p1", Topic: "t1", N: 3}, {Name: "p2", Topic: "t1", N: 2}}})
		scs = append(scs, gcScenario{Class: "shared-decorator", Persistent: i%3 == 1, Buffer: i % 2, SharedDec: true, Closers: 1,
			Subs: []gcSub{{Name: "s1", Topic: "t1", Behav: "ack", Decorators: d}, {Name: "s2", Topic: "t1", Behav: "ack", Decorators: d, CancelAt: 1},
				{Name: "s3", Topic: "t1", Behav: "slow", Decorators: d}},
			Pubs: []gcPub{{Name: "p1", Topic: "t1", N: 4}}})
	}
	// Close while a late subscription is replaying a long persisted backlog
	for i := 0; i < c.Pick(8, 120); i++ {
		scs = append(scs, gcScenario{Class: "close-during-replay", Persistent: true, Buffer: i % 2, CloseAt: 3, Closers: 1,
			Subs: []gcSub{{Name: "s1", Topic: "t1", Behav: "ack", Phase: 2, Decorators: i % 2}, {Name: "s2", Topic: "t1", Behav: "ack", Phase: 2}},
			Pubs: []gcPub{{Name: "p1", Topic: "t1", N: 600 + 100*(i%5)}}})
	}
	n := c.Pick(60, 2000)
	for i := 0; i < n; i++ {
		sc := gcRandomProgram(c.Rng, c.Rng.Intn(2) == 0, c.Rng.Intn(3) == 0, "random-close")
		sc.CloseAt = 1 + c.Rng.Intn(2)
		sc.Closers = 1 + c.Rng.Intn(2)
		for k := range sc.Subs {
			sc.Subs[k].Decorators = c.Rng.Intn(3)
			if c.Rng.Intn(3) == 0 {
				sc.Subs[k].CancelAt = 1 + c.Rng.Intn(2)
				if sc.Subs[k].Phase == 2 {
					sc.Subs[k].CancelAt = 2 // a subscription is cancelled only once it exists
				}
			}
			if c.Rng.Intn(6) == 0 {
				sc.Subs[k].Behav = "neverack"
			}
		}
		scs = append(scs, sc)
	}
	return scs
}

// ---------------------------------------------------------------- C11
func gcScenariosC11(c *Ctx) []gcScenario {
	var scs []gcScenario
	for _, buf := range []int{0, 1, 3} {
		// publishes before, during and after the Subscribe call
		for _, blk := range []bool{false, true} {
			scs = append(scs, gcScenario{Class: "before-during-after/" + gcCfgName(true, blk, buf), Persistent: true, Blocking: blk, Buffer: buf,
				Subs: []gcSub{{Name: "s0", Topic: "t1", Behav: "ack"}, {Name: "s1", Topic: "t1", Behav: "ack", Phase: 1}, {Name: "s2", Topic: "t1", Behav: "ack", Phase: 1}, {Name: "s3", Topic: "t1", Behav: "ack", Phase: 2}},
				Pubs: []gcPub{{Name: "p1", Topic: "t1", N: 3}, {Name: "p2", Topic: "t1", N: 3}, {Name: "p3", Topic: "t1", N: 3, Batch: true}}})
		}
		// forced overlaps between persisting / sending and locking / replaying / registering
		for _, pt := range []string{"gochannel.publish.rlocked", "gochannel.publish.locked", "gochannel.publish.persisted", "gochannel.publish.sent", "gochannel.publish.unlock"} {
			for _, batch := range []bool{false, true} {
				scs = append(scs, gcScenario{Class: "overlap/" + pt, Persistent: true, Buffer: buf,
					Subs: []gcSub{{Name: "s1", Topic: "t1", Behav: "ack"}},
					Pubs: []gcPub{{Name: "p1", Topic: "t1", N: 3, Batch: batch}},
					Gate: &gcGate{Point: pt, ID: "m:1", Event: "subscribe:t1"}})
			}
		}
		for _, pt := range []string{"gochannel.subscribe.closed_checked", "gochannel.subscribe.locked", "gochannel.subscribe.replay", "gochannel.subscribe.registered"} {
			scs = append(scs, gcScenario{Class: "overlap/" + pt, Persistent: true, Buffer: buf,
				Subs: []gcSub{{Name: "s1", Topic: "t1", Behav: "ack"}, {Name: "s2", Topic: "t1", Behav: "ack", Phase: 1}},
				Pubs: []gcPub{{Name: "p0", Topic: "t1", N: 2}},
				Gate: &gcGate{Point: pt, ID: "s:s2", Event: "publish:t1"}})
		}
	}
	// a consumer that holds a message for seconds before it acks: the message is its only one until then, and comes once
	scs = append(scs, gcScenario{Class: "long-held-message", Persistent: true, Buffer: 1,
		Subs: []gcSub{{Name: "s1", Topic: "t1", Behav: "stall6"}, {Name: "s2", Topic: "t1", Behav: "ack", Phase: 2}},
		Pubs: []gcPub{{Name: "p1", Topic: "t1", N: 2}}})
	// a long log (1100 messages) and a Publish that overlaps the Subscribe call at each of its points
	for _, pt := range []string{"gochannel.subscribe.closed_checked", "gochannel.subscribe.locked", "gochannel.subscribe.replay", "gochannel.subscribe.registered"} {
		scs = append(scs, gcScenario{Class: "long-log-overlap/" + pt, Persistent: true, Buffer: 1,
			Subs: []gcSub{{Name: "s2", Topic: "t1", Behav: "ack", Phase: 1, AfterPubs: true}},
			Pubs: []gcPub{{Name: "p0", Topic: "t1", N: 1100, Batch: true}},
			Gate: &gcGate{Point: pt, ID: "s:s2", Event: "publish:t1"}})
	}
	// a long backlog replayed to a consumer that publishes (to another topic of the same Pub/Sub) before it acks each message
	for _, buf := range []int{0, 2} {
		scs = append(scs, gcScenario{Class: "long-backlog-republishing-consumer", Persistent: true, Buffer: buf,
			Subs: []gcSub{{Name: "s2", Topic: "t2", Behav: "ack"}, {Name: "s1", Topic: "t1", Behav: "republish:t2", Phase: 2}},
			Pubs: []gcPub{{Name: "p1", Topic: "t1", N: 300, Batch: true}}})
	}
	// some subscriptions (not the most recent ones) are cancelled while the publishers go on: the remaining ones still get each message once
	for i := 0; i < c.Pick(6, 100); i++ {
		sc := gcScenario{Class: "unsubscribe-others", Persistent: true, Blocking: i%3 == 1, Buffer: i % 2}
		for k := 0; k < 5; k++ {
			sb := gcSub{Name: fmt.Sprintf("s%d", k+1), Topic: "t1", Behav: "ack"}
			if k == i%3 {
				sb.CancelAt = 1
			}
			sc.Subs = append(sc.Subs, sb)
		}
		sc.Subs = append(sc.Subs, gcSub{Name: "s9", Topic: "t1", Behav: "ack", Phase: 2})
		sc.Pubs = []gcPub{{Name: "p1", Topic: "t1", N: 4}, {Name: "p2", Topic: "t1", N: 3}}
		scs = append(scs, sc)
	}
	// messages that share one UUID (a requeued message, a re-published copy) are messages in their own right
	for _, buf := range []int{0, 2} {
		for _, blk := range []bool{false, true} {
			scs = append(scs, gcScenario{Class: "same-uuid/" + gcCfgName(true, blk, buf), Persistent: true, Blocking: blk, Buffer: buf, SameUUID: true,
				Subs: []gcSub{{Name: "s0", Topic: "t1", Behav: "ack"}, {Name: "s1", Topic: "t1", Behav: "nack1", Phase: 1}, {Name: "s2", Topic: "t1", Behav: "ack", Phase: 2}},
				Pubs: []gcPub{{Name: "p1", Topic: "t1", N: 3}, {Name: "p2", Topic: "t1", N: 2, Batch: true}}})
		}
	}
	// the FIRST subscription of a topic races with many publishers (no subscription exists when they start)
	for i := 0; i < c.Pick(12, 300); i++ {
		sc := gcScenario{Class: "first-subscriber", Persistent: true, Buffer: i % 2}
		sc.Subs = []gcSub{{Name: "s1", Topic: "t1", Behav: "ack", Phase: 1}, {Name: "s2", Topic: "t1", Behav: "ack", Phase: 2}}
		for k := 0; k < 12; k++ {
			sc.Pubs = append(sc.Pubs, gcPub{Name: fmt.Sprintf("p%d", k+1), Topic: "t1", N: 2})
		}
		scs = append(scs, sc)
	}
	// larger programs: many publishes and subscriptions on one topic
	n := c.Pick(30, 800)
	for i := 0; i < n; i++ {
		sc := gcScenario{Class: "program", Persistent: true, Blocking: c.Rng.Intn(4) == 0, Buffer: c.Rng.Intn(3)}
		for k := 0; k < 2+c.Rng.Intn(4); k++ {
			sc.Subs = append(sc.Subs, gcSub{Name: fmt.Sprintf("s%d", k+1), Topic: "t1", Behav: "ack", Phase: c.Rng.Intn(3)})
		}
		for k := 0; k < 2+c.Rng.Intn(3); k++ {
			sc.Pubs = append(sc.Pubs, gcPub{Name: fmt.Sprintf("p%d", k+1), Topic: "t1", N: 2 + c.Rng.Intn(4), Batch: c.Rng.Intn(4) == 0})
		}
		scs = append(scs, sc)
	}
	// many publishers append to the log of one topic at the same time, in batches and one by one: a later subscription replays them all
	for i := 0; i < c.Pick(12, 60); i++ {
		sc := gcScenario{Class: "concurrent-batch-publishers", Persistent: true, Buffer: 0,
			Subs: []gcSub{{Name: "s1", Topic: "t1", Behav: "ack", Phase: 2}}}
		for k := 0; k < 14; k++ {
			sc.Pubs = append(sc.Pubs, gcPub{Name: fmt.Sprintf("b%d", k+1), Topic: "t1", N: 5 + k%4, Batch: true})
			sc.Pubs = append(sc.Pubs, gcPub{Name: fmt.Sprintf("p%d", k+1), Topic: "t1", N: 4})
		}
		scs = append(scs, sc)
	}
	// a subscription that arrives when the backlog is long already, while the publisher goes on: what is published during the
	// replay comes once, like everything else
	scs = append(scs, gcScenario{Class: "backlog-with-publisher", Persistent: true, Buffer: 0,
		Subs: []gcSub{{Name: "s1", Topic: "t1", Behav: "ack"}},
		Pubs: []gcPub{{Name: "p1", Topic: "t1", N: c.Pick(2300, 5200)}},
		Gate: &gcGate{Point: "gochannel.publish.persisted", ID: fmt.Sprintf("m:%d", c.Pick(1300, 3100)), Event: "subscribe:t1"}})
	// a long persisted backlog replayed to a late subscription
	for _, nmsg := range []int{41, 1031, c.Pick(257, 2053), c.Pick(131, 4099)} { // primes: not divisible by any chunk or worker count
		scs = append(scs, gcScenario{Class: "backlog", Persistent: true, Buffer: 0,
			Subs: []gcSub{{Name: "s1", Topic: "t1", Behav: "ack", Phase: 2}},
			Pubs: []gcPub{{Name: "p1", Topic: "t1", N: nmsg}}})
	}
	return scs
}

// gcPingPong: a publisher that publishes its next message the moment the previous one was acknowledged, for many rounds, on several
// Pub/Subs at once.  Nothing is logged but an anomaly: a message published to a live subscription that does not arrive (the window of
// a lost wake-up between "the delivery has ended" and "the next Publish" is a few instructions wide).
func gcPingPong(c *Ctx) {
	T := c.Trace("GoChannelTrace")
	rounds := c.Pick(300000, 1500000)
	const workers = 8
	var mu sync.Mutex
	stuck := ""
	g := gochannel.NewGoChannel(gochannel.Config{OutputChannelBuffer: int64(c.Seed % 2 * 10)}, nil)
	defer g.Close()
	Parallel(workers, func(w int) {
		topic := fmt.Sprintf("t%d", w)
		ch, err := g.Subscribe(context.Background(), topic)
		if err != nil {
			return
		}
		sink := 0
		for i := 0; i < rounds; i++ {
			if i%64 == 0 {
				mu.Lock()
				s := stuck
				mu.Unlock()
				if s != "" {
					return
				}
			}
			for j := 0; j < (i%(50+w))*4; j++ { // a short, varying pause: the next Publish meets the end of the previous delivery at varying points
				sink += j
			}
			if err := g.Publish(topic, message.NewMessage("pp", nil)); err != nil {
				return
			}
			select {
			case m := <-ch:
				m.Ack()
			case <-time.After(2 * time.Second):
				mu.Lock()
				stuck = fmt.Sprintf("message %d of a publish / receive / ack / publish ... sequence (worker %d) was published to a live subscription and not delivered within 2 s", i+1, w)
				mu.Unlock()
				return
			}
		}
		_ = sink
	})
	r := T.NewRun("ping-pong", map[string]any{"persistent": false, "blocking": false, "buffer": 0})
	r.Key = "ping-pong"
	r.NonTrivial = true
	if stuck != "" {
		r.Emit("hung", "what", stuck)
	}
	c.AddStat("pingpong_rounds", rounds*workers)
}
