package props

import (
	"context"
	"errors"
	"fmt"
	"runtime"
	"strings"
	"sync"
	"sync/atomic"
	"time"

	"github.com/ThreeDotsLabs/watermill"
	"github.com/ThreeDotsLabs/watermill/message"
	"github.com/ThreeDotsLabs/watermill/pubsub/gochannel"
	"github.com/ThreeDotsLabs/watermill/verifhook"

	"wmverif/sched"
	"wmverif/scripted"
	"wmverif/tr"
)

func init() { Registry["C06"] = runC06 }

type c06Case struct {
	Class      string
	Source     string // scripted | gochannel
	Label      string // hook point at which message m1 is parked when Close arrives ("" none, "handler" = inside the handler function)
	Second     bool   // additionally hold m1 at router.handle.start until Close returned (or 60 ms)
	Closers    int
	Handlers   int
	Msgs       int
	Slow       time.Duration // the handler of m1 blocks that long after Close was called (0: released 30 ms after Close)
	Timeout    time.Duration // CloseTimeout
	Repeat     bool          // call Close once more afterwards
	Panics     bool          // the handler of m1 panics when it is released (the router recovers it and Nacks)
	Drain      bool          // scripted subscriber whose Close() drains: it returns (and closes the channel) only after the delivered messages were settled
	StopFirst  bool          // Handler.Stop() of handler 1 is called (and Stopped() awaited) while m1 is inside its handler function, then Close arrives
	FailSecond bool          // the second handler's Subscribe fails: Run returns an error from its start-up, the first handler keeps working
	EarlyClose bool          // Close is called while Run is still subscribing the handlers (slow Subscribe calls), no messages
	SingleP    bool          // run on its own with GOMAXPROCS(1): a goroutine that was just started (`go h.handleMessage`) then runs only after everything that is woken meanwhile -- the schedule in which "dispatched but not started" lasts longest
	HCGate     bool          // every handler's close-watcher goroutine is held right before its select until Close has given its signal and Run has cancelled the handlers' context: both are visible when it looks
	NilPub     bool          // the last handler was added with a nil Publisher (it returns no messages): at shutdown it is a handler like any other, with nothing to close
	Conf       bool          // conformance run: internal hook events are recorded as well (RouterLifecycleImplTrace)
}

var c06ConfHooks = map[string]string{
	"router.runhandlers.started": "rh", "decorator.sub.before_out": "pump", "decorator.sub.closed": "pump",
	"router.run.received": "loop", "router.run.dispatched": "loop", "router.handle.start": "msg",
	"router.handleclose.before_select": "hc", "router.run.closed_seen": "run", "router.close.signalled": "closer",
	"router.close.handlers_wait_done": "w", "router.close.running_wait_done": "w",
}

// slowLogger delays Error(): the router logs a recovered panic before it Nacks the message
type slowLogger struct{ watermill.NopLogger }

func (slowLogger) Error(msg string, err error, fields watermill.LogFields) {
	time.Sleep(40 * time.Millisecond)
}
func (l slowLogger) With(watermill.LogFields) watermill.LoggerAdapter { return l }

type closeSpy struct {
	message.Subscriber
	onClose func()
}

func (c closeSpy) Close() error {
	c.onClose()
	return c.Subscriber.Close()
}

var c06Labels = []string{"decorator.sub.before_out", "router.run.received", "router.handle.start", "handler", "router.handle.before_publish", "router.handle.before_settle"}

func runC06(c *Ctx) error {
	T := c.Trace("RouterCloseTrace")
	var cases []c06Case
	closers := []int{1}
	handlers := []int{1}
	if c.Thorough() {
		closers = []int{1, 2, 8}
		handlers = []int{1, 2, 3}
	}
	for _, src := range []string{"scripted", "gochannel"} {
		for _, lb := range c06Labels {
			for _, nc := range closers {
				for _, nh := range handlers {
					cases = append(cases, c06Case{Class: "label/" + lb + "/" + src, Source: src, Label: lb, Closers: nc, Handlers: nh, Msgs: 2, Timeout: 3 * time.Second})
				}
			}
		}
		// the schedule of the concurrent-waits defect: received-but-not-dispatched, then held before the handler starts
		cases = append(cases, c06Case{Class: "received-then-held/" + src, Source: src, Label: "router.run.received", Second: true, Closers: 1, Handlers: 1, Msgs: 1, Timeout: 3 * time.Second})
		cases = append(cases, c06Case{Class: "received-then-held/" + src, Source: src, Label: "decorator.sub.before_out", Second: true, Closers: 2, Handlers: 1, Msgs: 2, Timeout: 3 * time.Second})
		// concurrent and repeated Close
		cases = append(cases, c06Case{Class: "concurrent-close/" + src, Source: src, Label: "handler", Closers: 2, Handlers: 2, Msgs: 2, Timeout: 3 * time.Second, Repeat: true})
		cases = append(cases, c06Case{Class: "concurrent-close/" + src, Source: src, Label: "", Closers: 8, Handlers: 1, Msgs: 0, Timeout: 3 * time.Second, Repeat: true})
		// a panicking handler: the recovered panic is logged (slowly) and the message Nacked before Close may return
		cases = append(cases, c06Case{Class: "handler-panics/" + src, Source: src, Label: "handler", Closers: 1, Handlers: 1, Msgs: 1, Timeout: 3 * time.Second, Panics: true})
		cases = append(cases, c06Case{Class: "handler-panics/" + src, Source: src, Label: "handler", Closers: 2, Handlers: 2, Msgs: 2, Timeout: 3 * time.Second, Panics: true})
		// handlers outlive CloseTimeout: error instead of hanging; a later Close must not claim success while the handler runs
		cases = append(cases, c06Case{Class: "timeout/" + src, Source: src, Label: "handler", Closers: 1, Handlers: 1, Msgs: 1, Slow: 700 * time.Millisecond, Timeout: 150 * time.Millisecond, Repeat: true})
		cases = append(cases, c06Case{Class: "timeout/" + src, Source: src, Label: "handler", Closers: 2, Handlers: 1, Msgs: 1, Slow: 500 * time.Millisecond, Timeout: 100 * time.Millisecond})
	}
	// a negative CloseTimeout is a time-out that has passed already: Close reports it at once instead of waiting (the handler runs on for longer than the slack of the timing oracle)
	for _, src := range []string{"scripted", "gochannel"} {
		cases = append(cases, c06Case{Class: "negative-timeout/" + src, Source: src, Label: "handler", Closers: 1, Handlers: 1, Msgs: 1, Slow: 2 * time.Second, Timeout: -time.Millisecond}) // (no Close afterwards: with nothing left to wait for, a time-out that has passed and a wait that is over are both true)
		cases = append(cases, c06Case{Class: "negative-timeout/" + src, Source: src, Label: "handler", Closers: 3, Handlers: 2, Msgs: 1, Slow: 1800 * time.Millisecond, Timeout: -time.Hour})
		// a handler without a publisher (nil)
		cases = append(cases, c06Case{Class: "nil-publisher/" + src, Source: src, Label: "handler", Closers: 1, Handlers: 1, Msgs: 2, Timeout: 3 * time.Second, NilPub: true})
		cases = append(cases, c06Case{Class: "nil-publisher/" + src, Source: src, Label: "router.handle.start", Closers: 2, Handlers: 3, Msgs: 1, Timeout: 3 * time.Second, NilPub: true, Repeat: true})
	}
	// the close-watchers of the handlers look at their select only when the close signal AND the cancelled context are both there
	for _, src := range []string{"scripted", "gochannel"} {
		for _, nc := range []int{1, 2} {
			cases = append(cases, c06Case{Class: "late-close-watchers/" + src, Source: src, Label: "", Closers: nc, Handlers: 3, Msgs: nc - 1, Timeout: 3 * time.Second, HCGate: true})
		}
	}
	// dispatched-but-not-started: the message is released from the receive loop when Close has been called; with one P the invocation's
	// goroutine is the last to run (every goroutine that Close's wait chain wakes goes first)
	for _, src := range []string{"scripted", "gochannel"} {
		for _, nc := range []int{1, 2} {
			for k := 0; k < 3; k++ {
				cases = append(cases, c06Case{Class: "single-p/received-then-released/" + src, Source: src, Label: "router.run.received", Second: k == 2, Closers: nc, Handlers: 1 + k%2, Msgs: 1 + k%2, Timeout: 3 * time.Second, SingleP: true})
			}
		}
	}
	// ... also when the subscriber's Close() drains (the receive loop does not end before the handler does)
	cases = append(cases, c06Case{Class: "timeout-draining/scripted", Source: "scripted", Label: "handler", Closers: 1, Handlers: 1, Msgs: 1, Slow: 3 * time.Second, Timeout: 100 * time.Millisecond, Drain: true})
	cases = append(cases, c06Case{Class: "timeout-draining/scripted", Source: "scripted", Label: "handler", Closers: 2, Handlers: 2, Msgs: 1, Slow: 3 * time.Second, Timeout: 150 * time.Millisecond, Drain: true, Repeat: true})
	// (one message per handler: a draining subscriber would wait for a second message that the closing router never settles)
	cases = append(cases, c06Case{Class: "draining/scripted", Source: "scripted", Label: "handler", Closers: 2, Handlers: 2, Msgs: 1, Timeout: 3 * time.Second, Drain: true})
	// the handler was stopped by the user while its invocation is still running: Close waits for that invocation all the same
	cases = append(cases, c06Case{Class: "stopped-handler-still-busy/scripted", Source: "scripted", Label: "handler", Closers: 1, Handlers: 2, Msgs: 1, Timeout: 3 * time.Second, StopFirst: true})
	cases = append(cases, c06Case{Class: "stopped-handler-still-busy/gochannel", Source: "gochannel", Label: "handler", Closers: 2, Handlers: 3, Msgs: 1, Timeout: 3 * time.Second, StopFirst: true})
	// Close arrives while Run is still starting the handlers
	for _, nh := range []int{2, 3} {
		for _, nc := range []int{1, 2} {
			cases = append(cases, c06Case{Class: "close-during-startup/scripted", Source: "scripted", Label: "", Closers: nc, Handlers: nh, Msgs: 0, Timeout: 3 * time.Second, EarlyClose: true})
		}
	}
	// random park-and-run programs
	n := c.Pick(30, 3000)
	for i := 0; i < n; i++ {
		src := []string{"scripted", "gochannel"}[c.Rng.Intn(2)]
		cases = append(cases, c06Case{Class: "random/" + src, Source: src, Label: c06Labels[c.Rng.Intn(len(c06Labels))], Second: c.Rng.Intn(3) == 0,
			Closers: 1 + c.Rng.Intn(3), Handlers: 1 + c.Rng.Intn(3), Msgs: 1 + c.Rng.Intn(3), Timeout: 3 * time.Second, Repeat: c.Rng.Intn(3) == 0})
	}
	// Run failed half-way (the second handler could not subscribe): the first handler works on; a Close has to wait for its
	// invocation like any other (here: until CloseTimeout, then an error)
	cases = append(cases, c06Case{Class: "close-after-failed-run/scripted", Source: "scripted", Label: "handler", Closers: 1, Handlers: 2, Msgs: 1, Slow: 700 * time.Millisecond, Timeout: 250 * time.Millisecond, FailSecond: true})
	cases = append(cases, c06Case{Class: "close-after-failed-run/scripted", Source: "scripted", Label: "handler", Closers: 2, Handlers: 2, Msgs: 1, Slow: 500 * time.Millisecond, Timeout: 150 * time.Millisecond, FailSecond: true})
	// conformance of the implementation-shaped model: fixed shape (1 handler, scripted source, 2 messages, <= 2 closers)
	nconf := c.Pick(24, 400)
	for i := 0; i < nconf; i++ {
		lb := append([]string{""}, c06Labels...)[c.Rng.Intn(len(c06Labels)+1)]
		cases = append(cases, c06Case{Class: "conformance", Source: "scripted", Label: lb, Second: c.Rng.Intn(4) == 0, Closers: 1 + c.Rng.Intn(2), Handlers: 1, Msgs: 2,
			Timeout: 3 * time.Second, Conf: true})
	}
	TC := c.Trace("RouterLifecycleImplTrace")
	runs := make([]*tr.Run, len(cases))
	confRuns := make([]*tr.Run, len(cases))
	for i, cs := range cases {
		nh := cs.Handlers
		if cs.FailSecond {
			nh = 1 // only the first handler ever holds a subscription
		}
		np, tmo := nh, cs.Timeout
		if cs.NilPub {
			np--
		}
		if tmo < 0 {
			tmo = 0 // (a time-out that has passed already)
		}
		runs[i] = T.NewRun(cs.Class, map[string]any{"nh": nh, "np": np, "expectsubclose": !cs.StopFirst && !cs.FailSecond, "timeout": int64(tmo / time.Microsecond)})
		runs[i].Key = fmt.Sprintf("%+v/%d", cs, i)
		if cs.Conf {
			confRuns[i] = TC.NewRun("conformance", nil)
			confRuns[i].Key = fmt.Sprintf("conf/%d", i)
			confRuns[i].NonTrivial = true
		}
	}
	var reached int64
	Parallel(len(cases), func(i int) {
		if cases[i].SingleP {
			return
		}
		if c06RunC(runs[i], confRuns[i], cases[i]) {
			atomic.AddInt64(&reached, 1)
		}
	})
	// the single-P cases: one after the other, nothing else running in the process
	oldP := runtime.GOMAXPROCS(1)
	for i := range cases {
		if cases[i].SingleP && c06RunC(runs[i], confRuns[i], cases[i]) {
			atomic.AddInt64(&reached, 1)
		}
	}
	runtime.GOMAXPROCS(oldP)
	c.AddStat("conformance_runs", nconf)
	c.AddStat("cases", len(cases))
	c.AddStat("gates_reached", int(reached))
	return nil
}

func c06Run(r *tr.Run, cs c06Case) (gateReached bool) { return c06RunC(r, nil, cs) }

func c06RunC(r *tr.Run, rc *tr.Run, cs c06Case) (gateReached bool) {
	emitC := func(e string, kv ...any) {
		if rc != nil {
			rc.Emit(e, kv...)
		}
	}
	defer emitC("end")
	t0 := time.Now()
	now := func() int64 { return int64(time.Since(t0) / time.Microsecond) }
	prefix := fmt.Sprintf("r%d-", r.ID)
	var logger watermill.LoggerAdapter
	if cs.Panics {
		logger = slowLogger{}
	}
	router, _ := message.NewRouter(message.RouterConfig{CloseTimeout: cs.Timeout}, logger)
	if rc != nil {
		onHook := func(point string, ids []string) {
			g, ok := c06ConfHooks[point]
			if !ok {
				return
			}
			if g == "msg" {
				g = strings.TrimPrefix(ids[0], prefix)
			}
			rc.Emit("hook", "g", g, "point", point)
		}
		defer sched.Observe(prefix, onHook)()
		defer sched.ObserveID(verifhook.Ptr(router), onHook)()
	}
	var mu sync.Mutex
	objs := map[string]*message.Message{} // message object as seen by the router (scripted: the emitted one; gochannel: the delivered copy)
	emitted := []string{}
	states := func() map[string]string {
		mu.Lock()
		defer mu.Unlock()
		st := map[string]string{}
		for _, m := range emitted {
			if o := objs[m]; o != nil {
				st[m] = scripted.SettleState(o)
			} else {
				st[m] = "none"
			}
		}
		return st
	}
	release := make(chan struct{}) // releases a handler parked inside the handler function
	var relOnce sync.Once
	doRelease := func() { relOnce.Do(func() { close(release) }) }
	defer doRelease()
	var gc *gochannel.GoChannel
	if cs.Source == "gochannel" {
		gc = gochannel.NewGoChannel(gochannel.Config{}, nil)
	}
	subs := []*scripted.Sub{}
	var pubCloses, subscribeCalls, firstH int32
	wantPubs := cs.Handlers
	if cs.FailSecond {
		wantPubs = 1
	}
	if cs.NilPub {
		wantPubs--
	}
	handles := map[int]*message.Handler{}
	mname := func(h, k int) string {
		if cs.Conf {
			return fmt.Sprintf("m%d", k)
		}
		return fmt.Sprintf("h%dm%d", h, k)
	}
	m1 := prefix + mname(1, 1)
	for h := 1; h <= cs.Handlers; h++ {
		h := h
		hname := fmt.Sprintf("%sh%d", prefix, h)
		pub := scripted.NewPub("pub")
		pub.OnClose = func() {
			if h%2 == 1 && !cs.SingleP {
				time.Sleep(12 * time.Millisecond) // a publisher that flushes: its Close takes a moment
			}
			r.Emit("pubclose") // (Close is about to return)
			atomic.AddInt32(&pubCloses, 1)
		}
		var sub message.Subscriber
		if cs.Source == "scripted" {
			s := scripted.NewSub("sub")
			if cs.FailSecond {
				// whichever handler Run subscribes second (the order is the router's) fails, after a while
				s.SubscribeFn = func(string) error {
					if atomic.AddInt32(&subscribeCalls, 1) == 1 {
						atomic.StoreInt32(&firstH, int32(h))
						return nil
					}
					time.Sleep(150 * time.Millisecond)
					return errors.New("scripted subscribe failure")
				}
			}
			if cs.EarlyClose {
				s.OnSubscribe = func(string) { time.Sleep(25 * time.Millisecond) }
			}
			if cs.Drain {
				s.Drain = true
				s.OnCloseStart = func() { r.Emit("subclose") }
			} else {
				s.OnClose = func() { r.Emit("subclose") }
			}
			subs = append(subs, s)
			sub = s
		} else {
			sub = closeSpy{gc, func() { r.Emit("subclose") }}
		}
		var hpub message.Publisher = pub
		nilPub := cs.NilPub && h == cs.Handlers
		if nilPub {
			hpub = nil
		}
		handles[h] = router.AddHandler(hname, fmt.Sprintf("t%d", h), sub, "out", hpub, func(msg *message.Message) ([]*message.Message, error) {
			m := msg.UUID[len(prefix):]
			mu.Lock()
			objs[m] = msg
			mu.Unlock()
			r.Emit("hstart", "m", m)
			emitC("hstart", "m", m)
			if cs.Label == "handler" && (msg.UUID == m1 || cs.FailSecond) {
				<-release
			}
			r.Emit("hend", "m", m)
			emitC("hend", "m", m)
			if cs.Panics && msg.UUID == m1 {
				panic("scripted handler panic")
			}
			if nilPub {
				return nil, nil
			}
			return []*message.Message{message.NewMessage(msg.UUID+".o", nil)}, nil
		})
	}
	var hcGates []*sched.Gate
	if cs.HCGate {
		for h := 1; h <= cs.Handlers; h++ {
			g := sched.Park("router.handleclose.before_select", fmt.Sprintf("%sh%d", prefix, h))
			hcGates = append(hcGates, g)
			defer g.Release()
		}
	}
	ctx, cancel := context.WithCancel(context.Background())
	defer cancel()
	runDone := make(chan struct{})
	go func() {
		defer close(runDone)
		err := router.Run(verifhook.WithName(ctx, prefix+"run"))
		if cs.FailSecond && err != nil {
			r.Emit("runfail")
			return
		}
		r.Emit("runret", "ok", err == nil, "t", now(), "states", states())
		emitC("runret")
	}()
	if cs.FailSecond {
		// Run is inside the (slow, failing) Subscribe call of its second handler; the first one holds its subscription
		deadline := time.Now().Add(HangBound)
		for atomic.LoadInt32(&subscribeCalls) < 2 && time.Now().Before(deadline) {
			time.Sleep(time.Millisecond)
		}
	} else if cs.EarlyClose {
		time.Sleep(8 * time.Millisecond) // Run is inside the (slow) Subscribe call of its first handler
	} else {
		select {
		case <-router.Running():
		case <-time.After(HangBound):
			r.Emit("hung", "what", "router start")
			return
		}
	}
	var gate, gate2 *sched.Gate
	if cs.Label != "" && cs.Label != "handler" {
		gate = sched.Park(cs.Label, m1)
		defer gate.Release()
	}
	if cs.Second {
		gate2 = sched.Park("router.handle.start", m1)
		defer gate2.Release()
	}
	// emit the messages (each emitter blocks until the router side took the message or the subscription closed)
	var ew sync.WaitGroup
	for h := 1; h <= cs.Handlers; h++ {
		for k := 1; k <= cs.Msgs; k++ {
			if h > 1 && k > 1 || cs.FailSecond && h != int(atomic.LoadInt32(&firstH)) {
				continue
			}
			m := mname(h, k)
			msg := message.NewMessage(prefix+m, []byte("x"))
			mu.Lock()
			emitted = append(emitted, m)
			if cs.Source == "scripted" {
				objs[m] = msg
			}
			mu.Unlock()
			r.Emit("emit", "m", m)
			emitC("emit", "m", m)
			ew.Add(1)
			go func(h int, msg *message.Message) {
				defer ew.Done()
				if cs.Source == "scripted" {
					subs[h-1].Emit(fmt.Sprintf("t%d", h), msg)
				} else {
					_ = gc.Publish(fmt.Sprintf("t%d", h), msg)
				}
			}(h, msg)
			if k == 1 && (h == 1 || cs.FailSecond) {
				// let m1 reach its label before anything else happens
				if gate != nil {
					gateReached = gate.Arrived(300 * time.Millisecond)
				} else if cs.Label == "handler" {
					deadline := time.Now().Add(300 * time.Millisecond)
					for time.Now().Before(deadline) {
						mu.Lock()
						_, ok := objs[mname(1, 1)]
						if cs.Source == "scripted" {
							ok = false
						}
						mu.Unlock()
						if ok {
							break
						}
						time.Sleep(time.Millisecond)
					}
					time.Sleep(2 * time.Millisecond)
					gateReached = true
				}
			}
		}
	}
	if cs.StopFirst && gateReached {
		handles[1].Stop()
		select {
		case <-handles[1].Stopped():
		case <-time.After(HangBound):
			r.Emit("hung", "what", "Stopped() of the stopped handler")
			return
		}
	}
	if cs.FailSecond && !WaitOrHang(runDone) { // Close comes after Run has given up
		r.Emit("hung", "what", "Run with a failing Subscribe did not return")
		return
	}
	// Close arrives
	var cw sync.WaitGroup
	anyRet := make(chan struct{})
	var retOnce sync.Once
	closeCall := func(i string) {
		defer cw.Done()
		r.Emit("closecall", "i", i, "t", now())
		emitC("closecall", "c", i)
		var err error
		p, v := Guarded(func() { err = router.Close() })
		if p {
			r.Emit("panic", "where", "Close", "val", v)
			return
		}
		r.Emit("closeret", "i", i, "ok", err == nil, "t", now(), "states", states())
		emitC("closeret", "c", i, "ok", err == nil)
		retOnce.Do(func() { close(anyRet) })
	}
	for i := 0; i < cs.Closers; i++ {
		cw.Add(1)
		go closeCall(fmt.Sprintf("c%d", i+1))
	}
	wait := 30 * time.Millisecond
	if cs.Slow > 0 {
		wait = cs.Slow
	}
	if len(hcGates) > 0 {
		time.Sleep(25 * time.Millisecond) // (Close has signalled, Run has cancelled the context of its handlers)
		for _, g := range hcGates {
			if g.Arrived(HangBound / 10) {
				gateReached = true
			}
			g.Release()
		}
	}
	if gate != nil {
		select {
		case <-anyRet:
		case <-time.After(30 * time.Millisecond):
		}
		gate.Release()
	}
	if gate2 != nil {
		if gate2.Arrived(200 * time.Millisecond) {
			select {
			case <-anyRet:
			case <-time.After(60 * time.Millisecond):
			}
		}
		gate2.Release()
	}
	if cs.Label == "handler" {
		if cs.Slow > 0 && cs.Repeat {
			// the first Close timed out; ask again while the handler is still running
			select {
			case <-anyRet:
			case <-time.After(HangBound):
			}
			cw.Add(1)
			go closeCall("again-while-running")
		}
		select {
		case <-time.After(wait):
		}
		doRelease()
	}
	if !WaitOrHang(waitWG(&cw)) {
		r.Emit("hung", "what", "Close did not return")
		doRelease()
		return
	}
	doRelease()
	if !WaitOrHang(runDone) {
		r.Emit("hung", "what", "Run did not return")
		return
	}
	if cs.Repeat {
		cw.Add(1)
		closeCall("repeat")
	}
	if gc != nil {
		_ = gc.Close()
	}
	<-waitOr(waitWG(&ew), HangBound)
	// subscriber.Close() of a handler may legitimately be called shortly after Close returned: wait (bounded) for it
	deadline := time.Now().Add(3 * time.Second)
	for time.Now().Before(deadline) {
		n := 0
		for _, s := range subs {
			if s.CloseCalls() > 0 {
				n++
			}
		}
		want := len(subs)
		if cs.FailSecond {
			want = 0 // (the handler was ended through its context: its subscriber is not closed by the router)
		}
		if (cs.Source != "scripted" || n >= want) && int(atomic.LoadInt32(&pubCloses)) >= wantPubs {
			break
		}
		time.Sleep(2 * time.Millisecond)
	}
	time.Sleep(20 * time.Millisecond)
	r.Emit("quiesce", "states", states())
	r.NonTrivial = gateReached
	return
}
