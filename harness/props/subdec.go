package props

import (
	"context"
	"fmt"
	"math/rand"
	"strings"
	"sync"
	"time"

	"github.com/ThreeDotsLabs/watermill/message"
	"github.com/ThreeDotsLabs/watermill/verifhook"

	"wmverif/sched"
	"wmverif/scripted"
	"wmverif/tr"
)

// Conformance of SubDecorator.tla (spec/SubDecoratorTrace.tla): randomly scripted, fully concurrent runs of one
// MessageTransformSubscriberDecorator around a scripted inner subscriber; hook events and harness events in one trace.

var subdecHooks = map[string]func(ids []string, trim func(string) string) string{
	"decorator.subscribe.added":    func(ids []string, trim func(string) string) string { return "sub:" + trim(ids[0]) },
	"decorator.sub.before_out":     func(ids []string, trim func(string) string) string { return "pump:" + trim(ids[1]) },
	"decorator.sub.closed":         func(ids []string, trim func(string) string) string { return "pump:" + trim(ids[0]) },
	"decorator.close.inner_closed": func([]string, func(string) string) string { return "closer" },
	"decorator.close.signalled":    func([]string, func(string) string) string { return "closer" },
	"decorator.close.waited":       func([]string, func(string) string) string { return "closer" },
}

const subdecK = 3 // messages per subscription at most (constant K of the trace specification)

// waitCancel: Close is called only after the output channel of every cancelled subscription was closed (bounded wait): cancelling
// a subscription completes on its own, whether or not its consumer still reads.
func subdecRun(r *tr.Run, rng *rand.Rand, waitCancel bool) {
	prefix := fmt.Sprintf("r%d-", r.ID)
	trim := func(s string) string { return strings.TrimPrefix(s, prefix) }
	inner := scripted.NewSub("inner")
	dec, err := message.MessageTransformSubscriberDecorator(func(*message.Message) {})(inner)
	if err != nil {
		r.Emit("error", "what", err.Error())
		return
	}
	var hmu sync.Mutex
	outClosed := map[string]chan struct{}{"pump:s1": make(chan struct{}), "pump:s2": make(chan struct{})}
	onHook := func(point string, ids []string) {
		if f, ok := subdecHooks[point]; ok && len(ids) > 0 {
			g := f(ids, trim)
			r.Emit("hook", "g", g, "point", point)
			if point == "decorator.sub.closed" {
				hmu.Lock()
				if ch := outClosed[g]; ch != nil {
					close(ch)
					outClosed[g] = nil
				}
				hmu.Unlock()
			}
		}
	}
	defer sched.Observe(prefix, onHook)()
	defer sched.ObserveID(verifhook.Ptr(dec), onHook)()

	var rmu sync.Mutex
	rnd := func(n int) int { rmu.Lock(); defer rmu.Unlock(); return rng.Intn(n) }
	nap := func() {
		switch rnd(4) {
		case 0:
		case 1:
			time.Sleep(time.Duration(rnd(60)) * time.Microsecond)
		default:
			time.Sleep(time.Duration(rnd(500)) * time.Microsecond)
		}
	}
	var wg sync.WaitGroup
	var cancels []context.CancelFunc
	defer func() {
		for _, c := range cancels {
			c()
		}
	}()
	subs := []string{"s1"}
	if rnd(4) > 0 {
		subs = append(subs, "s2")
	}
	closeStarted := make(chan struct{})
	cancelled := map[string]chan struct{}{} // closed once the subscription's cancel (if it has one) was issued, or will never be
	var toWait []string
	for _, s := range []string{"s1", "s2"} {
		cancelled[s] = make(chan struct{})
	}
	for _, s := range subs {
		s := s
		nEmit, readN, doCancel := rnd(subdecK+1), rnd(subdecK+2), rnd(3) == 0 // readN > K: reads until the channel is closed
		lateSub := rnd(6) == 0 && !waitCancel                                 // Subscribe only after Close has begun
		if doCancel && waitCancel {
			toWait = append(toWait, s)
			// the forwarder is left holding a message that nobody reads (the consumer stops one short), then the context ends
			if nEmit == 0 {
				nEmit = 1
			}
			readN = nEmit - 1
		}
		wg.Add(1)
		go func() {
			defer wg.Done()
			if lateSub {
				<-closeStarted
			}
			nap()
			ctx, cancel := context.WithCancel(verifhook.WithName(context.Background(), prefix+s))
			rmu.Lock()
			cancels = append(cancels, cancel) // (released only when the run is over: an unlogged cancel would be an action of its own)
			rmu.Unlock()
			topic := "t-" + s
			r.Emit("subcall", "s", s)
			ch, err := dec.Subscribe(ctx, topic)
			r.Emit("subret", "s", s, "ok", err == nil)
			if err != nil {
				close(cancelled[s])
				return
			}
			hmu.Lock()
			watch := outClosed["pump:"+s]
			hmu.Unlock()
			var inwg sync.WaitGroup
			inwg.Add(2)
			go func() { // consumer
				defer inwg.Done()
				for n := 0; ; n++ {
					if n >= readN && readN <= subdecK {
						r.Emit("stopread", "s", s)
						return
					}
					m, ok := <-ch
					if !ok {
						r.Emit("outclosed", "s", s)
						return
					}
					var i int
					fmt.Sscanf(trim(m.UUID), s+"-m%d", &i)
					r.Emit("recv", "s", s, "i", i)
					m.Ack()
					nap()
				}
			}()
			emitDone := make(chan struct{})
			go func() { // the inner subscriber's side of this subscription
				defer inwg.Done()
				defer close(emitDone)
				sps := inner.Subs(topic)
				if len(sps) == 0 {
					return
				}
				for i := 1; i <= nEmit; i++ {
					nap()
					r.Emit("emit", "s", s)
					if !sps[0].Send(message.NewMessage(fmt.Sprintf("%s%s-m%d", prefix, s, i), nil)) {
						return
					}
				}
			}()
			if doCancel {
				nap()
				nap()
				if waitCancel {
					<-waitOr(emitDone, HangBound/2)
				}
				r.Emit("cancel", "s", s)
				cancel()
				if waitCancel {
					select {
					case <-watch:
					case <-time.After(HangBound / 2):
						r.Emit("hung", "what", "output channel not closed after its context was cancelled", "s", s)
					}
				}
			}
			close(cancelled[s])
			inwg.Wait()
		}()
	}
	wg.Add(1)
	go func() {
		defer wg.Done()
		for k := rnd(5); k > 0; k-- {
			nap()
		}
		for _, s := range toWait {
			<-cancelled[s]
		}
		r.Emit("closecall")
		close(closeStarted)
		_ = dec.Close()
		r.Emit("closeret")
	}()
	if !WaitOrHang(waitWG(&wg)) {
		r.Emit("hung", "what", "decorator scenario")
		return
	}
	r.Emit("end")
	r.NonTrivial = true
}
