package props

import (
	"context"
	"encoding/json"
	"fmt"
	"math/rand"
	"os"
	"runtime"
	"strings"
	"sync"
	"sync/atomic"
	"time"

	"github.com/ThreeDotsLabs/watermill/message"
	"github.com/ThreeDotsLabs/watermill/verifhook"

	"wmverif/sched"
	"wmverif/scripted"
	"wmverif/tr"
)

// Conformance of SubDecorator.tla (spec/SubDecoratorTrace.tla): randomly scripted, fully concurrent runs of one
// MessageTransformSubscriberDecorator around a scripted inner subscriber; hook events and harness events in one trace.

var subdecHooks = map[string]func(ids []string, trim func(string) string) string{
	"decorator.subscribe.added":    func(ids []string, trim func(string) string) string { return "sub:" + trim(ids[0]) },
	"decorator.sub.before_out":     func(ids []string, trim func(string) string) string { return "pump:" + trim(ids[1]) },
	"decorator.sub.closed":         func(ids []string, trim func(string) string) string { return "pump:" + trim(ids[0]) },
	"decorator.close.inner_closed": func([]string, func(string) string) string { return "closer" },
	"decorator.close.signalled":    func([]string, func(string) string) string { return "closer" },
	"decorator.close.waited":       func([]string, func(string) string) string { return "closer" },
}

// (hook observers run on the goroutine that passes the hook point: with goid() that is how the Close points of overlapping
// Close calls are told apart)
const subdecK = 3 // messages per subscription at most (constant K of the trace specification)

// waitCancel: Close is called only after the output channel of every cancelled subscription was closed (bounded wait): cancelling
// a subscription completes on its own, whether or not its consumer still reads.
func subdecRun(r *tr.Run, rng *rand.Rand, waitCancel bool) {
	prefix := fmt.Sprintf("r%d-", r.ID)
	trim := func(s string) string { return strings.TrimPrefix(s, prefix) }
	inner := scripted.NewSub("inner")
	dec, err := message.MessageTransformSubscriberDecorator(func(*message.Message) {})(inner)
	if err != nil {
		r.Emit("error", "what", err.Error())
		return
	}
	var hmu sync.Mutex
	outClosed := map[string]chan struct{}{"pump:s1": make(chan struct{}), "pump:s2": make(chan struct{})}
	var closerOf sync.Map // goroutine -> name of the Close call it is making
	onHook := func(point string, ids []string) {
		if f, ok := subdecHooks[point]; ok && len(ids) > 0 {
			g := f(ids, trim)
			if g == "closer" {
				c, _ := closerOf.Load(goid())
				g = fmt.Sprintf("closer:%v", c)
			}
			r.Emit("hook", "g", g, "point", point)
			if point == "decorator.sub.closed" {
				hmu.Lock()
				if ch := outClosed[g]; ch != nil {
					close(ch)
					outClosed[g] = nil
				}
				hmu.Unlock()
			}
		}
	}
	defer sched.Observe(prefix, onHook)()
	defer sched.ObserveID(verifhook.Ptr(dec), onHook)()

	var rmu sync.Mutex
	rnd := func(n int) int { rmu.Lock(); defer rmu.Unlock(); return rng.Intn(n) }
	nap := func() {
		switch rnd(4) {
		case 0:
		case 1:
			time.Sleep(time.Duration(rnd(60)) * time.Microsecond)
		default:
			time.Sleep(time.Duration(rnd(500)) * time.Microsecond)
		}
	}
	var wg sync.WaitGroup
	var cancels []context.CancelFunc
	defer func() {
		for _, c := range cancels {
			c()
		}
	}()
	subs := []string{"s1"}
	if rnd(4) > 0 {
		subs = append(subs, "s2")
	}
	closeStarted := make(chan struct{})
	cancelled := map[string]chan struct{}{} // closed once the subscription's cancel (if it has one) was issued, or will never be
	var toWait []string
	for _, s := range []string{"s1", "s2"} {
		cancelled[s] = make(chan struct{})
	}
	for _, s := range subs {
		s := s
		nEmit, readN, doCancel := rnd(subdecK+1), rnd(subdecK+2), rnd(3) == 0 // readN > K: reads until the channel is closed
		lateSub := rnd(6) == 0 && !waitCancel                                 // Subscribe only after Close has begun
		if doCancel && waitCancel {
			toWait = append(toWait, s)
			// the forwarder is left holding a message that nobody reads (the consumer stops one short), then the context ends
			if nEmit == 0 {
				nEmit = 1
			}
			readN = nEmit - 1
		}
		wg.Add(1)
		go func() {
			defer wg.Done()
			if lateSub {
				<-closeStarted
			}
			nap()
			ctx, cancel := context.WithCancel(verifhook.WithName(context.Background(), prefix+s))
			rmu.Lock()
			cancels = append(cancels, cancel) // (released only when the run is over: an unlogged cancel would be an action of its own)
			rmu.Unlock()
			topic := "t-" + s
			r.Emit("subcall", "s", s)
			ch, err := dec.Subscribe(ctx, topic)
			r.Emit("subret", "s", s, "ok", err == nil)
			if err != nil {
				close(cancelled[s])
				return
			}
			hmu.Lock()
			watch := outClosed["pump:"+s]
			hmu.Unlock()
			var inwg sync.WaitGroup
			inwg.Add(2)
			go func() { // consumer
				defer inwg.Done()
				for n := 0; ; n++ {
					if n >= readN && readN <= subdecK {
						r.Emit("stopread", "s", s)
						return
					}
					m, ok := <-ch
					if !ok {
						r.Emit("outclosed", "s", s)
						return
					}
					var i int
					fmt.Sscanf(trim(m.UUID), s+"-m%d", &i)
					r.Emit("recv", "s", s, "i", i)
					m.Ack()
					nap()
				}
			}()
			emitDone := make(chan struct{})
			go func() { // the inner subscriber's side of this subscription
				defer inwg.Done()
				defer close(emitDone)
				sps := inner.Subs(topic)
				if len(sps) == 0 {
					return
				}
				for i := 1; i <= nEmit; i++ {
					nap()
					r.Emit("emit", "s", s)
					if !sps[0].Send(message.NewMessage(fmt.Sprintf("%s%s-m%d", prefix, s, i), nil)) {
						return
					}
				}
			}()
			if doCancel {
				nap()
				nap()
				if waitCancel {
					<-waitOr(emitDone, HangBound/2)
				}
				r.Emit("cancel", "s", s)
				cancel()
				if waitCancel {
					select {
					case <-watch:
					case <-time.After(HangBound / 2):
						r.Emit("hung", "what", "output channel not closed after its context was cancelled", "s", s)
					}
				}
			}
			close(cancelled[s])
			inwg.Wait()
		}()
	}
	nclosers := 1 + rnd(2) // Close calls may overlap: the second begins once the first has
	abreast := nclosers == 2 && rnd(2) == 0
	if abreast {
		// both calls are held where the inner Close has returned and go on from there together
		g := sched.Park("decorator.close.inner_closed", verifhook.Ptr(dec))
		g.Abreast = true
		defer g.Release()
		wg.Add(1)
		go func() {
			defer wg.Done()
			deadline := time.Now().Add(HangBound / 4)
			for g.Arrivals() < 2 && time.Now().Before(deadline) {
				time.Sleep(50 * time.Microsecond)
			}
			g.Release()
		}()
	}
	for ci := 1; ci <= nclosers; ci++ {
		c := fmt.Sprintf("c%d", ci)
		wg.Add(1)
		go func() {
			defer wg.Done()
			for k := rnd(5); k > 0; k-- {
				nap()
			}
			for _, s := range toWait {
				<-cancelled[s]
			}
			if c != "c1" {
				<-closeStarted
				if !abreast {
					nap()
				}
			}
			closerOf.Store(goid(), c)
			r.Emit("closecall", "c", c)
			if c == "c1" {
				close(closeStarted)
			}
			if p, v := Guarded(func() { _ = dec.Close() }); p {
				r.Emit("panic", "where", "Close", "val", v)
				return
			}
			r.Emit("closeret", "c", c)
		}()
	}
	if !WaitOrHang(waitWG(&wg)) {
		r.Emit("hung", "what", "decorator scenario")
		return
	}
	r.Emit("end")
	r.NonTrivial = true
}

// subdecCloseHammer: many rounds of two Close calls on a fresh decorator that are held where the inner Close has returned and let go
// together, so that they give the closing signal at the same instant. Only anomalies (a panic, a call that does not return) are logged.
// strict (C20, transparency: every Close call passes through to the inner subscriber): a Close call that never reaches the inner
// subscriber is reported; otherwise (C07) the hammer just ends there.
func subdecCloseHammer(r *tr.Run, rounds int, strict bool) {
	for i := 0; i < rounds; i++ {
		inner := scripted.NewSub("inner")
		dec, err := message.MessageTransformSubscriberDecorator(func(*message.Message) {})(inner)
		if err != nil {
			r.Emit("error", "what", err.Error())
			return
		}
		g := sched.Park("decorator.close.inner_closed", verifhook.Ptr(dec))
		g.Abreast = true
		var wg sync.WaitGroup
		for k := 0; k < 2; k++ {
			wg.Add(1)
			go func() {
				defer wg.Done()
				if p, v := Guarded(func() { _ = dec.Close() }); p {
					r.Emit("panic", "where", "two Close calls abreast", "val", v, "round", i)
				}
			}()
		}
		deadline := time.Now().Add(HangBound / 2) // (paid once: the hammer ends at the first round in which a call stays away)
		for g.Arrivals() < 2 && time.Now().Before(deadline) {
			runtime.Gosched()
		}
		both := g.Arrivals() >= 2
		g.Release()
		if !WaitOrHang(waitWG(&wg)) {
			r.Emit("hung", "what", "two Close calls abreast", "round", i)
			return
		}
		if !both {
			// one of the calls came back (or stays away) without having been through the inner Close: nothing to race here
			if strict {
				r.Emit("hung", "what", "a Close call on the decorator never reached the inner subscriber's Close", "round", i)
				return
			}
			break
		}
	}
	r.Emit("end")
	r.NonTrivial = true
}

// subdecSchedules reads the schedules that TLC sampled from SubDecorator.tla (bin/gen-decorator-schedules); nil when the
// generator did not run.
func subdecSchedules() [][]string {
	path := os.Getenv("VERIF_DECORATOR_SCHEDULES")
	if path == "" {
		return nil
	}
	b, err := os.ReadFile(path)
	if err != nil {
		return nil
	}
	var ws [][]string
	if json.Unmarshal(b, &ws) != nil {
		return nil
	}
	return ws
}

// subdecReplay drives the real decorator along one schedule of the specification. Every hook point of the run is gated: a goroutine
// of the decorator that reaches one stays there until the schedule releases it, so the interleaving is the schedule's as far
// as the code lets it (where the code has a choice of its own -- the select in the forwarder -- it may leave the schedule; every
// wait is bounded and every harness action is a legal move of the environment, so the recorded trace is judged like any other).
func subdecReplay(r *tr.Run, word []string) {
	prefix := fmt.Sprintf("r%d-", r.ID)
	trim := func(s string) string { return strings.TrimPrefix(s, prefix) }
	inner := scripted.NewSub("inner")
	dec, err := message.MessageTransformSubscriberDecorator(func(*message.Message) {})(inner)
	if err != nil {
		r.Emit("error", "what", err.Error())
		return
	}
	onHook := func(point string, ids []string) {
		if f, ok := subdecHooks[point]; ok && len(ids) > 0 {
			g := f(ids, trim)
			if g == "closer" {
				g = "closer:c1"
			}
			r.Emit("hook", "g", g, "point", point)
		}
	}
	defer sched.Observe(prefix, onHook)()
	defer sched.ObserveID(verifhook.Ptr(dec), onHook)()

	const step = 150 * time.Millisecond
	type subSt struct {
		ctx      context.Context
		cancel   context.CancelFunc
		topic    string
		gAdded   *sched.Gate
		gClosed  *sched.Gate
		gOut     []*sched.Gate
		called   bool
		returned chan struct{} // Subscribe has returned
		ok       bool
		recvCmd  chan struct{}
		recvDone chan struct{}
		pending  int32 // receive commands the consumer has not completed yet
		stopped  bool
		emitted  int
		released int
	}
	var all []*sched.Gate
	park := func(point, id string) *sched.Gate {
		g := sched.Park(point, id)
		all = append(all, g)
		return g
	}
	defer func() {
		for _, g := range all {
			g.Release()
		}
	}()
	st := map[string]*subSt{}
	for _, s := range []string{"s1", "s2"} {
		ctx, cancel := context.WithCancel(verifhook.WithName(context.Background(), prefix+s))
		x := &subSt{ctx: ctx, cancel: cancel, topic: "t-" + s, returned: make(chan struct{}), recvCmd: make(chan struct{}, 8), recvDone: make(chan struct{}, 8)}
		x.gAdded = park("decorator.subscribe.added", prefix+s)
		x.gClosed = park("decorator.sub.closed", prefix+s)
		for i := 1; i <= subdecK; i++ {
			x.gOut = append(x.gOut, park("decorator.sub.before_out", fmt.Sprintf("%s%s-m%d", prefix, s, i)))
		}
		st[s] = x
		defer cancel()
	}
	innerStart := make(chan struct{}) // the inner subscriber's Close goes ahead (schedule step "innerstart")
	var innerStartOnce sync.Once
	letInnerClose := func() { innerStartOnce.Do(func() { close(innerStart) }) }
	defer letInnerClose()
	inner.BeforeClose = func() { <-innerStart }
	gInner := park("decorator.close.inner_closed", verifhook.Ptr(dec))
	gSignalled := park("decorator.close.signalled", verifhook.Ptr(dec))
	gWaited := park("decorator.close.waited", verifhook.Ptr(dec))
	var wg sync.WaitGroup
	closeCalled := false
	for _, w := range word {
		op, s := w, ""
		if i := strings.Index(w, ":"); i >= 0 {
			op, s = w[:i], w[i+1:]
		}
		x := st[s]
		switch op {
		case "sub":
			if x.called {
				continue
			}
			x.called = true
			wg.Add(1)
			go func(s string, x *subSt) {
				defer wg.Done()
				r.Emit("subcall", "s", s)
				ch, err := dec.Subscribe(x.ctx, x.topic)
				x.ok = err == nil
				r.Emit("subret", "s", s, "ok", err == nil)
				close(x.returned)
				if err != nil {
					return
				}
				for range x.recvCmd { // the consumer receives only when the schedule says so
					m, ok := <-ch
					if !ok {
						r.Emit("outclosed", "s", s)
						atomic.AddInt32(&x.pending, -1)
						return
					}
					var i int
					fmt.Sscanf(trim(m.UUID), s+"-m%d", &i)
					r.Emit("recv", "s", s, "i", i)
					m.Ack()
					atomic.AddInt32(&x.pending, -1)
					x.recvDone <- struct{}{}
				}
			}(s, x)
			select { // the call is inside the decorator: parked after Add, back with an error, or waiting for the lock
			case <-x.gAdded.ArrivedCh():
			case <-x.returned:
			case <-time.After(step / 3):
			}
		case "added":
			if x.called && x.gAdded.Arrived(step) {
				x.gAdded.Release()
				<-waitOr(x.returned, step)
			}
		case "emit":
			select {
			case <-x.returned:
			default:
				continue
			}
			if !x.ok || x.emitted >= subdecK {
				continue
			}
			sps := inner.Subs(x.topic)
			if len(sps) == 0 {
				continue
			}
			x.emitted++
			i := x.emitted
			wg.Add(1)
			go func() {
				defer wg.Done()
				r.Emit("emit", "s", s)
				sps[0].Send(message.NewMessage(fmt.Sprintf("%s%s-m%d", prefix, s, i), nil))
			}()
			x.gOut[i-1].Arrived(step / 3)
		case "deliver", "drop":
			if x.released >= x.emitted {
				continue
			}
			if op == "deliver" && !x.stopped && x.ok {
				if atomic.LoadInt32(&x.pending) == 0 {
					atomic.AddInt32(&x.pending, 1)
					x.recvCmd <- struct{}{}
					time.Sleep(200 * time.Microsecond) // (the consumer gets to its receive)
				}
			}
			g := x.gOut[x.released]
			x.released++
			if g.Arrived(step / 3) {
				g.Release()
			}
			if op == "deliver" {
				select {
				case <-x.recvDone:
				case <-time.After(step / 3):
				}
			}
		case "outclosed":
			if x.called && x.gClosed.Arrived(step) {
				x.gClosed.Release()
			}
		case "cancel":
			r.Emit("cancel", "s", s)
			x.cancel()
		case "stopread":
			if x.stopped || atomic.LoadInt32(&x.pending) > 0 {
				continue // a receive is under way: the consumer cannot be said to have stopped
			}
			x.stopped = true
			r.Emit("stopread", "s", s)
		case "close":
			if closeCalled {
				continue
			}
			closeCalled = true
			wg.Add(1)
			go func() {
				defer wg.Done()
				r.Emit("closecall", "c", "c1")
				_ = dec.Close()
				r.Emit("closeret", "c", "c1")
			}()
		case "innerstart":
			letInnerClose()
			gInner.Arrived(step / 3)
		case "innerclosed":
			if closeCalled && gInner.Arrived(step) {
				gInner.Release()
			}
		case "signalled":
			if closeCalled && gSignalled.Arrived(step) {
				gSignalled.Release()
			}
		case "waited":
			if closeCalled && gWaited.Arrived(step) {
				gWaited.Release()
			}
		}
	}
	// the schedule is over: everything is let go, Close is called if it was not, and the run is left to finish
	letInnerClose()
	for _, g := range all {
		g.Release()
	}
	if !closeCalled {
		wg.Add(1)
		go func() {
			defer wg.Done()
			r.Emit("closecall", "c", "c1")
			_ = dec.Close()
			r.Emit("closeret", "c", "c1")
		}()
	}
	for _, x := range st {
		close(x.recvCmd)
	}
	if !WaitOrHang(waitWG(&wg)) {
		r.Emit("hung", "what", "decorator schedule")
		return
	}
	r.Emit("end")
	r.NonTrivial = true
}
