package props

import (
	"context"
	"encoding/json"
	"errors"
	"fmt"
	"hash/fnv"
	"reflect"
	"time"

	"github.com/ThreeDotsLabs/watermill/components/cqrs"
	"github.com/ThreeDotsLabs/watermill/message"
	"google.golang.org/protobuf/proto"
	"google.golang.org/protobuf/types/known/durationpb"
	"google.golang.org/protobuf/types/known/wrapperspb"

	"wmverif/scripted"
	"wmverif/tr"
)

func init() { Registry["C15"] = runC15 }

type C15A struct {
	S string
	N int
}
type C15B struct {
	L []string
	M map[string]int
}
type C15C struct{ X float64 }

func (C15C) Name() string { return "custom-c" }

type c15Handler struct {
	Type  int // 1 or 2
	Fails bool
}

type c15Case struct {
	Kind     string // command | event | group
	Codec    string // json | proto
	NameGen  string // default | struct | named
	AckUnk   bool
	AckErr   bool
	Registry []c15Handler
	Split    bool // group kind: the first handler forms one group, the others a second group of the same processor
	Hook     bool // the processor is configured with an OnHandle hook that calls the handler with the message's context
}

func (cs c15Case) grp(k int) int {
	if cs.Split && k > 0 {
		return 2
	}
	return 1
}

// c15ExpName is the type name a value goes by, computed without the marshaler: the fully qualified type name by default, what the
// configured generator says otherwise (a value's own Name() method counts only with NamedStruct).
func c15ExpName(cs c15Case, v any) string {
	switch cs.NameGen {
	case "struct":
		return cqrs.StructName(v)
	case "named":
		if n, ok := v.(interface{ Name() string }); ok {
			return n.Name()
		}
		return cqrs.StructName(v)
	}
	return cqrs.FullyQualifiedStructName(v)
}

func c15Marshaler(cs c15Case) cqrs.CommandEventMarshaler {
	var gen func(v interface{}) string
	switch cs.NameGen {
	case "struct":
		gen = cqrs.StructName
	case "named":
		gen = cqrs.NamedStruct(cqrs.StructName)
	}
	if cs.Codec == "proto" {
		return cqrs.ProtoMarshaler{GenerateName: gen}
	}
	return cqrs.JSONMarshaler{GenerateName: gen}
}

// values of the type family (index 1, 2 = registered types, 3 = a type nobody handles)
func c15Value(cs c15Case, t int, k int) any {
	if cs.Codec == "proto" {
		if k%7 == 3 {
			// the zero value of the type (an "empty" signal: no bytes on the wire) is a value like any other
			switch t {
			case 1:
				return wrapperspb.String("")
			case 2:
				return durationpb.New(0)
			}
		}
		switch t {
		case 1:
			return wrapperspb.String(fmt.Sprintf("v%d \"quoted\" é世 \x01", k))
		case 2:
			return durationpb.New(time.Duration(k) * 1234567 * time.Microsecond)
		default:
			return wrapperspb.Int64(int64(k) - 5)
		}
	}
	switch t {
	case 1:
		return &C15A{S: fmt.Sprintf("v%d <&> \"q\"   é", k), N: k - 3}
	case 2:
		return &C15B{L: []string{"", "a", fmt.Sprint(k)}[:1+k%3], M: map[string]int{"": 0, fmt.Sprintf("k%d", k%4): k}} // (keys and lengths vary from value to value)
	default:
		return &C15C{X: float64(k) / 4}
	}
}

func c15Equal(a, b any) bool {
	pa, ok1 := a.(proto.Message)
	pb, ok2 := b.(proto.Message)
	if ok1 && ok2 {
		return proto.Equal(pa, pb)
	}
	return reflect.DeepEqual(a, b)
}

func runC15(c *Ctx) error {
	T := c.Trace("CqrsTrace")
	var cases []c15Case
	var regs [][]c15Handler
	for _, t1 := range []int{1, 2} {
		for _, f1 := range []bool{false, true} {
			regs = append(regs, []c15Handler{{t1, f1}})
			for _, t2 := range []int{1, 2} {
				for _, f2 := range []bool{false, true} {
					regs = append(regs, []c15Handler{{t1, f1}, {t2, f2}})
					if c.Thorough() || (t1+t2)%2 == 0 {
						for _, t3 := range []int{1, 2} {
							regs = append(regs, []c15Handler{{t1, f1}, {t2, f2}, {t3, t3 == 1}})
						}
					}
				}
			}
		}
	}
	i := 0
	for _, kind := range []string{"command", "event", "group"} {
		for _, reg := range regs {
			if kind == "command" {
				seen := map[int]bool{}
				dup := false
				for _, h := range reg {
					dup = dup || seen[h.Type]
					seen[h.Type] = true
				}
				if dup {
					continue // the command processor rejects two handlers for one command type
				}
			}
			for _, au := range []bool{false, true} {
				for _, ae := range []bool{false, true} {
					if kind != "command" && ae {
						continue
					}
					if kind == "command" && au {
						continue
					}
					i++
					cases = append(cases, c15Case{Kind: kind, Codec: []string{"json", "proto"}[i%2], NameGen: []string{"default", "struct", "named"}[i%3],
						AckUnk: au, AckErr: ae, Registry: reg, Hook: i%4 < 2})
					if kind == "group" && len(reg) >= 2 {
						i++
						cases = append(cases, c15Case{Kind: kind, Codec: []string{"json", "proto"}[i%2], NameGen: []string{"default", "struct", "named"}[i%3],
							AckUnk: au, AckErr: ae, Registry: reg, Hook: i%4 < 2, Split: true})
					}
				}
			}
		}
	}
	runs := make([]*tr.Run, len(cases))
	for i, cs := range cases {
		m := c15Marshaler(cs)
		reg := []map[string]any{}
		for k, h := range cs.Registry {
			reg = append(reg, map[string]any{"h": k + 1, "type": m.Name(c15Value(cs, h.Type, 0)), "fails": h.Fails, "grp": cs.grp(k)})
		}
		runs[i] = T.NewRun(cs.Kind+"/"+cs.Codec+"/"+cs.NameGen, map[string]any{"kind": cs.Kind, "flags": map[string]any{"ackUnknown": cs.AckUnk, "ackErrors": cs.AckErr}, "registry": reg})
		runs[i].Key = fmt.Sprintf("%+v", cs)
	}
	Parallel(len(cases), func(i int) { c15Run(runs[i], cases[i]) })
	c.AddStat("cases", len(cases))
	return nil
}

// c15If returns f when on, else the zero value (no hook configured).
func c15If[F any](on bool, f F) F {
	if on {
		return f
	}
	var zero F
	return zero
}

// c15Shard derives a topic suffix from the VALUE of a command / event (per-tenant topics).
func c15Shard(v any) string {
	b, _ := json.Marshal(v)
	h := fnv.New32a()
	_, _ = h.Write(b)
	return fmt.Sprintf("shard%d", h.Sum32()%5)
}

type c15Generic struct {
	name string
	newV func() any
	fn   func(ctx context.Context, v any) error
}

func (g c15Generic) HandlerName() string                     { return g.name }
func (g c15Generic) NewCommand() any                         { return g.newV() }
func (g c15Generic) NewEvent() any                           { return g.newV() }
func (g c15Generic) Handle(ctx context.Context, v any) error { return g.fn(ctx, v) }

func c15New(cs c15Case, t int) func() any {
	return func() any {
		v := c15Value(cs, t, 0)
		return reflect.New(reflect.TypeOf(v).Elem()).Interface()
	}
}

func c15Run(r *tr.Run, cs c15Case) {
	m := c15Marshaler(cs)
	router, _ := message.NewRouter(message.RouterConfig{CloseTimeout: 2 * time.Second}, nil)
	sent := map[string]any{} // message uuid -> value sent
	consumed := map[string]*message.Message{}
	subs := []*scripted.Sub{}
	var handlers []c15Generic
	for k, h := range cs.Registry {
		k, h := k, h
		handlers = append(handlers, c15Generic{name: fmt.Sprintf("r%d-h%d", r.ID, k+1), newV: c15New(cs, h.Type), fn: func(ctx context.Context, v any) error {
			orig := cqrs.OriginalMessageFromCtx(ctx)
			id := ""
			if orig != nil {
				id = orig.UUID
			}
			r.Emit("invoke", "m", id, "h", k+1, "valueok", c15Equal(v, sent[id]), "orig", orig != nil && orig == consumed[id])
			// handlers own their argument: this one overwrites it, which must not be visible to any other handler
			if pm, ok := v.(proto.Message); ok {
				proto.Reset(pm)
			} else {
				switch x := v.(type) { // (not zeroed: a value that is reused for the next message would carry this over)
				case *C15A:
					*x = C15A{S: "poison", N: -1}
				case *C15B:
					*x = C15B{L: []string{"poison"}, M: map[string]int{"poisoned": 1}}
				case *C15C:
					*x = C15C{X: -1}
				default:
					rv := reflect.ValueOf(v).Elem()
					rv.Set(reflect.Zero(rv.Type()))
				}
			}
			if h.Fails {
				return errors.New("scripted handler failure")
			}
			return nil
		}})
	}
	mkSub := func() *scripted.Sub {
		s := scripted.NewSub("s")
		subs = append(subs, s)
		return s
	}
	var err error
	switch cs.Kind {
	case "command":
		var p *cqrs.CommandProcessor
		p, err = cqrs.NewCommandProcessorWithConfig(router, cqrs.CommandProcessorConfig{
			GenerateSubscribeTopic: func(cqrs.CommandProcessorGenerateSubscribeTopicParams) (string, error) { return "t", nil },
			SubscriberConstructor: func(cqrs.CommandProcessorSubscriberConstructorParams) (message.Subscriber, error) {
				return mkSub(), nil
			},
			Marshaler: m, AckCommandHandlingErrors: cs.AckErr,
			OnHandle: c15If(cs.Hook, func(p cqrs.CommandProcessorOnHandleParams) error {
				return p.Handler.Handle(p.Message.Context(), p.Command)
			}),
		})
		if err == nil {
			for _, h := range handlers {
				if e := p.AddHandlers(h); e != nil {
					err = e
				}
			}
		}
	case "event":
		var p *cqrs.EventProcessor
		p, err = cqrs.NewEventProcessorWithConfig(router, cqrs.EventProcessorConfig{
			GenerateSubscribeTopic: func(cqrs.EventProcessorGenerateSubscribeTopicParams) (string, error) { return "t", nil },
			SubscriberConstructor:  func(cqrs.EventProcessorSubscriberConstructorParams) (message.Subscriber, error) { return mkSub(), nil },
			Marshaler:              m, AckOnUnknownEvent: cs.AckUnk,
			OnHandle: c15If(cs.Hook, func(p cqrs.EventProcessorOnHandleParams) error { return p.Handler.Handle(p.Message.Context(), p.Event) }),
		})
		if err == nil {
			for _, h := range handlers {
				if e := p.AddHandlers(h); e != nil {
					err = e
				}
			}
		}
	default:
		var p *cqrs.EventGroupProcessor
		p, err = cqrs.NewEventGroupProcessorWithConfig(router, cqrs.EventGroupProcessorConfig{
			GenerateSubscribeTopic: func(cqrs.EventGroupProcessorGenerateSubscribeTopicParams) (string, error) { return "t", nil },
			SubscriberConstructor: func(cqrs.EventGroupProcessorSubscriberConstructorParams) (message.Subscriber, error) {
				return mkSub(), nil
			},
			Marshaler: m, AckOnUnknownEvent: cs.AckUnk,
			OnHandle: c15If(cs.Hook, func(p cqrs.EventGroupProcessorOnHandleParams) error {
				return p.Handler.Handle(p.Message.Context(), p.Event)
			}),
		})
		if err == nil {
			for g := 1; g <= 2 && err == nil; g++ {
				var gh []cqrs.GroupEventHandler
				for k, h := range handlers {
					if cs.grp(k) == g {
						gh = append(gh, h)
					}
				}
				if len(gh) > 0 {
					err = p.AddHandlersGroup(fmt.Sprintf("r%d-group%d", r.ID, g), gh...)
				}
			}
		}
	}
	if err != nil {
		r.Emit("error", "what", err.Error())
		return
	}
	ctx, cancel := context.WithCancel(context.Background())
	defer cancel()
	go func() { _ = router.Run(ctx) }()
	select {
	case <-router.Running():
	case <-time.After(HangBound):
		r.Emit("hung", "what", "router start")
		return
	}
	seq := 0
	var prev *message.Message
	feed := func(on int, name string, wellformed bool, val any, payload []byte) bool {
		seq++
		id := fmt.Sprintf("r%d-m%d", r.ID, seq)
		// a message that was Nacked comes again (same UUID, same content, a new delivery): it is dispatched like the first time
		for delivery := 1; delivery <= 2; delivery++ {
			msg := message.NewMessage(id, payload)
			if name != "" {
				msg.Metadata.Set("name", name)
			}
			sent[id] = val
			consumed[id] = msg
			if seq%2 == 0 && prev != nil {
				// the message travels with a context that was derived from the handling of another message
				msg.SetContext(cqrs.CtxWithOriginalMessage(context.Background(), prev))
			}
			if seq%3 == 0 {
				// ... or with a context that is done already (the delivery was abandoned upstream): dispatch and settlement are the same
				dctx, dcancel := context.WithCancel(msg.Context())
				dcancel()
				msg.SetContext(dctx)
			}
			r.Emit("msg", "m", id, "name", name, "wellformed", wellformed, "on", on+1)
			if !subs[on].Emit("t", msg) {
				r.Emit("hung", "what", "emit")
				return false
			}
			select {
			case <-msg.Acked():
				r.Emit("settled", "m", id, "kind", "ack")
				prev = msg
				return true
			case <-msg.Nacked():
				r.Emit("settled", "m", id, "kind", "nack")
			case <-time.After(HangBound):
				r.Emit("hung", "what", "not settled")
				return false
			}
			if delivery == 2 {
				prev = msg
			}
		}
		return true
	}
	for on := range subs {
		for round := 0; round < 2; round++ { // every handler sees each type more than once: a value never depends on an earlier message
			for t := 1; t <= 3; t++ {
				v := c15Value(cs, t, seq+1)
				mm, e := m.Marshal(v)
				if e != nil {
					r.Emit("error", "what", e.Error())
					return
				}
				if !feed(on, m.NameFromMessage(mm), true, v, mm.Payload) {
					return
				}
			}
		}
		v := c15Value(cs, 1, 99)
		mm, _ := m.Marshal(v)
		garbage := []byte("{\"S\": 12, broken")
		if cs.Codec == "proto" {
			garbage = []byte{0xff, 0xff, 0xff, 0x01, 0x02}
		}
		trailing := append(append([]byte{}, mm.Payload...), []byte(` {"more":1}`)...) // a complete document followed by more data is not a document
		if cs.Codec == "proto" {
			trailing = garbage
		}
		if !feed(on, m.NameFromMessage(mm), false, v, garbage) || // malformed payload of a known type
			!feed(on, m.NameFromMessage(mm), false, v, trailing) ||
			!feed(on, "foreign.Type", true, nil, mm.Payload) || // foreign type name
			!feed(on, "", true, nil, mm.Payload) { // no type name at all
			return
		}
	}
	_ = router.Close()
	// buses
	pub := scripted.NewPub("capture")
	topicOf := func(name string) string { return "topic-" + name }
	hookMode := "none" // none | mark | fail: what the OnSend / OnPublish hook of the bus does with the message
	hook := func(msg *message.Message) error {
		switch hookMode {
		case "mark":
			msg.Metadata.Set("hooked", "1")
		case "fail":
			return errors.New("scripted hook failure")
		}
		return nil
	}
	cb, e1 := cqrs.NewCommandBusWithConfig(pub, cqrs.CommandBusConfig{GeneratePublishTopic: func(p cqrs.CommandBusGeneratePublishTopicParams) (string, error) {
		return topicOf(p.CommandName) + "/" + c15Shard(p.Command), nil
	}, Marshaler: m, OnSend: func(p cqrs.CommandBusOnSendParams) error { return hook(p.Message) }})
	eb, e2 := cqrs.NewEventBusWithConfig(pub, cqrs.EventBusConfig{GeneratePublishTopic: func(p cqrs.GenerateEventPublishTopicParams) (string, error) {
		return topicOf(p.EventName) + "/" + c15Shard(p.Event), nil
	}, Marshaler: m, OnPublish: func(p cqrs.OnEventSendParams) error { return hook(p.Message) }})
	if e1 != nil || e2 != nil {
		r.Emit("error", "what", "bus construction")
		return
	}
	type c15CtxKey struct{}
	pubFail := false
	pub.Fn = func(int, string, []*message.Message) error {
		if pubFail {
			return errors.New("scripted publisher failure")
		}
		return nil
	}
	for t := 1; t <= 3; t++ {
		for which := 0; which < 8; which++ {
			v := c15Value(cs, t, 10+t+7*(which/2)) // several values of each type: the topic is generated per message
			hookMode = []string{"none", "mark", "fail"}[(t+which/2)%3]
			pubFail = which >= 6 // the publisher refuses: offered once, the error goes to the caller
			if pubFail && hookMode == "fail" {
				hookMode = "none"
			}
			before := len(pub.Calls())
			sendCtx := context.WithValue(context.Background(), c15CtxKey{}, which)
			var e error
			var sendV any = v
			if a, ok := v.(*C15A); ok && which >= 4 {
				sendV = &a // a generic helper took the address of what was a pointer already: still a C15A (JSON encodes it alike)
			}
			if which%2 == 0 {
				e = cb.Send(sendCtx, sendV)
			} else {
				e = eb.Publish(sendCtx, sendV)
			}
			calls := pub.Calls()[before:]
			topic, name, round, marked, ctxok := "", "", false, false, false
			if len(calls) >= 1 && len(calls[0].Msgs) == 1 {
				topic = calls[0].Topic
				pm := calls[0].Msgs[0]
				name = m.NameFromMessage(pm)
				out := c15New(cs, t)()
				round = m.Unmarshal(pm, out) == nil && c15Equal(out, v)
				marked = pm.Metadata.Get("hooked") == "1"
				ctxok = pm.Context().Value(c15CtxKey{}) == which
			}
			r.Emit("bus", "calls", len(calls), "topic", topic, "name", name, "exptopic", topicOf(c15ExpName(cs, v))+"/"+c15Shard(v), "expname", c15ExpName(cs, v), "roundtrip", round,
				"hook", hookMode, "marked", marked, "ctxok", ctxok, "err", e != nil, "pubfail", pubFail)
		}
	}
	r.NonTrivial = len(cs.Registry) >= 2
}
