package props

import (
	"context"
	"errors"
	"fmt"
	pkgerrors "github.com/pkg/errors"
	"runtime/pprof"
	"strings"
	"sync"
	"time"

	"github.com/ThreeDotsLabs/watermill/components/cqrs"
	"github.com/ThreeDotsLabs/watermill/components/requestreply"
	"github.com/ThreeDotsLabs/watermill/message"
	"github.com/ThreeDotsLabs/watermill/pubsub/gochannel"

	"wmverif/sched"
	"wmverif/scripted"
	"wmverif/tr"
)

func init() { Registry["C18"] = runC18 }

type c18Cmd struct {
	Caller string `json:"caller"`
	FailN  int    `json:"fail_n"` // the handler fails the first FailN deliveries
	Empty  bool   `json:"empty"`  // ... with an error whose text is empty
	Wraps  string `json:"wraps"`  // ... with an error that wraps context.Canceled ("canceled") / context.DeadlineExceeded ("deadline"): an error like any other
}

type c18WrapErr struct{ inner error }

func (c18WrapErr) Error() string   { return "scripted handler error" }
func (e c18WrapErr) Unwrap() error { return e.inner }

type c18EmptyErr struct{}

func (c18EmptyErr) Error() string { return "" }

type c18Res struct {
	Caller string `json:"caller"`
	N      int    `json:"n"`
}

// a second command type whose result is NOT a JSON object: its backend shares the reply topic with the first one
type c18CmdB struct {
	Caller string `json:"caller"`
}

func c18CallerOf(cmd any) string {
	switch v := cmd.(type) {
	case *c18Cmd:
		return v.Caller
	case *c18CmdB:
		return v.Caller
	}
	return "?"
}

type c18Caller struct {
	Name    string
	Behav   string // drain | readone | noread | cancelearly | sendwithreply
	FailN   int
	PubFail bool // the first publish of a reply for this caller fails
}

type c18Case struct {
	Swallow   bool // the backend has a ReplyPublishErrorHandler that swallows a failed reply publish: the command is then settled as if the reply had gone out
	Class     string
	AckErrors bool
	Timeout   time.Duration // ListenForReplyTimeout (0: none)
	Callers   []c18Caller
	ShutdownAtPub bool // the router is shut down (its context cancelled: the context of the command in hand ends) while the reply is being published -- the publish takes 40 ms; the command is settled by its outcome all the same, and only once the reply is out
	PresetOp  bool // an OnSend hook of the command bus has already put something under the operation-id metadata key (metadata propagated from the command that is being handled, say): the request still gets its own id
	Foreign   int // concurrent requests of the other command type (result type []string) on the same reply topic
}

type c18Pub struct {
	message.Publisher
	hold func()
	on   func(topic string, msgs []*message.Message, err error)
	fail func(msgs []*message.Message) bool
}

func (p c18Pub) Publish(topic string, msgs ...*message.Message) error {
	if p.hold != nil {
		p.hold()
	}
	if p.fail != nil && p.fail(msgs) {
		return errors.New("scripted reply publish failure")
	}
	err := p.Publisher.Publish(topic, msgs...)
	p.on(topic, msgs, err)
	return err
}

const c18MultiLine = "scripted handler error\n\tdetail: line two\r\nline three\n"

func runC18(c *Ctx) error {
	T := c.Trace("RequestReplyTrace")
	behavs := []string{"drain", "readone", "noread", "cancelearly", "sendwithreply"}
	var cases []c18Case
	for _, ack := range []bool{false, true} {
		for _, b := range behavs {
			for _, fail := range []int{0, 1, 2} {
				cases = append(cases, c18Case{Class: "single/" + b, AckErrors: ack, Callers: []c18Caller{{"c1", b, fail, false}}})
			}
		}
		cases = append(cases, c18Case{Class: "timeout", AckErrors: ack, Timeout: 60 * time.Millisecond,
			Callers: []c18Caller{{"c1", "drain", 2, false}, {"c2", "noread", 2, false}, {"c3", "readone", 1, false}}})
		// a request whose handler never succeeds keeps producing replies (and other requests keep the topic busy): the time-out ends the listener all the same
		cases = append(cases, c18Case{Class: "timeout-busy-topic", AckErrors: false, Timeout: 80 * time.Millisecond,
			Callers: []c18Caller{{"c1", "drain", 100000, false}, {"c2", "noread", 100000, false}, {"c3", "sendwithreply", 0, false}}})
		// a handler error with an empty text is still an error
		cases = append(cases, c18Case{Class: "empty-error-text", AckErrors: ack,
			Callers: []c18Caller{{"c1e", "drain", 1, false}, {"c2e", "sendwithreply", 1, false}, {"c3", "drain", 1, false}}})
		// a handler error that wraps a context error (the handler's own database call timed out, say) is a handler error
		cases = append(cases, c18Case{Class: "context-error-from-handler", AckErrors: ack,
			Callers: []c18Caller{{"c1x", "drain", 1, false}, {"c2y", "sendwithreply", 1, false}, {"c3", "drain", 1, false}, {"c4y", "readone", 2, false}}})
		// ... and so is one whose text comes from several layers of wrapping
		cases = append(cases, c18Case{Class: "wrapped-error-from-handler", AckErrors: ack,
			Callers: []c18Caller{{"c1w", "drain", 1, false}, {"c2w", "sendwithreply", 1, false}, {"c3", "drain", 1, false}}})
		// the command message arrives at SendWithReplies' modify step with an operation id already in its metadata
		cases = append(cases, c18Case{Class: "preset-operation-id", AckErrors: ack, PresetOp: true,
			Callers: []c18Caller{{"c1", "drain", 1, false}, {"c2", "sendwithreply", 0, false}, {"c3", "readone", 0, false}, {"c4", "drain", 0, false}}})
		// the caller's context is done before the request is made: one time-out reply, the channel closes, the listener's hook runs
		cases = append(cases, c18Case{Class: "caller-context-already-done", AckErrors: ack,
			Callers: []c18Caller{{"c1", "precancelled", 0, false}, {"c2", "drain", 1, false}, {"c3", "precancelled", 1, false}}})
		// the command's context ends while its reply is being published (the router is shut down at that moment)
		cases = append(cases, c18Case{Class: "shutdown-during-reply-publish", AckErrors: ack, ShutdownAtPub: true, Callers: []c18Caller{{"c1", "drain", 0, false}}})
		// a handler error whose text has several lines
		cases = append(cases, c18Case{Class: "multi-line-error-text", AckErrors: ack,
			Callers: []c18Caller{{"c1n", "drain", 1, false}, {"c2n", "sendwithreply", 1, false}, {"c3", "drain", 1, false}}})
		// the publish of the reply fails once: the command must be Nacked and redelivered whatever AckCommandErrors says
		for _, fail := range []int{0, 1} {
			cases = append(cases, c18Case{Class: "reply-publish-fails", AckErrors: ack, Callers: []c18Caller{{"c1", "drain", fail, true}, {"c2", "readone", 0, false}}})
		}
		if !ack {
			// ... unless a ReplyPublishErrorHandler swallows the publish error: then the handler's own outcome decides (here: an error, so Nack and redelivery)
			cases = append(cases, c18Case{Class: "reply-publish-error-swallowed", AckErrors: false, Swallow: true, Callers: []c18Caller{{"c1", "drain", 1, true}, {"c2", "readone", 0, false}}})
		}
		{
			cs := c18Case{Class: "cancel-at-reply-publish", AckErrors: ack}
			for i := 0; i < 48; i++ {
				cs.Callers = append(cs.Callers, c18Caller{fmt.Sprintf("k%d", i+1), "cancelonpub", i % 2, false})
			}
			cases = append(cases, cs)
		}
		for _, n := range []int{2, 8, 32} {
			cs := c18Case{Class: fmt.Sprintf("concurrent/%d", n), AckErrors: ack}
			for i := 0; i < n; i++ {
				cs.Callers = append(cs.Callers, c18Caller{fmt.Sprintf("c%d", i+1), behavs[c.Rng.Intn(len(behavs))], c.Rng.Intn(3), c.Rng.Intn(6) == 0})
			}
			cases = append(cases, cs)
		}
	}
	// backends with different result types share the reply topic: a reply that cannot even be decoded as the
	// listener's type is still somebody else's reply
	for _, ack := range []bool{false, true} {
		cases = append(cases, c18Case{Class: "mixed-result-types", AckErrors: ack, Foreign: 4,
			Callers: []c18Caller{{"c1", "drain", 1, false}, {"c2", "sendwithreply", 0, false}, {"c3", "readone", 0, false}, {"c4", "sendwithreply", 1, false}}})
	}
	n := c.Pick(10, 2000)
	for i := 0; i < n; i++ {
		cs := c18Case{Class: "random", AckErrors: c.Rng.Intn(2) == 0, Foreign: c.Rng.Intn(3)}
		if c.Rng.Intn(4) == 0 {
			cs.Timeout = time.Duration(30+c.Rng.Intn(60)) * time.Millisecond
			cs.Foreign = 0
		}
		for k := 0; k < 1+c.Rng.Intn(10); k++ {
			cs.Callers = append(cs.Callers, c18Caller{fmt.Sprintf("c%d", k+1), behavs[c.Rng.Intn(len(behavs))], c.Rng.Intn(3), c.Rng.Intn(6) == 0})
		}
		cases = append(cases, cs)
	}
	runs := make([]*tr.Run, len(cases))
	for i, cs := range cases {
		runs[i] = T.NewRun(cs.Class, map[string]any{"ackerrors": cs.AckErrors, "swallow": cs.Swallow})
		runs[i].Key = fmt.Sprintf("%+v", cs)
	}
	sched.SetYield(100)
	Parallel(len(cases), func(i int) { c18Run(runs[i], cases[i]) })
	sched.SetYield(0)
	c.AddStat("cases", len(cases))
	return nil
}

func c18Run(r *tr.Run, cs c18Case) {
	label := fmt.Sprintf("rr-%d", r.ID)
	done := make(chan struct{})
	go pprof.Do(context.Background(), pprof.Labels("wmrun", label), func(context.Context) {
		defer close(done)
		c18Body(r, cs)
	})
	if !WaitOrHang(done) {
		r.Emit("hung", "what", "scenario body")
		return
	}
	var leaked string
	for i := 0; i < 40; i++ {
		leaked = c18Stacks(label)
		if leaked == "" {
			break
		}
		time.Sleep(25 * time.Millisecond)
	}
	if leaked != "" {
		r.Emit("leak", "stacks", leaked)
	}
}

func c18Stacks(label string) string {
	var sb strings.Builder
	_ = pprof.Lookup("goroutine").WriteTo(&sb, 1)
	var out []string
	for _, blk := range strings.Split(sb.String(), "\n\n") {
		if strings.Contains(blk, `"wmrun":"`+label+`"`) && strings.Contains(blk, "ListenForNotifications") {
			out = append(out, "listener goroutine still alive")
		}
	}
	return strings.Join(out, "; ")
}

func c18Body(r *tr.Run, cs c18Case) {
	gc := gochannel.NewGoChannel(gochannel.Config{}, nil)
	defer gc.Close()
	var mu sync.Mutex
	deliveries := map[string]int{}
	nfinished := 0
	finishedCh := map[string]chan struct{}{}
	for _, cl := range cs.Callers {
		finishedCh[cl.Name] = make(chan struct{})
	}
	var tmo *time.Duration
	if cs.Timeout > 0 {
		tmo = &cs.Timeout
	}
	cmdOf, cmdState := map[*message.Message]*message.Message{}, map[*message.Message]string{}
	onPub, pubSeen := map[string]func(){}, map[string]bool{}
	register := func(name string, f func()) {
		mu.Lock()
		onPub[name] = f
		seen := pubSeen[name]
		mu.Unlock()
		if seen {
			f()
		}
	}
	pubFail := map[string]bool{}
	for _, cl := range cs.Callers {
		if cl.PubFail {
			pubFail[cl.Name] = true
		}
	}
	var shutdown func()
	replyPub := c18Pub{Publisher: gc, hold: func() {
		if cs.ShutdownAtPub {
			mu.Lock()
			f := shutdown
			mu.Unlock()
			if f != nil {
				f()
			}
			time.Sleep(40 * time.Millisecond)
		}
	}, on: func(topic string, msgs []*message.Message, err error) {
		if err != nil {
			return
		}
		for _, m := range msgs {
			cn := m.Metadata.Get("caller")
			mu.Lock()
			cst, known := cmdState[m]
			mu.Unlock()
			if !known {
				cst = "none"
			}
			r.Emit("replypub", "c", cn, "n", atoiSafe(m.Metadata.Get("n")), "cmdstate", cst) // the command's settlement when Publish was entered
			mu.Lock()
			f := onPub[cn]
			pubSeen[cn] = true
			mu.Unlock()
			if f != nil {
				f() // (a caller that ends its request the moment its reply has been published)
			}
		}
	}, fail: func(msgs []*message.Message) bool {
		mu.Lock()
		defer mu.Unlock()
		for _, m := range msgs {
			if cm := cmdOf[m]; cm != nil {
				cmdState[m] = scripted.SettleState(cm)
			}
		}
		for _, m := range msgs {
			if cn := m.Metadata.Get("caller"); pubFail[cn] {
				pubFail[cn] = false
				return true
			}
		}
		return false
	}}
	cfg := requestreply.PubSubBackendConfig{
		Publisher:             replyPub,
		SubscriberConstructor: func(requestreply.PubSubBackendSubscribeParams) (message.Subscriber, error) { return gc, nil },
		GeneratePublishTopic:  func(requestreply.PubSubBackendPublishParams) (string, error) { return "replies", nil },
		GenerateSubscribeTopic: func(requestreply.PubSubBackendSubscribeParams) (string, error) {
			return "replies", nil
		},
		ListenForReplyTimeout: tmo,
		AckCommandErrors:      cs.AckErrors,
		ModifyNotificationMessage: func(msg *message.Message, p requestreply.PubSubBackendOnCommandProcessedParams) error {
			cn := c18CallerOf(p.Command)
			mu.Lock()
			n := deliveries[cn]
			mu.Unlock()
			msg.Metadata.Set("caller", cn)
			msg.Metadata.Set("n", fmt.Sprint(n))
			mu.Lock()
			cmdOf[msg] = p.CommandMessage // (its settlement is sampled when the reply is handed to the publisher)
			mu.Unlock()
			return nil
		},
		OnListenForReplyFinished: func(ctx context.Context, p requestreply.PubSubBackendSubscribeParams) {
			cn := c18CallerOf(p.Command)
			r.Emit("finished", "c", cn)
			mu.Lock()
			nfinished++
			if ch := finishedCh[cn]; ch != nil {
				close(ch)
				finishedCh[cn] = nil
			}
			mu.Unlock()
		},
	}
	if cs.Swallow {
		cfg.ReplyPublishErrorHandler = func(string, *message.Message, error) error { return nil }
	}
	backend, err := requestreply.NewPubSubBackend[c18Res](cfg, requestreply.BackendPubsubJSONMarshaler[c18Res]{})
	if err != nil {
		r.Emit("error", "what", err.Error())
		return
	}
	backendB, err := requestreply.NewPubSubBackend[[]string](cfg, requestreply.BackendPubsubJSONMarshaler[[]string]{})
	if err != nil {
		r.Emit("error", "what", err.Error())
		return
	}
	router, _ := message.NewRouter(message.RouterConfig{CloseTimeout: 2 * time.Second}, nil)
	marshaler := cqrs.JSONMarshaler{}
	proc, err := cqrs.NewCommandProcessorWithConfig(router, cqrs.CommandProcessorConfig{
		GenerateSubscribeTopic: func(cqrs.CommandProcessorGenerateSubscribeTopicParams) (string, error) { return "commands", nil },
		SubscriberConstructor: func(cqrs.CommandProcessorSubscriberConstructorParams) (message.Subscriber, error) {
			return gc, nil
		},
		Marshaler: marshaler,
		OnHandle: func(p cqrs.CommandProcessorOnHandleParams) error {
			err := p.Handler.Handle(p.Message.Context(), p.Command)
			cn := c18CallerOf(p.Command)
			mu.Lock()
			n := deliveries[cn]
			mu.Unlock()
			r.Emit("cmdret", "c", cn, "n", n, "ok", err == nil)
			return err
		},
	})
	if err != nil {
		r.Emit("error", "what", err.Error())
		return
	}
	err = proc.AddHandlers(requestreply.NewCommandHandlerWithResult[c18Cmd, c18Res]("h", backend, func(ctx context.Context, cmd *c18Cmd) (c18Res, error) {
		mu.Lock()
		deliveries[cmd.Caller]++
		n := deliveries[cmd.Caller]
		mu.Unlock()
		ok := n > cmd.FailN
		r.Emit("handled", "c", cmd.Caller, "n", n, "ok", ok)
		if !ok {
			if cmd.Empty {
				return c18Res{cmd.Caller, n}, c18EmptyErr{}
			}
			switch cmd.Wraps {
			case "pkg":
				return c18Res{cmd.Caller, n}, pkgerrors.Wrap(errors.New("root cause"), "scripted handler error")
			case "lines":
				return c18Res{cmd.Caller, n}, errors.New(c18MultiLine)
			case "canceled":
				return c18Res{cmd.Caller, n}, c18WrapErr{context.Canceled}
			case "deadline":
				return c18Res{cmd.Caller, n}, c18WrapErr{context.DeadlineExceeded}
			}
			return c18Res{cmd.Caller, n}, errors.New("scripted handler error")
		}
		return c18Res{cmd.Caller, n}, nil
	}), requestreply.NewCommandHandlerWithResult[c18CmdB, []string]("hb", backendB, func(ctx context.Context, cmd *c18CmdB) ([]string, error) {
		mu.Lock()
		deliveries[cmd.Caller]++
		n := deliveries[cmd.Caller]
		mu.Unlock()
		r.Emit("handled", "c", cmd.Caller, "n", n, "ok", true)
		return []string{cmd.Caller, fmt.Sprint(n)}, nil
	}))
	if err != nil {
		r.Emit("error", "what", err.Error())
		return
	}
	bus, err := cqrs.NewCommandBusWithConfig(gc, cqrs.CommandBusConfig{
		GeneratePublishTopic: func(cqrs.CommandBusGeneratePublishTopicParams) (string, error) { return "commands", nil },
		Marshaler:            marshaler,
		OnSend: func(p cqrs.CommandBusOnSendParams) error {
			if cs.PresetOp {
				p.Message.Metadata.Set(requestreply.OperationIDMetadataKey, "operation-of-the-parent-request")
			}
			return nil
		},
	})
	if err != nil {
		r.Emit("error", "what", err.Error())
		return
	}
	rctx, rcancel := context.WithCancel(context.Background())
	defer rcancel()
	mu.Lock()
	shutdown = rcancel
	mu.Unlock()
	go func() { _ = router.Run(rctx) }()
	select {
	case <-router.Running():
	case <-time.After(HangBound):
		r.Emit("hung", "what", "router start")
		return
	}
	var wg sync.WaitGroup
	for _, cl := range cs.Callers {
		cl := cl
		wg.Add(1)
		go func() {
			defer wg.Done()
			mu.Lock()
			fch := finishedCh[cl.Name]
			mu.Unlock()
			c18Caller1(r, cs, cl, bus, backend, fch, register)
		}()
	}
	for i := 0; i < cs.Foreign; i++ {
		name := fmt.Sprintf("f%d", i+1)
		wg.Add(1)
		go func() {
			defer wg.Done()
			c18Foreign(r, name, bus, backendB)
		}()
	}
	if !WaitOrHang(waitWG(&wg)) {
		r.Emit("hung", "what", "callers")
		return
	}
	// the hooks of SendWithReply listeners run asynchronously: give every listener the chance to finish
	deadline := time.Now().Add(HangBound)
	for time.Now().Before(deadline) {
		mu.Lock()
		n := nfinished
		mu.Unlock()
		if n >= len(cs.Callers)+cs.Foreign {
			break
		}
		time.Sleep(2 * time.Millisecond)
	}
	time.Sleep(5 * time.Millisecond)
	r.Emit("quiesce")
	_ = router.Close()
	r.NonTrivial = true
}

// c18Foreign is a caller of the other command type: it reads its reply, cancels and drains.
func c18Foreign(r *tr.Run, name string, bus *cqrs.CommandBus, backend requestreply.Backend[[]string]) {
	ctx, cancelCtx := context.WithCancel(context.Background())
	defer cancelCtx()
	ch, cancel, err := requestreply.SendWithReplies[[]string](ctx, bus, backend, &c18CmdB{Caller: name})
	if err != nil {
		r.Emit("error", "what", err.Error())
		return
	}
	r.Emit("sent", "c", name)
	logReply := func(rep requestreply.Reply[[]string]) {
		var te requestreply.ReplyTimeoutError
		if rep.Error != nil && errors.As(rep.Error, &te) {
			r.Emit("timeoutreply", "c", name)
			return
		}
		from, n := "?", 0
		if rep.NotificationMessage != nil {
			from, n = rep.NotificationMessage.Metadata.Get("caller"), atoiSafe(rep.NotificationMessage.Metadata.Get("n"))
		}
		et := ""
		if rep.Error != nil {
			et = rep.Error.Error()
		}
		if len(rep.HandlerResult) > 0 && rep.HandlerResult[0] != from {
			from = "mixed:" + rep.HandlerResult[0] + "/" + from
		}
		r.Emit("reply", "c", name, "from", from, "n", n, "ok", rep.Error == nil, "errtext", et, "empty", false)
	}
	select {
	case rep, ok := <-ch:
		if ok {
			logReply(rep)
		}
	case <-time.After(1500 * time.Millisecond):
	}
	r.Emit("ended", "c", name, "nochan", false)
	cancel()
	deadline := time.After(HangBound)
	for {
		select {
		case rep, ok := <-ch:
			if !ok {
				r.Emit("chanclosed", "c", name)
				return
			}
			logReply(rep)
		case <-deadline:
			r.Emit("hung", "what", "reply channel never closed", "c", name)
			return
		}
	}
}

func atoiSafe(s string) int {
	n := 0
	fmt.Sscanf(s, "%d", &n)
	return n
}

func c18Caller1(r *tr.Run, cs c18Case, cl c18Caller, bus *cqrs.CommandBus, backend requestreply.Backend[c18Res], finished chan struct{}, register func(string, func())) {
	ctx, cancelCtx := context.WithCancel(context.Background())
	defer cancelCtx()
	if cs.Timeout > 0 && (strings.HasSuffix(cl.Name, "1") || strings.HasSuffix(cl.Name, "3")) {
		// the caller's own context has a deadline too, a much later one: ListenForReplyTimeout still ends the listener
		var c2 context.CancelFunc
		ctx, c2 = context.WithTimeout(ctx, time.Hour)
		defer c2()
	}
	cmd := &c18Cmd{Caller: cl.Name, FailN: cl.FailN, Empty: strings.HasSuffix(cl.Name, "e")}
	if strings.HasSuffix(cl.Name, "x") {
		cmd.Wraps = "canceled"
	} else if strings.HasSuffix(cl.Name, "y") {
		cmd.Wraps = "deadline"
	} else if strings.HasSuffix(cl.Name, "n") {
		cmd.Wraps = "lines"
	} else if strings.HasSuffix(cl.Name, "w") {
		cmd.Wraps = "pkg" // an error wrapped with context (github.com/pkg/errors): the reply carries the whole text
	}
	logReply := func(rep requestreply.Reply[c18Res]) {
		var te requestreply.ReplyTimeoutError
		if rep.Error != nil && errors.As(rep.Error, &te) {
			r.Emit("timeoutreply", "c", cl.Name)
			return
		}
		from, n := rep.HandlerResult.Caller, rep.HandlerResult.N
		if rep.NotificationMessage != nil {
			from, n = rep.NotificationMessage.Metadata.Get("caller"), atoiSafe(rep.NotificationMessage.Metadata.Get("n"))
		}
		et := ""
		if rep.Error != nil {
			et = rep.Error.Error()
		}
		if strings.HasSuffix(cl.Name, "n") && et == c18MultiLine {
			et = "scripted handler error" // (the text arrived as it was, line breaks and all)
		}
		if strings.HasSuffix(cl.Name, "w") && et == "scripted handler error: root cause" {
			et = "scripted handler error" // (the whole text arrived; the specification knows the handler's error by this name)
		}
		if rep.HandlerResult.Caller != "" && rep.HandlerResult.Caller != from {
			from = "mixed:" + rep.HandlerResult.Caller + "/" + from
		}
		r.Emit("reply", "c", cl.Name, "from", from, "n", n, "ok", rep.Error == nil, "errtext", et, "empty", strings.HasSuffix(from, "e"))
	}
	if cl.Behav == "sendwithreply" {
		sctx, scancel := context.WithTimeout(ctx, 2*time.Second)
		r.Emit("ended", "c", cl.Name, "nochan", true) // SendWithReply cancels the listener itself when it returns
		rep, err := requestreply.SendWithReply[c18Res](sctx, bus, backend, cmd)
		scancel()
		r.Emit("sent", "c", cl.Name)
		if err == nil {
			logReply(rep)
		}
		// the listener finishes asynchronously: its hook is the only observable
		return
	}
	if cs.Timeout > 0 {
		// the listener's own time-out will end it -- on a loaded machine even before SendWithReplies has returned
		r.Emit("ended", "c", cl.Name, "nochan", false)
	}
	if cl.Behav == "precancelled" {
		r.Emit("ended", "c", cl.Name, "nochan", false)
		cancelCtx()
	}
	ch, cancel, err := requestreply.SendWithReplies[c18Res](ctx, bus, backend, cmd)
	if err != nil {
		r.Emit("error", "what", err.Error())
		return
	}
	r.Emit("sent", "c", cl.Name)
	end := func() {
		r.Emit("ended", "c", cl.Name, "nochan", false)
		cancel()
	}
	drain := func() {
		deadline := time.After(HangBound)
		for {
			select {
			case rep, ok := <-ch:
				if !ok {
					r.Emit("chanclosed", "c", cl.Name)
					return
				}
				logReply(rep)
			case <-deadline:
				r.Emit("hung", "what", "reply channel never closed", "c", cl.Name)
				return
			}
		}
	}
	// the caller does not read any more: the listener has to finish on its own; only then the channel is looked at again
	abandon := func() bool {
		select {
		case <-finished:
			return true
		case <-time.After(HangBound):
			r.Emit("hung", "what", "listener never finished although the caller had ended the request", "c", cl.Name)
			return false
		}
	}
	switch cl.Behav {
	case "drain":
		// read replies until the handler succeeded (FailN+1 deliveries, or 1 when errors are acked), then cancel and drain
		want := cl.FailN + 1
		if cs.AckErrors {
			want = 1
		}
		got := 0
		// (when a publish of a reply is scripted to fail fewer replies than deliveries come: the wait then ends by time)
		certain := !cl.PubFail && cs.Timeout == 0 && !cs.Swallow
		timeout := time.After(1500 * time.Millisecond)
		if certain {
			timeout = time.After(HangBound)
		}
	loop:
		for got < want {
			select {
			case rep, ok := <-ch:
				if !ok {
					r.Emit("chanclosed", "c", cl.Name)
					return
				}
				logReply(rep)
				got++
			case <-timeout:
				if certain {
					// the listener was subscribed before the command went out and the caller has been reading all the time
					r.Emit("hung", "what", "a reply produced for this caller's command never reached it", "c", cl.Name)
				}
				break loop
			}
		}
		if cs.Timeout == 0 {
			end()
		}
		drain()
	case "readone":
		select {
		case rep, ok := <-ch:
			if ok {
				logReply(rep)
			}
		case <-time.After(1500 * time.Millisecond):
		}
		time.Sleep(30 * time.Millisecond) // more replies may pile up meanwhile
		if cs.Timeout == 0 {
			end()
		}
		if abandon() {
			drain()
		}
	case "noread":
		time.Sleep(40 * time.Millisecond)
		if cs.Timeout == 0 {
			end()
		}
		if abandon() {
			drain()
		}
	case "cancelearly":
		if cs.Timeout == 0 {
			end()
		}
		drain()
	case "precancelled":
		drain()
		abandon() // (the hook of the listener runs whether or not it ever listened)
	case "cancelonpub":
		// the request is ended at the very moment its reply has been published: the reply reaches the listener together with the end
		var once sync.Once
		register(cl.Name, func() { once.Do(end) })
		drain()
	}
}
