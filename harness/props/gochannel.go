package props

import (
	"bytes"
	"context"
	"fmt"
	"math/rand"
	"runtime/pprof"
	"sort"
	"strings"
	"sync"
	"sync/atomic"
	"time"

	"github.com/ThreeDotsLabs/watermill/message"
	"github.com/ThreeDotsLabs/watermill/pubsub/gochannel"
	"github.com/ThreeDotsLabs/watermill/verifhook"

	"wmverif/sched"
	"wmverif/scripted"
	"wmverif/tr"
)

// ---------------------------------------------------------------------------
// Scenario language for the GoChannel family (C04, C05, C07, C11)

type gcSub struct {
	Name        string
	Topic       string
	Behav       string // ack | nack1 | nack2 | mutate | slow | neverack | noread (never receives) | republish:<topic> | peek | stall2 (stalls 1600 ms on its second message) | stall6 (5.6 s on its first)
	Phase       int    // 0 before the publishers, 1 concurrently with them, 2 after they finished
	CancelAfter int    // cancel the subscription context after that many receipts (0 = never)
	CancelAt    int    // or in phase: 1 concurrently with the publishers, 2 after them, 3 after them and together with Close (0 = never)
	Decorators  int    // MessageTransformSubscriberDecorators in front of the Pub/Sub
	StopReading bool   // the consumer stops reading after CancelAfter receipts instead of cancelling
	Deadline    bool   // the Subscribe context ends by its deadline (Err() = DeadlineExceeded) instead of a cancel call
	AfterPubs   bool   // (phase 1) the Subscribe call is made only once the scenario's publishers have returned
	BgCtx       bool   // Subscribe is called with a context that can never be cancelled (values on top of context.Background())
}

type gcPub struct {
	Name    string
	Topic   string
	N       int
	Batch   bool // publish all N messages in one call
	Late    bool // publishes only after everything else of the scenario (the gate event included) has happened
	DeadCtx bool // the published messages carry a context that is already cancelled (it is the publisher's business, not the Pub/Sub's)
}

type gcGate struct {
	Point string // hook point at which a goroutine is parked
	ID    string // "m:<k>" k-th message of the scenario, or "s:<name>"
	Event string // close | close2 | closepair (two overlapping calls) | cancel:<sub> | publish:<topic> | subscribe:<topic>
}

type gcScenario struct {
	Class      string
	Persistent bool
	Blocking   bool
	Buffer     int
	Subs       []gcSub
	Pubs       []gcPub
	CloseAt    int // 1 concurrently with the publishers, 2 after quiescence (always closed at the end anyway), 3 concurrently with the phase-2 Subscribe calls
	Closers    int
	Gate       *gcGate
	Yield      int
	NoMeta     bool // messages are published without any metadata (an empty, non-nil map)
	EmptyUUID  bool // every message is published with an empty UUID: that is what the subscribers get
	SameUUID   bool // every message carries the same UUID (a requeued or re-published copy): they are different messages all the same
	SharedDec  bool // all decorated subscriptions go through ONE decorator object (per depth) instead of one of their own
}

type gcMarker struct{}

// gcDeadlineCtx is a context that ends the way a deadline does: when expire() is called Done() closes and Err() is DeadlineExceeded.
type gcDeadlineCtx struct {
	context.Context
	done chan struct{}
	once sync.Once
}

func (d *gcDeadlineCtx) Done() <-chan struct{} { return d.done }
func (d *gcDeadlineCtx) Err() error {
	select {
	case <-d.done:
		return context.DeadlineExceeded
	default:
		return nil
	}
}
func (d *gcDeadlineCtx) Deadline() (time.Time, bool) { return time.Now().Add(time.Millisecond), true }
func (d *gcDeadlineCtx) expire()                     { d.once.Do(func() { close(d.done) }) }

type gcRunner struct {
	r             *tr.Run
	sc            gcScenario
	g             *gochannel.GoChannel
	prefix        string
	mu            sync.Mutex
	seen          map[*message.Message]bool
	orig          map[string]*message.Message // published originals by short id
	snap          map[string]string
	recvCnt       map[string]*int32
	cancels       map[string]context.CancelFunc
	subsWg        sync.WaitGroup
	pubsWg        sync.WaitGroup
	mseq          int32
	pseq          int32
	lastEv        int64
	closedN       int32
	decs          []message.Subscriber
	closeReturned chan struct{}
	closeOnce     sync.Once
	expMin        map[string]map[string]bool // per subscription: messages that certainly have to arrive (harness' lower bound; used only for waiting)
	ackedBy       map[string]map[string]bool
	subTopic      map[string]string
	subLive       map[string]bool   // Subscribe returned ok, not cancelled, acks eventually
	pubTopic      map[string]string // message -> topic, for publishes that started
	subOK         map[string]int    // subscriptions whose Subscribe returned ok -> number of decorators
	innerClosed   map[string]bool   // gochannel.sub.close.closed seen
	decClosed     map[string]int    // decorator.sub.closed seen (count)
	rng           *rand.Rand
	leakWg        sync.WaitGroup
	gateEvDone    chan struct{} // closed when the call made by the gate event has returned (or the gate was not reached)
	gateEvOnce    sync.Once
	sharedDec     map[int]message.Subscriber
	preClose      func()
}

func gcMetaSnapshot(m *message.Message) string {
	return fmt.Sprintf("%s|%s|%v", m.UUID, string(m.Payload), map[string]string(m.Metadata))
}

func (x *gcRunner) short(id string) string { return strings.TrimPrefix(id, x.prefix) }

func (x *gcRunner) metaOf(mid string) map[string]string {
	if x.sc.NoMeta {
		return map[string]string{}
	}
	if x.sc.SameUUID || x.sc.EmptyUUID {
		// where the UUID does not name the message the trace carries it next to the metadata (compared like the metadata)
		return map[string]string{"k": mid, "empty": "", "__uuid": map[bool]string{true: "same", false: ""}[x.sc.SameUUID]}
	}
	return map[string]string{"k": mid, "empty": ""}
}

// metaSeen is the metadata of a received message as logged (see metaOf).
func (x *gcRunner) metaSeen(m *message.Message) map[string]string {
	if !(x.sc.SameUUID || x.sc.EmptyUUID) {
		return map[string]string(m.Metadata)
	}
	out := map[string]string{"__uuid": x.short(m.UUID)}
	for k, v := range m.Metadata {
		out[k] = v
	}
	return out
}

// mid is the harness' name of a message: taken from the UUID, or (scenarios in which all UUIDs are equal) from its metadata
func (x *gcRunner) mid(m *message.Message) string {
	if x.sc.SameUUID || x.sc.EmptyUUID {
		return m.Metadata.Get("k")
	}
	return x.short(m.UUID)
}

func (x *gcRunner) emit(e string, kv ...any) {
	atomic.StoreInt64(&x.lastEv, time.Now().UnixNano())
	x.r.Emit(e, kv...)
}

func (x *gcRunner) chanClosed(name string) {
	x.mu.Lock()
	x.subLive[name] = false // a closed subscription discharges the harness' expectations
	x.mu.Unlock()
	x.emit("chanclosed", "s", name)
}

// reuse: once Publish has returned, the message object is the publisher's again -- it overwrites it; what subscribers
// receive (now or after a Nack) is what was handed to Publish
func (x *gcRunner) reuse(mid string, msg *message.Message) {
	msg.Payload = []byte("reused-by-the-publisher")
	msg.Metadata.Set("k", "reused")
	msg.Metadata.Set("later", "x")
	x.mu.Lock()
	x.snap[mid] = gcMetaSnapshot(msg)
	x.mu.Unlock()
}

func (x *gcRunner) publish(pname, topic string, n int, batch bool) {
	x.publishCtx(pname, topic, n, batch, false)
}

func (x *gcRunner) publishCtx(pname, topic string, n int, batch bool, deadCtx bool) {
	var batchMsgs []*message.Message
	var batchMids []string
	for i := 0; i < n; i++ {
		k := atomic.AddInt32(&x.mseq, 1)
		mid := fmt.Sprintf("m%d", k)
		msg := message.NewMessage(x.prefix+mid, []byte("payload-"+mid))
		if x.sc.SameUUID {
			msg.UUID = x.prefix + "same"
		}
		if x.sc.EmptyUUID {
			msg.UUID = ""
		}
		if deadCtx {
			// the publisher's context for this message is over (cancelled, and its deadline has passed): that is the publisher's
			// business, the deliveries live by the Subscribe contexts
			dctx, dcancel := context.WithDeadline(context.Background(), time.Now().Add(-time.Minute))
			dcancel()
			msg.SetContext(dctx)
		}
		if !x.sc.NoMeta {
			msg.Metadata.Set("k", mid)
			msg.Metadata.Set("empty", "")
		}
		x.mu.Lock()
		x.orig[mid] = msg
		x.snap[mid] = gcMetaSnapshot(msg)
		x.mu.Unlock()
		if batch {
			batchMsgs = append(batchMsgs, msg)
			batchMids = append(batchMids, mid)
			continue
		}
		pc := fmt.Sprintf("%s.%d", pname, atomic.AddInt32(&x.pseq, 1))
		x.noteStart(mid, topic)
		x.emit("pubstart", "p", pc, "m", mid, "topic", topic, "payload", string(msg.Payload), "meta", x.metaOf(mid), "after", "")
		var err error
		p, v := Guarded(func() { err = x.g.Publish(topic, msg) })
		if p {
			x.emit("panic", "where", "Publish", "val", v)
			return
		}
		x.emit("pubend", "p", pc, "ok", err == nil, "orig", scripted.SettleState(msg))
		x.reuse(mid, msg)
		if i == 0 && x.sc.Gate != nil && strings.HasPrefix(x.sc.Gate.ID, "m:") && len(x.sc.Gate.ID) <= 3 && pname != "g" { // (gates on one of the first messages)
			// the call that the gate event made (e.g. a Subscribe) has returned before this publisher goes on:
			// what it publishes next is then certainly owed to that subscription
			<-waitOr(x.gateEvDone, HangBound)
		}
	}
	if batch && len(batchMsgs) > 0 {
		// one call with several messages: logged as one abstract publish per message, started together, ended together
		var pcs []string
		prev := ""
		for bi, msg := range batchMsgs {
			pc := fmt.Sprintf("%s.%d", pname, atomic.AddInt32(&x.pseq, 1))
			pcs = append(pcs, pc)
			mid := batchMids[bi]
			x.noteStart(mid, topic)
			x.emit("pubstart", "p", pc, "m", mid, "topic", topic, "payload", string(msg.Payload), "meta", x.metaOf(mid), "after", prev)
			prev = pc
		}
		var err error
		p, v := Guarded(func() { err = x.g.Publish(topic, batchMsgs...) })
		if p {
			x.emit("panic", "where", "Publish", "val", v)
			return
		}
		for bi, pc := range pcs {
			x.emit("pubend", "p", pc, "ok", err == nil, "orig", scripted.SettleState(batchMsgs[bi]))
		}
		for bi, msg := range batchMsgs {
			x.reuse(batchMids[bi], msg)
		}
	}
}

func (x *gcRunner) subscribe(s gcSub) {
	ctx, cancel := context.WithCancel(context.Background())
	if s.BgCtx {
		ctx, cancel = context.Background(), func() {}
	}
	if s.Deadline {
		d := &gcDeadlineCtx{Context: context.Background(), done: make(chan struct{})}
		ctx, cancel = d, d.expire
	}
	ctx = context.WithValue(ctx, gcMarker{}, s.Name)
	ctx = verifhook.WithName(ctx, x.prefix+s.Name)
	cnt := new(int32)
	var sub message.Subscriber = x.g
	if x.sc.SharedDec && s.Decorators > 0 {
		x.mu.Lock()
		if x.sharedDec[s.Decorators] == nil {
			var sd message.Subscriber = x.g
			for i := 0; i < s.Decorators; i++ {
				sd, _ = message.MessageTransformSubscriberDecorator(func(m *message.Message) {})(sd)
			}
			x.sharedDec[s.Decorators] = sd
			x.decs = append(x.decs, sd)
		}
		sub = x.sharedDec[s.Decorators]
		x.mu.Unlock()
	} else {
		for i := 0; i < s.Decorators; i++ {
			d, _ := message.MessageTransformSubscriberDecorator(func(m *message.Message) {})(sub)
			sub = d
		}
		if s.Decorators > 0 {
			x.mu.Lock()
			x.decs = append(x.decs, sub)
			x.mu.Unlock()
		}
	}
	x.emit("substart", "s", s.Name, "topic", s.Topic, "neverack", s.Behav == "neverack" || s.Behav == "noread" || s.StopReading)
	x.mu.Lock()
	x.cancels[s.Name] = cancel
	x.recvCnt[s.Name] = cnt
	x.mu.Unlock()
	var ch <-chan *message.Message
	var err error
	p, v := Guarded(func() { ch, err = sub.Subscribe(ctx, s.Topic) })
	if p {
		x.emit("panic", "where", "Subscribe", "val", v)
		return
	}
	if err == nil {
		x.mu.Lock()
		x.subOK[s.Name] = s.Decorators
		x.subTopic[s.Name] = s.Topic
		x.subLive[s.Name] = s.Behav != "neverack" && s.Behav != "noread" && !s.StopReading && s.CancelAfter == 0 && s.CancelAt == 0
		x.expMin[s.Name] = map[string]bool{}
		x.ackedBy[s.Name] = map[string]bool{}
		if x.sc.Persistent { // everything published so far on the topic is replayed
			for m, tp := range x.pubTopic {
				if tp == s.Topic {
					x.expMin[s.Name][m] = true
				}
			}
		}
		x.mu.Unlock()
	}
	// a Subscribe call that comes back with a channel after Close has returned: Close waited for it, so the channel is closed
	// already (looked at for bare subscriptions only: a decorator closes its own channel a moment after the inner one)
	chclosed := "n/a"
	if err == nil && s.Decorators == 0 {
		select {
		case <-x.closeReturned:
			select {
			case _, ok := <-ch:
				chclosed = map[bool]string{true: "no", false: "yes"}[ok]
			default:
				chclosed = "no"
			}
		default:
		}
	}
	x.emit("subend", "s", s.Name, "ok", err == nil, "chclosed", chclosed)
	if err != nil {
		return
	}
	x.subsWg.Add(1)
	go x.consume(s, ch, cnt, cancel, ctx.Done())
}

func (x *gcRunner) consume(s gcSub, ch <-chan *message.Message, cnt *int32, cancel context.CancelFunc, _ <-chan struct{}) {
	defer x.subsWg.Done()
	if s.Behav == "noread" {
		// a consumer that does not look at its channel at all while its subscription lives
		// (it looks at it again only once the Pub/Sub itself has closed it -- seen at the hook in the subscription's Close -- or
		// after the Pub/Sub's Close has returned; what is buffered then is discarded unlogged)
		for closedSeen := false; !closedSeen; {
			x.mu.Lock()
			closedSeen = x.innerClosed[s.Name]
			x.mu.Unlock()
			select {
			case <-x.closeReturned:
				closedSeen = true
			default:
			}
			if !closedSeen {
				time.Sleep(time.Millisecond)
			}
		}
		for range ch {
		}
		x.chanClosed(s.Name)
		return
	}
	nacks := map[string]int{}
	for msg := range ch {
		mid := x.mid(msg)
		x.mu.Lock()
		fresh := !x.seen[msg]
		x.seen[msg] = true
		if o := x.orig[mid]; o == msg {
			fresh = false
		}
		x.mu.Unlock()
		derived := msg.Context().Value(gcMarker{}) == s.Name
		x.emit("recv", "s", s.Name, "m", mid, "payload", string(msg.Payload), "meta", x.metaSeen(msg),
			"fresh", fresh, "ctxlive", msg.Context().Err() == nil, "derived", derived)
		n := int(atomic.AddInt32(cnt, 1))
		if s.StopReading && s.CancelAfter > 0 && n >= s.CancelAfter {
			// stops reading and never settles this message; once Close has returned the
			// channel is looked at again (what is still buffered is discarded unlogged)
			<-x.closeReturned
			for range ch {
			}
			x.chanClosed(s.Name)
			return
		}
		if s.CancelAfter > 0 && n == s.CancelAfter && !s.StopReading {
			x.emit("cancel", "s", s.Name)
			cancel()
		}
		want := 0
		switch {
		case s.Behav == "nack1":
			want = 1
		case s.Behav == "nack2" || s.Behav == "mutate":
			want = 2
		}
		if s.Behav == "peek" {
			// the consumer tries to receive the next message before settling this one: nothing may be receivable
			select {
			case m2, ok := <-ch:
				if ok {
					x.emit("recv", "s", s.Name, "m", x.mid(m2), "payload", string(m2.Payload), "meta", x.metaSeen(m2),
						"fresh", true, "ctxlive", true, "derived", true, "peeked", true)
				} else {
					x.emit("ack", "s", s.Name, "m", mid)
					msg.Ack()
					x.chanClosed(s.Name)
					return
				}
			case <-time.After(8 * time.Millisecond):
			}
		}
		switch {
		case s.Behav == "neverack":
			continue
		case strings.HasPrefix(s.Behav, "republish:"):
			x.publish("c"+s.Name, strings.TrimPrefix(s.Behav, "republish:"), 1, false)
		case s.Behav == "slow":
			time.Sleep(2 * time.Millisecond)
		case s.Behav == "stall2" && n == 2:
			time.Sleep(1600 * time.Millisecond)
		case s.Behav == "stall6" && n == 1:
			time.Sleep(5600 * time.Millisecond) // a consumer that takes its time (longer than any "slow consumer" threshold one may think of)
		}
		if s.Behav == "mutate" {
			msg.Metadata.Set("k", "edited-by-"+s.Name)
			msg.Metadata.Set("extra", "x")
		}
		if nacks[mid] < want {
			nacks[mid]++
			x.emit("nack", "s", s.Name, "m", mid)
			msg.Nack()
			continue
		}
		x.emit("ack", "s", s.Name, "m", mid)
		msg.Ack()
		x.mu.Lock()
		if x.ackedBy[s.Name] != nil {
			x.ackedBy[s.Name][mid] = true
		}
		x.mu.Unlock()
		mctx := msg.Context()
		leakBound := time.Second
		if s.Behav == "stall2" {
			leakBound = 800 * time.Millisecond // (the next message is held for 1600 ms: the context has to end because of the Ack, not because of later deliveries)
		}
		x.leakWg.Add(1)
		go func() {
			defer x.leakWg.Done()
			select {
			case <-mctx.Done():
			case <-time.After(leakBound):
				x.emit("ctxleak", "s", s.Name, "m", mid)
			}
		}()
	}
	x.chanClosed(s.Name)
}

func (x *gcRunner) closePubSub(name string, viaDecorators bool) {
	x.emit("closestart", "c", name)
	var err error
	p, v := Guarded(func() {
		x.mu.Lock()
		decs := append([]message.Subscriber{}, x.decs...)
		x.mu.Unlock()
		for _, d := range decs {
			err = d.Close()
		}
		if pre := x.takePreClose(); pre != nil {
			pre() // (something that happens right before the call, with nothing in between)
		}
		err = x.g.Close()
	})
	if p {
		x.emit("panic", "where", "Close", "val", v)
		return
	}
	_ = err
	// output channels (outermost: behind the decorators) still open at the instant Close returned
	open := []string{}
	x.mu.Lock()
	for n, d := range x.subOK {
		if !x.innerClosed[n] || x.decClosed[n] < d {
			open = append(open, n)
		}
	}
	x.mu.Unlock()
	sort.Strings(open)
	x.emit("closeend", "c", name, "open", open)
	x.closeOnce.Do(func() { close(x.closeReturned) })
}

func (x *gcRunner) takePreClose() func() {
	x.mu.Lock()
	defer x.mu.Unlock()
	f := x.preClose
	x.preClose = nil
	return f
}

// waitIdle waits until no event has been recorded for quiet, at most bound.
func (x *gcRunner) waitIdle(quiet, bound time.Duration) {
	deadline := time.Now().Add(bound)
	for time.Now().Before(deadline) {
		last := time.Unix(0, atomic.LoadInt64(&x.lastEv))
		if time.Since(last) >= quiet {
			return
		}
		time.Sleep(quiet / 4)
	}
}

// noteStart: a Publish of m on topic is about to start; every live subscription whose Subscribe
// already returned must receive it (the harness' own lower bound, used ONLY to decide how long to
// wait before declaring quiescence -- the verdict is the specification's).
func (x *gcRunner) noteStart(m, topic string) {
	x.mu.Lock()
	x.pubTopic[m] = topic
	for sn, tp := range x.subTopic {
		if tp == topic {
			x.expMin[sn][m] = true
		}
	}
	x.mu.Unlock()
}

func (x *gcRunner) settledEnough() bool {
	x.mu.Lock()
	defer x.mu.Unlock()
	for sn, live := range x.subLive {
		if !live {
			continue
		}
		for m := range x.expMin[sn] {
			if !x.ackedBy[sn][m] {
				return false
			}
		}
	}
	return true
}

// waitSettled waits (bounded) until the harness' lower bound of deliveries has been acked.
func (x *gcRunner) waitSettled(bound time.Duration) {
	deadline := time.Now().Add(bound)
	for time.Now().Before(deadline) && !x.settledEnough() {
		time.Sleep(2 * time.Millisecond)
	}
}

func waitWG(wg *sync.WaitGroup) chan struct{} {
	ch := make(chan struct{})
	go func() {
		defer close(ch)
		// a waiter that is woken while the owner already counts up again panics ("WaitGroup is reused before previous Wait has
		// returned"): the counter did reach zero, which is all this helper promises
		defer func() { _ = recover() }()
		wg.Wait()
	}()
	return ch
}

func (x *gcRunner) fire(ev string) {
	switch {
	case ev == "close" || ev == "close2":
		x.closePubSub(fmt.Sprintf("c%d", atomic.AddInt32(&x.closedN, 1)), false)
		if ev == "close2" {
			x.closePubSub(fmt.Sprintf("c%d", atomic.AddInt32(&x.closedN, 1)), false)
		}
	case strings.HasPrefix(ev, "expireclose:"):
		// the subscription's context ends and Close is called in the same breath
		n := strings.TrimPrefix(ev, "expireclose:")
		x.mu.Lock()
		c := x.cancels[n]
		x.subLive[n] = false
		x.preClose = c
		x.mu.Unlock()
		x.emit("cancel", "s", n)
		x.closePubSub(fmt.Sprintf("c%d", atomic.AddInt32(&x.closedN, 1)), false)
	case ev == "closepair":
		// two Close calls overlap: the second arrives while the first is at work
		var wg sync.WaitGroup
		for i := 0; i < 2; i++ {
			wg.Add(1)
			go func() {
				defer wg.Done()
				x.closePubSub(fmt.Sprintf("c%d", atomic.AddInt32(&x.closedN, 1)), false)
			}()
			time.Sleep(4 * time.Millisecond)
		}
		<-waitOr(waitWG(&wg), HangBound)
	case strings.HasPrefix(ev, "cancel:"):
		n := strings.TrimPrefix(ev, "cancel:")
		x.mu.Lock()
		c := x.cancels[n]
		x.subLive[n] = false // nothing more is expected from a cancelled subscription
		x.mu.Unlock()
		if c != nil {
			x.emit("cancel", "s", n)
			c()
		}
	case strings.HasPrefix(ev, "publish:"):
		x.publish("g", strings.TrimPrefix(ev, "publish:"), 1, false)
	case strings.HasPrefix(ev, "subscribe:"):
		x.subscribe(gcSub{Name: fmt.Sprintf("sg%d", atomic.AddInt32(&x.pseq, 1)), Topic: strings.TrimPrefix(ev, "subscribe:"), Behav: "ack"})
	}
}

func gcRun(r *tr.Run, sc gcScenario, rng *rand.Rand) (gateReached bool) {
	x := &gcRunner{r: r, sc: sc, rng: rng, gateEvDone: make(chan struct{}), sharedDec: map[int]message.Subscriber{}, prefix: fmt.Sprintf("r%d-", r.ID), seen: map[*message.Message]bool{}, orig: map[string]*message.Message{},
		snap: map[string]string{}, recvCnt: map[string]*int32{}, cancels: map[string]context.CancelFunc{}, closeReturned: make(chan struct{}),
		subOK: map[string]int{}, innerClosed: map[string]bool{}, decClosed: map[string]int{},
		expMin: map[string]map[string]bool{}, ackedBy: map[string]map[string]bool{}, subTopic: map[string]string{}, subLive: map[string]bool{}, pubTopic: map[string]string{}}
	defer sched.Observe(x.prefix, func(point string, ids []string) {
		switch point {
		case "gochannel.sub.close.closed":
			x.mu.Lock()
			x.innerClosed[x.short(ids[0])] = true
			x.mu.Unlock()
		case "decorator.sub.closed":
			x.mu.Lock()
			x.decClosed[x.short(ids[0])]++
			x.mu.Unlock()
		}
	})()
	x.g = gochannel.NewGoChannel(gochannel.Config{OutputChannelBuffer: int64(sc.Buffer), Persistent: sc.Persistent, BlockPublishUntilSubscriberAck: sc.Blocking}, nil)
	label := fmt.Sprintf("gc-%d", r.ID)
	done := make(chan struct{})
	go pprof.Do(context.Background(), pprof.Labels("wmrun", label), func(context.Context) {
		defer close(done)
		gateReached = x.body()
	})
	if !WaitOrHang(done) {
		x.emit("hung", "what", "scenario body", "stacks", gcStacks(label), "body", gcBodyStack(label))
		return
	}
	// goroutine leak check: nothing of this run may still be inside gochannel / the decorator
	var leaked string
	for i := 0; i < 40; i++ {
		leaked = gcStacks(label)
		if leaked == "" {
			break
		}
		time.Sleep(25 * time.Millisecond)
	}
	if leaked != "" {
		x.emit("leak", "stacks", leaked)
	}
	return
}

// gcBodyStack returns where the scenario body itself stands (diagnostics of a hang).
func gcBodyStack(label string) string {
	var buf bytes.Buffer
	_ = pprof.Lookup("goroutine").WriteTo(&buf, 1)
	for _, blk := range strings.Split(buf.String(), "\n\n") {
		if strings.Contains(blk, `"wmrun":"`+label+`"`) && strings.Contains(blk, "(*gcRunner).body+") {
			var keep []string
			for _, l := range strings.Split(blk, "\n") {
				if strings.Contains(l, "wmverif/props") {
					f := strings.Fields(l)
					keep = append(keep, f[len(f)-1])
				}
			}
			return strings.Join(keep, " < ")
		}
	}
	return ""
}

// gcStacks returns the Pub/Sub frames of goroutines that carry the run's pprof label.
func gcStacks(label string) string {
	var buf bytes.Buffer
	_ = pprof.Lookup("goroutine").WriteTo(&buf, 1)
	var out []string
	for _, blk := range strings.Split(buf.String(), "\n\n") {
		if !strings.Contains(blk, `"wmrun":"`+label+`"`) {
			continue
		}
		if strings.Contains(blk, "pubsub/gochannel.") || strings.Contains(blk, "messageTransformSubscriberDecorator") {
			lines := strings.Split(blk, "\n")
			var keep []string
			for _, l := range lines {
				if strings.Contains(l, "watermill") {
					f := strings.Fields(l)
					keep = append(keep, f[len(f)-1])
				}
			}
			if len(keep) > 4 {
				keep = keep[:4]
			}
			out = append(out, strings.Join(keep, " < "))
		}
	}
	return strings.Join(out, " || ")
}

func (x *gcRunner) body() (gateReached bool) {
	sc := x.sc
	var gate *sched.Gate
	gateID := ""
	if sc.Gate != nil {
		switch {
		case strings.HasPrefix(sc.Gate.ID, "m:"):
			gateID = x.prefix + "m" + strings.TrimPrefix(sc.Gate.ID, "m:")
		case strings.HasPrefix(sc.Gate.ID, "s:"):
			gateID = x.prefix + strings.TrimPrefix(sc.Gate.ID, "s:")
		}
		gate = sched.Park(sc.Gate.Point, gateID)
		defer gate.Release()
	}
	// phase 0
	for _, s := range sc.Subs {
		if s.Phase == 0 {
			x.subscribe(s)
		}
	}
	// phase 1: everything concurrent
	var p1 sync.WaitGroup
	for _, p := range sc.Pubs {
		p := p
		if p.Late {
			continue
		}
		x.pubsWg.Add(1)
		go func() { defer x.pubsWg.Done(); x.publishCtx(p.Name, p.Topic, p.N, p.Batch, p.DeadCtx) }()
	}
	for _, s := range sc.Subs {
		s := s
		if s.Phase == 1 {
			p1.Add(1)
			go func() {
				defer p1.Done()
				if s.AfterPubs {
					<-waitOr(waitWG(&x.pubsWg), HangBound)
				}
				x.subscribe(s)
				if s.CancelAt == 1 { // (cancelled only once it exists)
					time.Sleep(time.Duration(200) * time.Microsecond)
					x.fire("cancel:" + s.Name)
				}
			}()
		}
		if s.CancelAt == 1 && s.Phase != 1 {
			p1.Add(1)
			go func() {
				defer p1.Done()
				time.Sleep(time.Duration(200) * time.Microsecond)
				x.fire("cancel:" + s.Name)
			}()
		}
	}
	if sc.CloseAt == 1 {
		for i := 0; i < sc.Closers; i++ {
			p1.Add(1)
			go func() { defer p1.Done(); time.Sleep(300 * time.Microsecond); x.fire("close") }()
		}
	}
	if gate != nil {
		arriveWait := 300 * time.Millisecond
		if strings.HasPrefix(sc.Gate.ID, "m:") && len(sc.Gate.ID) > 3 {
			arriveWait = HangBound // a gate deep inside a long stream of messages
		}
		for _, sb := range sc.Subs {
			if sb.AfterPubs {
				arriveWait = HangBound // the gated Subscribe comes after a long backlog was published
			}
		}
		gateReached = gate.Arrived(arriveWait)
		if gateReached {
			evDone := make(chan struct{})
			go func() {
				defer close(evDone)
				defer x.gateEvOnce.Do(func() { close(x.gateEvDone) })
				x.fire(sc.Gate.Event)
			}()
			select { // the event may legitimately block until the parked goroutine moves on
			case <-evDone:
			case <-time.After(15 * time.Millisecond):
			}
			gate.Release()
			<-waitOr(evDone, HangBound)
		} else {
			gate.Release()
			x.gateEvOnce.Do(func() { close(x.gateEvDone) })
		}
	}
	pubsDone := waitWG(&x.pubsWg)
	// publishers blocked by never-acking consumers are released by the final Close
	mayBlock := false
	for _, sb := range sc.Subs {
		if sc.Blocking && (sb.Behav == "neverack" || sb.Behav == "noread" || sb.StopReading) {
			mayBlock = true
		}
	}
	if mayBlock {
		select {
		case <-pubsDone:
		case <-time.After(150 * time.Millisecond):
		}
	} else if !WaitOrHang(pubsDone) {
		x.emit("hung", "what", "Publish did not return", "stacks", gcStacks(fmt.Sprintf("gc-%d", x.r.ID)))
		return
	}
	<-waitOr(waitWG(&p1), HangBound)
	// phase 2
	var p2 sync.WaitGroup
	if sc.CloseAt == 3 {
		p2.Add(1)
		go func() {
			defer p2.Done()
			time.Sleep(time.Duration(50+x.rng.Intn(400)) * time.Microsecond)
			x.fire("close")
		}()
	}
	for _, s := range sc.Subs {
		if s.Phase == 2 {
			x.subscribe(s)
		}
		if s.CancelAt == 2 {
			x.fire("cancel:" + s.Name)
		}
		if s.CancelAt == 3 {
			x.fire("expireclose:" + s.Name)
		}
	}
	<-waitOr(waitWG(&p2), HangBound)
	for _, p := range sc.Pubs {
		p := p
		if p.Late {
			x.pubsWg.Add(1)
			go func() { defer x.pubsWg.Done(); x.publishCtx(p.Name, p.Topic, p.N, p.Batch, p.DeadCtx) }()
		}
	}
	pubsDone = waitWG(&x.pubsWg)
	// a blocking Publish must return once every subscription that does not ack has been cancelled
	obstacle := false
	for _, sb := range sc.Subs {
		if (sb.Behav == "neverack" || sb.Behav == "noread" || sb.StopReading) && sb.CancelAt == 0 && !(sb.CancelAfter > 0 && !sb.StopReading) {
			obstacle = true
		}
	}
	if mayBlock && !obstacle && sc.CloseAt != 1 {
		if !WaitOrHang(pubsDone) {
			x.emit("hung", "what", "blocking Publish did not return although the unacking subscriptions were cancelled", "stacks", gcStacks(fmt.Sprintf("gc-%d", x.r.ID)))
			return
		}
	}
	x.waitIdle(40*time.Millisecond, 3*time.Second)
	// the context of every delivery that was acked has ended by now, or is reported (ctxleak) within its bound
	<-waitOr(waitWG(&x.leakWg), 1500*time.Millisecond)
	allReturned := false
	select {
	case <-pubsDone:
		allReturned = true
	default:
	}
	x.mu.Lock()
	intact := true
	for mid, o := range x.orig {
		if gcMetaSnapshot(o) != x.snap[mid] {
			intact = false
		}
	}
	x.mu.Unlock()
	if allReturned && atomic.LoadInt32(&x.closedN) == 0 {
		// retry the completeness wait a few times: deliveries are asynchronous
		x.waitSettled(HangBound)
		x.waitIdle(60*time.Millisecond, 5*time.Second)
		x.emit("quiesce", "origintact", intact)
	}
	// phase 3: Close (possibly a second time), then every call must have returned and every channel be closed
	if sc.CloseAt != 1 {
		n := sc.Closers
		if n == 0 {
			n = 1
		}
		var cw sync.WaitGroup
		for i := 0; i < n; i++ {
			cw.Add(1)
			go func() { defer cw.Done(); x.fire("close") }()
		}
		if !WaitOrHang(waitWG(&cw)) {
			x.emit("hung", "what", "Close")
			return
		}
	}
	if !WaitOrHang(pubsDone) {
		x.emit("hung", "what", "Publish did not return after Close")
		return
	}
	if !WaitOrHang(waitWG(&x.subsWg)) {
		x.emit("hung", "what", "output channel not closed after Close")
		return
	}
	x.waitIdle(20*time.Millisecond, time.Second)
	x.emit("quiesce", "origintact", intact)
	// after Close: Publish and Subscribe must fail -- also a Publish call without messages
	{
		var err error
		p, v := Guarded(func() { err = x.g.Publish("t1") })
		if p {
			x.emit("panic", "where", "Publish()", "val", v)
		} else if err == nil {
			x.emit("latepub0", "ok", true)
		}
	}
	x.publish("late", "t1", 1, false)
	x.subscribe(gcSub{Name: "late", Topic: "t1", Behav: "ack"})
	{
		// ... whatever the state of the context it is called with
		dctx, dcancel := context.WithCancel(context.Background())
		dcancel()
		var err error
		p, v := Guarded(func() { _, err = x.g.Subscribe(dctx, "t1") })
		if p {
			x.emit("panic", "where", "Subscribe(cancelled context)", "val", v)
		} else if err == nil {
			x.emit("latesub-cancelled-ctx", "ok", true)
		}
	}
	x.closePubSub("again", false)
	return
}

func waitOr(ch chan struct{}, d time.Duration) chan struct{} {
	out := make(chan struct{})
	go func() {
		select {
		case <-ch:
		case <-time.After(d):
		}
		close(out)
	}()
	return out
}
