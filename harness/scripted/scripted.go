// Package scripted provides contract-abiding scripted stand-ins for
// message.Subscriber and message.Publisher that record how they are used.
package scripted

import (
	"context"
	"errors"
	"sync"
	"sync/atomic"
	"time"

	"github.com/ThreeDotsLabs/watermill/message"
)

// ---------------------------------------------------------------- subscriber

type Subscription struct {
	Topic   string
	Ctx     context.Context
	out     chan *message.Message
	sendMu  sync.Mutex
	closed  bool
	closing chan struct{}
	once    sync.Once
	Done    chan struct{} // closed when the output channel has been closed
	owner   *Sub
}

type Sub struct {
	Name           string
	mu             sync.Mutex
	subs           []*Subscription
	closed         bool
	closing        chan struct{}
	SubscribeCalls map[string]int
	closeCalls     int32
	SubscribeErr   error
	// SubscribeFn, if set, is consulted first (outside the lock; it may take its time): a non-nil error is what Subscribe returns
	SubscribeFn  func(topic string) error
	OnSubscribe  func(topic string)
	OnClose      func()
	OnCloseStart func()
	// BeforeClose, if set, is called at the very beginning of Close, before the subscriber counts as closed
	BeforeClose func()
	Buffer      int
	// Drain makes Close wait (bounded by DrainBound) until every message handed to a consumer has been
	// settled before the output channels are closed -- a subscriber that drains its in-flight messages.
	// IgnoreCtx: subscriptions end only with Close(), not with their context (a source that keeps handing over for a while)
	IgnoreCtx  bool
	Drain      bool
	DrainBound time.Duration
	sent       []*message.Message
}

// String makes the router report Name as the subscriber type name.
func (s *Sub) String() string { return s.Name }

func NewSub(name string) *Sub {
	return &Sub{Name: name, closing: make(chan struct{}), SubscribeCalls: map[string]int{}}
}

func (s *Sub) Subscribe(ctx context.Context, topic string) (<-chan *message.Message, error) {
	if fn := s.SubscribeFn; fn != nil {
		if err := fn(topic); err != nil {
			return nil, err
		}
	}
	s.mu.Lock()
	s.SubscribeCalls[topic]++
	if s.SubscribeErr != nil {
		s.mu.Unlock()
		return nil, s.SubscribeErr
	}
	if s.closed {
		s.mu.Unlock()
		return nil, errors.New("scripted subscriber closed")
	}
	sp := &Subscription{Topic: topic, Ctx: ctx, out: make(chan *message.Message, s.Buffer), closing: make(chan struct{}), Done: make(chan struct{}), owner: s}
	s.subs = append(s.subs, sp)
	cb := s.OnSubscribe
	s.mu.Unlock()
	if cb != nil {
		cb(topic)
	}
	go func() {
		select {
		case <-ctx.Done():
			if s.IgnoreCtx {
				<-s.closing
			} else {
				s.drain()
			}
		case <-s.closing:
		}
		sp.close()
	}()
	return sp.out, nil
}

func (sp *Subscription) close() {
	sp.once.Do(func() {
		close(sp.closing)
		sp.sendMu.Lock()
		sp.closed = true
		close(sp.out)
		sp.sendMu.Unlock()
		close(sp.Done)
	})
}

// Send hands msg to the consumer of the subscription. It returns false when the
// subscription was closed before the consumer took the message.
func (sp *Subscription) Send(msg *message.Message) bool {
	sp.sendMu.Lock()
	defer sp.sendMu.Unlock()
	if sp.closed {
		return false
	}
	select {
	case sp.out <- msg:
		if sp.owner != nil {
			sp.owner.mu.Lock()
			sp.owner.sent = append(sp.owner.sent, msg)
			sp.owner.mu.Unlock()
		}
		return true
	case <-sp.closing:
		return false
	}
}

func (sp *Subscription) Closed() bool {
	select {
	case <-sp.Done:
		return true
	default:
		return false
	}
}

// Subs returns the subscriptions created so far (optionally of one topic).
func (s *Sub) Subs(topic string) []*Subscription {
	s.mu.Lock()
	defer s.mu.Unlock()
	var r []*Subscription
	for _, sp := range s.subs {
		if topic == "" || sp.Topic == topic {
			r = append(r, sp)
		}
	}
	return r
}

// Emit sends msg on the most recent open subscription of topic.
func (s *Sub) Emit(topic string, msg *message.Message) bool {
	subs := s.Subs(topic)
	for i := len(subs) - 1; i >= 0; i-- {
		if !subs[i].Closed() {
			return subs[i].Send(msg)
		}
	}
	return false
}

func (s *Sub) Close() error {
	if fn := s.BeforeClose; fn != nil {
		fn()
	}
	atomic.AddInt32(&s.closeCalls, 1)
	s.mu.Lock()
	first := !s.closed
	s.closed = true
	subs := append([]*Subscription{}, s.subs...)
	cb := s.OnClose
	cbs := s.OnCloseStart
	s.mu.Unlock()
	if cbs != nil {
		cbs()
	}
	if first {
		s.drain()
	}
	if first {
		close(s.closing)
	}
	for _, sp := range subs {
		sp.close()
	}
	if cb != nil {
		cb()
	}
	return nil
}

// drain waits (bounded) until every message handed to a consumer so far has been settled (Drain mode only).
func (s *Sub) drain() {
	s.mu.Lock()
	sent := append([]*message.Message{}, s.sent...)
	drain, bound := s.Drain, s.DrainBound
	s.mu.Unlock()
	if !drain {
		return
	}
	if bound == 0 {
		bound = 8 * time.Second
	}
	deadline := time.After(bound)
	for _, m := range sent {
		select {
		case <-m.Acked():
		case <-m.Nacked():
		case <-deadline:
			return
		}
	}
}

func (s *Sub) CloseCalls() int { return int(atomic.LoadInt32(&s.closeCalls)) }

func (s *Sub) TotalSubscribeCalls() int {
	s.mu.Lock()
	defer s.mu.Unlock()
	n := 0
	for _, c := range s.SubscribeCalls {
		n += c
	}
	return n
}

// ---------------------------------------------------------------- publisher

type PubCall struct {
	N     int
	Topic string
	Msgs  []*message.Message
}

type Pub struct {
	Name       string
	mu         sync.Mutex
	calls      []PubCall
	closeCalls int32
	// Fn decides the outcome of the n-th call (1-based); it may panic.
	Fn      func(n int, topic string, msgs []*message.Message) error
	OnClose func()
}

func NewPub(name string) *Pub { return &Pub{Name: name} }

// String makes the router report Name as the publisher type name.
func (p *Pub) String() string { return p.Name }

func (p *Pub) Publish(topic string, msgs ...*message.Message) error {
	p.mu.Lock()
	n := len(p.calls) + 1
	p.calls = append(p.calls, PubCall{N: n, Topic: topic, Msgs: append([]*message.Message{}, msgs...)})
	fn := p.Fn
	p.mu.Unlock()
	if fn != nil {
		return fn(n, topic, msgs)
	}
	return nil
}

func (p *Pub) Close() error {
	atomic.AddInt32(&p.closeCalls, 1)
	if p.OnClose != nil {
		p.OnClose()
	}
	return nil
}

func (p *Pub) Calls() []PubCall {
	p.mu.Lock()
	defer p.mu.Unlock()
	return append([]PubCall{}, p.calls...)
}

func (p *Pub) CloseCalls() int { return int(atomic.LoadInt32(&p.closeCalls)) }

// SettleState samples the settlement of a message without blocking.
func SettleState(m *message.Message) string {
	acked, nacked := false, false
	select {
	case <-m.Acked():
		acked = true
	default:
	}
	select {
	case <-m.Nacked():
		nacked = true
	default:
	}
	switch {
	case acked && nacked:
		return "both" // never legal: a message is settled once
	case acked:
		return "ack"
	case nacked:
		return "nack"
	}
	return "none"
}
