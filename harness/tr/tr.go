// Package tr records NDJSON event traces for TLC trace validation.
//
// A Trace is a collection of Runs. Every Run is one history of one scenario on
// fresh objects; it starts with a "reset" record that carries the scenario
// class and the configuration the trace specification needs. Events of a run
// are appended under the run's mutex, so the order in the file is a total order
// consistent with real time: callers log invocations and environment actions
// BEFORE performing them and responses/observations AFTER making them.
package tr

import (
	"bufio"
	"bytes"
	"encoding/json"
	"fmt"
	"os"
	"path/filepath"
	"sort"
	"sync"
)

type Run struct {
	quiet bool
	mu    sync.Mutex
	ID    int
	Class string
	Cfg   map[string]any
	lines [][]byte
	// NonTrivial is set by the scenario when the interesting branch was really exercised.
	NonTrivial bool
	Key        string // canonical key for distinct counting
}

type Trace struct {
	mu   sync.Mutex
	runs []*Run
	next int
}

func New() *Trace { return &Trace{} }

// NewRun starts a run. cfg entries are copied into the reset record.
func (t *Trace) NewRun(class string, cfg map[string]any) *Run {
	t.mu.Lock()
	t.next++
	r := &Run{ID: t.next, Class: class, Cfg: cfg}
	t.runs = append(t.runs, r)
	t.mu.Unlock()
	m := map[string]any{"e": "reset", "run": r.ID, "class": class}
	for k, v := range cfg {
		m[k] = v
	}
	r.emit(m)
	return r
}

func (r *Run) emit(m map[string]any) {
	b, err := json.Marshal(m)
	if err != nil {
		panic(err)
	}
	if bytes.Contains(b, []byte("null")) {
		// TLC's JSON module has no null: a nil map / slice / pointer (which only a broken tree produces where the
		// specification expects a value) is written as the string "<nil>", which no specification accepts
		var v any
		if json.Unmarshal(b, &v) == nil {
			if b2, err := json.Marshal(noNull(v)); err == nil {
				b = b2
			}
		}
	}
	r.mu.Lock()
	if !r.quiet {
		r.lines = append(r.lines, b)
	}
	r.mu.Unlock()
}

func noNull(v any) any {
	switch x := v.(type) {
	case nil:
		return "<nil>"
	case map[string]any:
		for k, e := range x {
			x[k] = noNull(e)
		}
	case []any:
		for i, e := range x {
			x[i] = noNull(e)
		}
	}
	return v
}

// Quiet suspends (true) / resumes (false) recording: events of a warm-up that is not part of the case are dropped.
func (r *Run) Quiet(on bool) {
	r.mu.Lock()
	r.quiet = on
	r.mu.Unlock()
}

// Emit appends event e with key/value pairs.
func (r *Run) Emit(e string, kv ...any) {
	m := make(map[string]any, 1+len(kv)/2)
	m["e"] = e
	for i := 0; i+1 < len(kv); i += 2 {
		m[kv[i].(string)] = kv[i+1]
	}
	r.emit(m)
}

// Len returns the number of records of the run so far.
func (r *Run) Len() int {
	r.mu.Lock()
	defer r.mu.Unlock()
	return len(r.lines)
}

type RunInfo struct {
	Run        int            `json:"run"`
	Class      string         `json:"class"`
	Cfg        map[string]any `json:"cfg,omitempty"`
	First      int            `json:"first"` // 1-based line of the reset record
	N          int            `json:"n"`
	NonTrivial bool           `json:"nontrivial"`
	Key        string         `json:"key,omitempty"`
}

// Write writes <dir>/<name>.ndjson and <dir>/<name>.runs.json
func (t *Trace) Write(dir, name string) error {
	t.mu.Lock()
	defer t.mu.Unlock()
	sort.Slice(t.runs, func(i, j int) bool { return t.runs[i].ID < t.runs[j].ID })
	f, err := os.Create(filepath.Join(dir, name+".ndjson"))
	if err != nil {
		return err
	}
	w := bufio.NewWriterSize(f, 1<<20)
	line := 1
	infos := make([]RunInfo, 0, len(t.runs))
	for _, r := range t.runs {
		r.mu.Lock()
		infos = append(infos, RunInfo{Run: r.ID, Class: r.Class, Cfg: r.Cfg, First: line, N: len(r.lines), NonTrivial: r.NonTrivial, Key: r.Key})
		for _, l := range r.lines {
			w.Write(l)
			w.WriteByte('\n')
			line++
		}
		r.mu.Unlock()
	}
	if err := w.Flush(); err != nil {
		return err
	}
	if err := f.Close(); err != nil {
		return err
	}
	b, _ := json.Marshal(infos)
	return os.WriteFile(filepath.Join(dir, name+".runs.json"), b, 0o644)
}

func (t *Trace) NumRuns() int {
	t.mu.Lock()
	defer t.mu.Unlock()
	return len(t.runs)
}

func Sprintf(f string, a ...any) string { return fmt.Sprintf(f, a...) }
