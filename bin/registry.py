"""Per-property configuration of bin/check: TLC design runs, trace specs, evidence texts."""

def D(module, cfg, **kw):
    d = dict(module=module, cfg=cfg)
    d.update(kw)
    return d

PROPS = {}

PROPS['C03'] = dict(
    level='model_checking',
    design=[
        D('MCMessageImpl', 'MCMessageImpl_A.cfg', coverage=True),
        D('MCMessageImpl', 'MCMessageImpl_B.cfg', coverage=True),
        D('MCMessageImpl', 'MCMessageImpl_mut_nomutex.cfg', expect='fail'),
        D('MCMessageImpl', 'MCMessageImpl_mut_noguard.cfg', expect='fail', violates='NotBoth'),
    ],
    traces={'MessageTrace': dict(module='MessageTrace', cfg='MessageTrace.cfg')},
    rule='runs = all sequential histories of length N over {Ack,Nack,RdAck,RdNack} on 4 kinds of message (new, zero-value, copies of settled '
         'messages), random concurrent histories of 2..16 goroutines, and forced overlaps (one caller parked inside the critical section); '
         'non-trivial = history contains at least two settlement calls (sequential) / both an Ack and a Nack (concurrent) / the gate was reached (forced)',
    exhaustive=False,
    min_stats={'forced_overlaps_reached': 32},
    assumptions=['the Go scheduler plus yield injection produces the interleavings of the concurrent histories; the forced overlaps do not depend on it',
                 'TLC explores every linearization of each recorded history (silent Lin steps)'],
)
