"""Per-property configuration of bin/check: TLC design runs, trace specs, evidence texts."""

def D(module, cfg, **kw):
    d = dict(module=module, cfg=cfg)
    d.update(kw)
    return d

PROPS = {}

PROPS['C03'] = dict(
    level='model_checking',
    design=[
        D('MCMessageImpl', 'MCMessageImpl_A.cfg', coverage=True),
        D('MCMessageImpl', 'MCMessageImpl_B.cfg', coverage=True),
        D('MCMessageImpl', 'MCMessageImpl_mut_nomutex.cfg', expect='fail'),
        D('MCMessageImpl', 'MCMessageImpl_mut_noguard.cfg', expect='fail', violates='NotBoth'),
    ],
    traces={'MessageTrace': dict(module='MessageTrace', cfg='MessageTrace.cfg', chunk=400000)},   # linear trace spec (no silent steps): big chunks
    selftests=[('MessageTrace', 'flip', dict(e='op', field='res'))],
    rule='runs = all sequential histories of length N over {Ack,Nack,RdAck,RdNack} on 4 kinds of message (new, zero-value, copies of settled '
         'messages), random concurrent histories of 2..16 goroutines, and forced overlaps (one caller parked inside the critical section); '
         'non-trivial = history contains at least two settlement calls (sequential) / both an Ack and a Nack (concurrent) / the gate was reached (forced)',
    exhaustive=False,
    min_stats={'forced_overlaps_reached': 32},
    assumptions=['the Go scheduler plus yield injection produces the interleavings of the concurrent histories; the forced overlaps do not depend on it',
                 'TLC explores every linearization of each recorded history (silent Lin steps)'],
)

PROPS['C02'] = dict(
    level='model_checking',
    design=[
        D('RouterHandler', 'MCRouterHandler.cfg', coverage=True),
        D('RouterHandler', 'MCRouterHandler_3.cfg', tier='thorough', workers=8, heap='12g'),   # three messages in flight: 2.7 M states
        D('RouterHandler', 'MCRouterHandler_mut_ackfirst.cfg', expect='fail'),
        D('RouterHandler', 'MCRouterHandler_mut_pubonerr.cfg', expect='fail', violates='NoPublishAfterError'),
        D('RouterHandler', 'MCRouterHandler_mut_nonack.cfg', expect='fail'),
    ],
    traces={'RouterHandlerTrace': dict(module='RouterHandlerTrace', cfg='RouterHandlerTrace.cfg')},
    selftests=[('RouterHandlerTrace', 'set', dict(e='pcall', field='sample', value='ack')), ('RouterHandlerTrace', 'drop', dict(e='hstart'))],
    rule='runs = every single-message case of {handler settles itself: no/ack/nack} x {chain ok/err/panic(value|error|nil)} x {0,1,2 outputs} x '
         '{publisher accept/error/panic} x {publisher handler, no-publisher handler} x {no prefix, pass-through, output-appending middleware}, plus '
         'random triples of such messages in flight concurrently on one handler with one of them parked at a router hook point; distinct = distinct '
         'case description; non-trivial = the run reached quiescence with every message settled (all cases exercise a settlement decision)',
    exhaustive=True,
    min_stats={'single_cases': 250, 'gates_reached': 10},
    assumptions=['the settlement of the consumed message is sampled inside the scripted Publish (entry and exit)',
                 'panic(nil) is a *runtime.PanicNilError (go >= 1.21 semantics of the harness module)'],
)

PROPS['C08'] = dict(
    level='model_checking',
    design=[
        D('RouterHandler', 'MCRouterHandler.cfg'),
    ],
    traces={'RouterRoutingTrace': dict(module='RouterRoutingTrace', cfg='RouterRoutingTrace.cfg')},
    rule='runs = every router configuration of 1 and 2 handlers over {2 subscribers} x {2 topics} x {no publisher | 2 publishers x 2 topics}, plus random '
         'configurations of 3..6 handlers; each subscription gets 1-2 messages with random output shapes (none, one, two, the consumed message itself, one '
         'object twice, error with output, middleware-added output), emitted concurrently across subscriptions; distinct = distinct configuration; '
         'non-trivial = more than one handler on the router',
    exhaustive=False,
    min_stats={'exhaustive_configs': 400},
    assumptions=['handlers sharing subscriber and topic are distinguished only by which subscription they read (ownership is learned, must be injective)'],
)

PROPS['C09'] = dict(
    level='model_checking',
    design=[D('MiddlewareOrder', 'MCMiddlewareOrder.cfg', coverage=True)],
    traces={'MiddlewareOrderTrace': dict(module='MiddlewareOrderTrace', cfg='MiddlewareOrderTrace.cfg')},
    rule='runs = every registration sequence over {router-level, handler A, handler B} up to the tier length (4 quick / 6 thorough) with every placement of the '
         'two AddHandler calls the API permits, decorated with up to 5 publisher and 5 subscriber decorators at random positions, plus random programs up to '
         'length 20 over 4 handlers with up to two intermediate starts (handlers added to a running router + RunHandlers); distinct = distinct program; '
         'non-trivial = at least two middlewares and two handlers',
    exhaustive=True,
    min_stats={'enumerated_programs': 500},
    assumptions=['after every start one message is sent through each started handler before the program continues, so that the middleware snapshot of a '
                 'started handler (taken asynchronously by its goroutine) is fixed before later registrations'],
)

PROPS['C12'] = dict(
    level='model_checking',
    design=[D('MCRetry', 'MCRetry.cfg', coverage=True), D('MCRetry', 'MCRetry_elapsed.cfg')],
    traces={'RetryTrace': dict(module='RetryTrace', cfg='RetryTrace.cfg')},
    rule='runs = {MaxRetries} x {back-off configurations incl. zero intervals, fractional multiplier, randomization 0, 1/2, 1} x {fail^i then succeed, fail forever} '
         'with distinguishable errors/outputs per attempt, plus scenarios in which the message context ends in the middle of an attempt / early in a long wait and '
         'in which MaxElapsedTime passes, plus random configurations; distinct = distinct case; non-trivial = at least one failing attempt (a retry decision is made)',
    exhaustive=False,
    min_stats={'plain_cases': 80, 'context_and_elapsed_cases': 10},
    assumptions=['timers never fire early (only lower bounds on waits are asserted)',
                 'an attempt that starts more than margin (150 ms + 2 attempt durations) after the context ended cannot be explained by the select race between timer and ctx.Done',
                 'scheduling delays stay below retMargin (400 ms) when the middleware must give up promptly'],
)

PROPS['C13'] = dict(
    level='model_checking',
    design=[D('MCPoison', 'MCPoison.cfg', coverage=True, allow_zero=[])],
    traces={'PoisonTrace': dict(module='PoisonTrace', cfg='PoisonTrace.cfg')},
    rule='runs = {handler ok with 0/2 outputs, sentinel error, other error, fmt-wrapped, pkg/errors-wrapped, custom wrapper type with Cause(), error with outputs} x '
         '{PoisonQueue, filters: all, none, errors.Is sentinel, errors.As wrapper type, two text filters} x {poison publisher accepts, fails} x '
         '{no metadata, metadata, pre-existing poison keys} x {stand-alone, inside a running Router}; distinct = distinct case; non-trivial = the handler failed',
    exhaustive=True,
    min_stats={'cases': 600},
    assumptions=['the expected filter verdict is the verdict of the same filter function applied by the harness to the handler\'s own error value'],
)

PROPS['C19'] = dict(
    level='model_checking',
    design=[D('MCMiddlewareAlgebra', 'MCMiddlewareAlgebra.cfg'),
            D('MCMiddlewareAlgebra', 'MCMiddlewareAlgebra_3.cfg', tier='thorough', timeout=1800),
            D('MCMiddlewareAlgebra', 'MCMiddlewareAlgebra_mut_legacytimeout.cfg', expect='fail', violates='EffectEndsWithCall')],
    traces={'MiddlewareAlgebraTrace': dict(module='MiddlewareAlgebraTrace', cfg='MiddlewareAlgebraTrace.cfg'),
            'ThrottleTrace': dict(module='ThrottleTrace', cfg='ThrottleTrace.cfg'),
            'CircuitBreakerTrace': dict(module='CircuitBreakerTrace', cfg='CircuitBreakerTrace.cfg')},
    rule='runs = every chain of 0..2 of {Timeout, CorrelationID, Recoverer, IgnoreErrors, InstantAck, Throttle, closed CircuitBreaker, DelayOnError, Retry} (all 3-chains '
         'in the thorough tier, a sample in quick) x 13 handler result scripts (outputs with/without correlation id, errors incl. wrapped, panics with value/error/nil, '
         'fail-then-succeed sequences, errors that are context errors) x 1..3 consecutive calls on the same message x 5 DelayOnError configurations with fractional multipliers, plus Throttle timing '
         'runs (live, cancelled and short-deadline messages) and CircuitBreaker scripts through closed / open / half-open (beyond C19: CircuitBreakerTrace); distinct = distinct (chain, script, calls); non-trivial = chain is not empty',
    exhaustive=False,
    selftests=[('CircuitBreakerTrace', 'flip', dict(e='cbcall', field='invoked'))],
    min_stats={'algebra_cases': 1000, 'throttle_runs': 5, 'breaker_scripts': 10},
    assumptions=['Throttle: only the lower bound "k+2 consecutive starts span >= k periods" (minus 10 ms slack) is asserted',
                 'panic(nil) surfaces as *runtime.PanicNilError'],
)

_GC = dict(
    level='model_checking',
    design=[],
    traces={'GoChannelTrace': dict(module='GoChannelTrace', cfg='GoChannelTrace.cfg', timeout=1800),
            'GoChannelImplTrace_volatile': dict(module='GoChannelImplTrace', cfg='GoChannelImplTrace_volatile.cfg', timeout=1800),
            'GoChannelImplTrace_persistent': dict(module='GoChannelImplTrace', cfg='GoChannelImplTrace_persistent.cfg', timeout=1800),
            'GoChannelImplTrace_blocking': dict(module='GoChannelImplTrace', cfg='GoChannelImplTrace_blocking.cfg', timeout=1800)},
    selftests=[('GoChannelImplTrace_volatile', 'drop', dict(e='hook', point='gochannel.publish.rlocked')),
               ('GoChannelImplTrace_blocking', 'drop', dict(e='hook', point='gochannel.send.locked')),
               ('GoChannelTrace', 'drop', dict(e='ack'))],
    exhaustive=False,
    assumptions=['linearization points of Publish and Subscribe are not observed; TLC searches them (silent steps)',
                 'quiescence is declared by the harness after all calls returned, its own lower bound of deliveries was acked (bounded wait 10 s) and no event was recorded for 60 ms',
                 'which interleavings occur in un-gated scenarios depends on the Go scheduler and yield injection at the hook points'],
)
PROPS['C04'] = dict(_GC, design=[D('MCGoChannelImpl','MCGoChannelImpl_volatile.cfg', coverage=True, allow_zero=['Cancel','TWake','TCloseOut','TAnnounce','TRemove','XStart','XWait','PWait']), D('MCGoChannelImpl','MCGoChannelImpl_persistent.cfg'), D('MCGoChannelImpl','MCGoChannelImpl_mut_persistoutside.cfg', expect='fail', violates='OneSenderPerPair'), D('MCGoChannelImpl','MCGoChannelImpl_batch.cfg', tier='thorough', workers=12, heap='12g', timeout=1800), D('MCGoChannelImpl','MCGoChannelImpl_mut_batchpersistfirst.cfg', expect='fail', violates='OneSenderPerPair')], rule='runs = small configurations exhaustively ({buffer 0,1} x {persistent} x {blocking} x consumer behaviour pairs x subscribe phase), forced '
    'Publish/Subscribe overlaps (a Publish parked at each of its hook points while a Subscribe runs, and vice versa) and random concurrent programs over 2 topics; '
    'non-trivial = at least one publisher and one subscriber / the gate was reached', min_stats={'scenarios': 150, 'gates_reached': 10})
_GC_GENS = [dict(cmd='gen-gochannel-schedules', file='gochannel-schedules.json', env='VERIF_GOCHANNEL_SCHEDULES')]
PROPS['C05'] = dict(_GC, generators=_GC_GENS, design=[D('MCGoChannelImpl','MCGoChannelImpl_blocking.cfg'), D('MCGoChannelImpl','MCGoChannelImpl_batch_blocking.cfg'), D('MCGoChannelImpl','MCGoChannelImpl_batch_blocking_persistent.cfg', workers=8), D('MCGoChannelImpl','MCGoChannelImpl_mut_batchnowait.cfg', expect='fail', violates='BatchOrder'), D('MCGoChannelImpl','MCGoChannelImpl_republish.cfg'), D('MCGoChannelImpl','MCGoChannelImpl_republish_live.cfg'), D('MCGoChannelImpl','MCGoChannelImpl_mut_holdlocks.cfg', expect='fail', violates='NoStuckCall')], rule='runs = one-unsettled scenarios (3 publishers incl. a batch against slow / nacking / mutating consumers, buffers 0,1,5), blocking-publish '
    'scenarios (acks, nacks, never-acking consumer released by cancel or Close, subscriptions coming and going, consumer republishing to another topic, with a pending '
    'Subscribe forced at the wait-for-settlement point) and random programs; non-trivial as C04', min_stats={'scenarios': 80})
PROPS['C07'] = dict(_GC, race=True, generators=_GC_GENS + [dict(cmd='gen-decorator-schedules', file='decorator-schedules.json', env='VERIF_DECORATOR_SCHEDULES')], traces=dict(_GC['traces'], SubDecoratorTrace=dict(module='SubDecoratorTrace', cfg='SubDecoratorTrace.cfg', timeout=1800)), selftests=[('GoChannelImplTrace_volatile', 'drop', dict(e='hook', point='gochannel.publish.rlocked')), ('GoChannelImplTrace_persistent', 'drop', dict(e='hook', point='gochannel.sub.close.closed')), ('GoChannelTrace', 'drop', dict(e='chanclosed'))], design=[D('MCGoChannelImpl','MCGoChannelImpl_close_blocking.cfg', workers=12, heap='12g'), D('MCGoChannelImpl','MCGoChannelImpl_mut_nillog.cfg', expect='fail', violates='NoPanic'), D('MCGoChannelImpl','MCGoChannelImpl_mut_droplogearly.cfg', expect='fail', violates='NoPanic'), D('MCGoChannelImpl','MCGoChannelImpl_mut_tearisclosed.cfg', expect='fail', violates='NoStuckCall'), D('MCGoChannelImpl','MCGoChannelImpl_close.cfg', tier='thorough', workers=12, heap='12g', timeout=1800), D('MCGoChannelImpl','MCGoChannelImpl_live.cfg', tier='thorough', workers=12, heap='16g', timeout=3600)], rule='runs = pairwise enumeration: a goroutine parked at every hook point of Publish / the send loop / Subscribe incl. replay / tear-down / '
    'unsubscribe x {Close, double Close, cancel of either subscription, Publish, Subscribe} x {volatile, persistent (+ blocking variants in thorough)} x {bare, 1 (2) '
    'subscriber decorators}, unread-channel and cancel-mid-stream scenarios with 2 concurrent closers, random programs with concurrent Close; every run ends with Close, '
    'post-Close Publish/Subscribe probes and a goroutine-leak check; non-trivial = gate reached', min_stats={'scenarios': 300, 'gates_reached': 100})
PROPS['C11'] = dict(_GC, design=[D('MCGoChannelImpl','MCGoChannelImpl_persistent.cfg'), D('MCGoChannelImpl','MCGoChannelImpl_mut_persistoutside.cfg', expect='fail', violates='OneSenderPerPair'), D('MCGoChannelImpl','MCGoChannelImpl_mut_batchpersistfirst.cfg', expect='fail', violates='OneSenderPerPair'), D('MCGoChannelImpl','MCGoChannelImpl_batch.cfg', tier='thorough', workers=12, heap='12g', timeout=1800)], rule='runs = persistent mode: subscriptions before/during/after 9 publishes (single and batch), forced overlaps at the hook points between persisting, '
    'sending, locking, replaying and registering (x buffer 0,1,3 x batch), random programs with up to 5 subscriptions x 4 publishers, and long backlogs replayed to a late '
    'subscription; the oracle owes every (subscription, message) pair exactly once', min_stats={'scenarios': 80, 'gates_reached': 20})

PROPS['C06'] = dict(
    level='model_checking',
    design=[D('RouterLifecycle', 'MCRouterLifecycle_fixed.cfg', coverage=True, allow_zero=['UserStop', 'RHAfterStarted', 'Timeout', 'RunCtxCancel', 'ClReturnAgain']),
            D('RouterLifecycle', 'MCRouterLifecycle_fixed_stop.cfg'),
            D('RouterLifecycle', 'MCRouterLifecycle_mut_waits.cfg', expect='fail', violates='Graceful'),
            D('RouterLifecycle', 'MCRouterLifecycle_mut_handleclose.cfg', expect='fail', violates='SubClosedAtEnd'),
            D('RouterLifecycle', 'MCRouterLifecycle_mut_secondclose.cfg', expect='fail', violates='Graceful'),
            # lock order: closedLock -> handlersLock in Close, handlersLock alone in RunHandlers, Done() before handlersLock in the ending handler
            D('RouterLifecycle', 'MCRouterLifecycle_mut_unregfirst.cfg', expect='fail', violates='NoStuck'),
            D('RouterLifecycle', 'MCRouterLifecycle_mut_isclosed.cfg', expect='fail', violates='NoStuck')],
    traces={'RouterCloseTrace': dict(module='RouterCloseTrace', cfg='RouterCloseTrace.cfg'),
            'RouterLifecycleImplTrace': dict(module='RouterLifecycleImplTrace', cfg='RouterLifecycleImplTrace.cfg', timeout=1800)},
    selftests=[('RouterCloseTrace', 'drop', dict(e='hend')), ('RouterLifecycleImplTrace', 'drop', dict(e='hook', point='router.run.dispatched'))],
    rule='runs = message m1 parked at each point of its path (inside the subscriber decorator, received-not-dispatched, dispatched-not-started, inside the handler, '
         'before publish, before settlement) when Close arrives x {scripted subscriber, GoChannel} x closers {1 (2, 8)} x handlers {1 (2, 3)}, the received-then-held '
         'schedule of the concurrent-waits defect, concurrent and repeated Close, handlers outliving CloseTimeout (with a second Close while the handler still runs) and '
         'random park-and-run programs; non-trivial = the message really was at the label when Close was called',
    exhaustive=False,
    min_stats={'cases': 40, 'gates_reached': 20},
    assumptions=['settlement states are sampled by the harness at the instant each Close / Run call returns',
                 'subscriber.Close() of a handler may be observed up to 20 ms after Close returned (checked at quiescence only)'],
)

PROPS['C10'] = dict(
    level='model_checking',
    design=[D('RouterLifecycle', 'MCRouterLifecycle_fixed_stop.cfg'),
            D('RouterLifecycle', 'MCRouterLifecycle_selfclose.cfg'),
            D('RouterLifecycle', 'MCRouterLifecycle_mut_started.cfg', expect='fail', violates='NoPanic'),
            D('RouterLifecycle', 'MCRouterLifecycle_mut_skipstopped.cfg', expect='fail', violates='StoppedCloses'),
            # the self-close watcher of a router whose handlers are added after Run (defect 578fb50 as a legacy switch)
            D('RouterWatcher', 'MCRouterWatcher_fixed.cfg', coverage=True, allow_zero=['AddHandlerFinish']),   # (only the MutSignalBeforeAdd design splits AddHandler)
            D('RouterWatcher', 'MCRouterWatcher_mut_unbuffered.cfg', expect='fail', violates='SelfClose'),
            D('RouterWatcher', 'MCRouterWatcher_mut_signalfirst.cfg', expect='fail', violates='NoEarlyClose')],
    traces={'RouterLifecycleTrace': dict(module='RouterLifecycleTrace', cfg='RouterLifecycleTrace.cfg')},
    # every word of user actions admitted by RouterWatcher.tla, enumerated by TLC, becomes a program of the driver
    # NoEarlyClose / NeverEmptyClose of RouterWatcher for EVERY set of handlers within a universe of five names, by induction
    apalache=[dict(module='RouterWatcher', cinit='ConstInit', steps=[
        ('Init => IndInv', ['--init=Init', '--inv=IndInv', '--length=0']),
        ("IndInv /\\ Next => IndInv'", ['--init=IndInit', '--inv=IndInv', '--length=1']),
        ('IndInv => NoEarlyClose /\\ NeverEmptyClose', ['--init=IndInit', '--inv=Safety', '--length=0'])])],
    generators=[dict(cmd='gen-watcher-programs', file='watcher-programs.json', env='VERIF_C10_PROGRAMS')],
    rule='runs = lifecycle programs over {AddHandler, Run, wait Running, RunHandlers (sequential and 3-6 concurrent calls with slow Subscribe), wait Started, Stop, wait Stopped, '
         'probe message, cancel Run context, Close, second Run (also while the first is held inside Subscribe), Stop/Stopped called in the window right after Started() closes (gate), '
         'Run without handlers (first handler added later, possibly after the Run context was cancelled), RunHandlers with a context of its own} '
         'with 1..5 handlers, targeted programs plus random ones; non-trivial = at least two handlers',
    exhaustive=False,
    min_stats={'programs': 25, 'tlc_generated_programs': 30},
    assumptions=['a probe message counts as not handled after 700 ms', 'Subscribe calls are counted by the scripted subscribers'],
)

PROPS['C01'] = dict(
    level='model_checking',
    design=[D('Pipeline', 'MCPipeline_k3.cfg', coverage=True), D('Pipeline', 'MCPipeline_live.cfg'),
            D('Pipeline', 'MCPipeline_mut_ackfirst.cfg', expect='fail', violates='NoLoss'),
            D('Pipeline', 'MCPipeline_mut_drop.cfg', expect='fail', violates='NoLoss')],
    traces={'PipelineTrace': dict(module='PipelineTrace', cfg='PipelineTrace.cfg')},
    selftests=[('PipelineTrace', 'drop', dict(e='sink'))],
    rule='runs = pipelines of 1..4 stages (one Router per stage or all on one Router; optional fan-out stage emitting two outputs, optional fan-in of two source topics) on a real '
         'GoChannel (buffer 0..2, blocking on/off) with scripted faults {handler error, handler panic, publisher error before / after acceptance, publisher panic} on the k-th call '
         'of a stage: no fault on all shapes, every single fault on K<=2 (3), pairs of faults (sampled / all), long random fault sequences; non-trivial = a fault was really injected',
    exhaustive=False,
    min_stats={'cases': 80, 'faults_injected': 60},
    assumptions=['the source Publish is logged as accepted before the call (GoChannel accepts it at its linearization point)',
                 'quiescence = every expected lineage arrived, or 10 s passed'],
)

PROPS['C14'] = dict(
    level='model_checking',
    design=[D('MCDedup', 'MCDedup.cfg', coverage=True), D('MCDedup', 'MCDedup_mut_split.cfg', expect='fail', violates='AtMostOneFirst')],
    traces={'DedupTrace': dict(module='DedupTrace', cfg='DedupTrace.cfg', timeout=1800)},
    rule='runs = one Deduplicator each: 1/2/8/32 goroutines presenting random key multisets over several rounds (with pauses shorter than the window and longer than 3/2 window + '
         'slack), as middleware and as publisher decorator, windows 20 and 60 ms; 32-goroutine barrier races on fresh keys; sequential window-edge trials (windows 1-5 ms, the key '
         'presented again 60-560 us before its window ends); plus random payload pairs around the 64-byte read limit for the Adler-32 and SHA-256 hashers; every presentation '
         'carries conservative time stamps; non-trivial = every run (each contains accepted and suppressed presentations)',
    exhaustive=False,
    min_stats={'cases': 40, 'hash_pairs': 300},
    assumptions=['time stamps are taken before the call and after the return; all timing rules are necessary conditions only (R2, R3)',
                 'the clean-up goroutine runs within slack = max(window, 50 ms) of its tick'],
)

PROPS['C18'] = dict(
    level='model_checking',
    design=[D('RequestReply', 'MCRequestReply_drain.cfg', coverage=True), D('RequestReply', 'MCRequestReply_noread.cfg'), D('RequestReply', 'MCRequestReply_readone.cfg'),
            D('RequestReply', 'MCRequestReply_mut_blocking.cfg', expect='fail', violates='temporal')],
    traces={'RequestReplyTrace': dict(module='RequestReplyTrace', cfg='RequestReplyTrace.cfg')},
    rule='runs = real PubSubBackend + CommandBus + CommandProcessor over one GoChannel with a reply topic shared by all requests: single callers for every caller behaviour '
         '{drain, read one then cancel late, never read, cancel before the reply, SendWithReply} x handler failing 0/1/2 deliveries x AckCommandErrors on/off, listener time-outs, '
         '2/8/32 concurrent callers with mixed behaviours, random mixes; non-trivial = every run',
    exhaustive=False,
    min_stats={'cases': 40},
    assumptions=['replies are attributed through a caller id carried in the command, the handler result and the notification metadata',
                 'a listener goroutine still alive 1 s after quiescence is a leak (pprof labels)'],
)

PROPS['C15'] = dict(
    level='model_checking',
    design=[D('MCCqrs', 'MCCqrs.cfg')],
    traces={'CqrsTrace': dict(module='CqrsTrace', cfg='CqrsTrace.cfg')},
    rule='runs = {command, event, event-group processor} x registries of 1..3 handlers over two types with scripted failures x {AckOnUnknownEvent, AckCommandHandlingErrors} x '
         '{JSON, Protobuf marshaler} x {fully-qualified, struct, Named-with-fallback name generators}; every subscription is fed messages of both handled types, an unhandled '
         'type, a malformed payload of a handled type, a foreign type name and no type name; then values of all types are sent through CommandBus and EventBus in front of a '
         'capturing publisher; non-trivial = registry with at least two handlers',
    exhaustive=True,
    min_stats={'cases': 100},
    assumptions=['a payload that does not decode is expected to be Nacked (the handler is never invoked); the statement itself is silent about malformed payloads'],
)

PROPS['C17'] = dict(
    level='model_checking',
    design=[D('MCRelay', 'MCRelay.cfg')],
    traces={'RelayTrace': dict(module='RelayTrace', cfg='RelayTrace.cfg')},
    rule='runs = {Forwarder (fed with envelopes produced by its own Publisher, singly and as one batch call, plus non-JSON and empty-destination envelopes, AckWhenCannotUnwrap on/off), '
         'FanIn (2 source topics), Requeuer (existing, unparsable and absent retries counters; a delayed requeue whose message context ends), FanOut (2 subscribers per topic)} x '
         'destination failure scripts {none, 1st, 2nd, 1st+2nd, 1st+3rd call}; the scripted source redelivers a fresh copy after every Nack; non-trivial = a failure script or an '
         'envelope decision is involved',
    exhaustive=False,
    min_stats={'cases': 15},
    assumptions=['the settlement of the consumed copy is sampled inside the scripted destination publisher', 'retries counters used are single digits (ToNat in Relay.tla)'],
)

PROPS['C16'] = dict(
    level='exploration',
    design=[D('MCValues', 'MCValues.cfg')],
    traces={'ValuesTrace': dict(module='ValuesTrace', cfg='ValuesTrace.cfg', timeout=1800, heap='12g', chunk=400000)},
    rule='runs = (1) every sequence of length 3 (4 in thorough) over {New (incl. zero-value messages with nil metadata), Copy, metadata writes} on 3 cells with the heap and all pairwise '
         'Equals results observed after each step, (2) pairs of messages differing in exactly one component (UUID, payload, one value, one key with an empty value, an extra key) for all '
         'combinations of string classes {empty, ascii, control/quote/U+2028, multi-byte} and payload classes {nil, empty, 0x00, 0xff, ascii, random <= 4 KiB}, (3) codec round trips '
         '(forwarder envelope through Publisher + running Forwarder, JSON / Protobuf / gogo CQRS marshalers, request-reply reply marshaler); each class is replayed with its '
         'representative and with N seeded random members (N = 3 quick, 50 thorough); distinct = distinct run key; non-trivial = every run',
    exhaustive=False,
    min_stats={'heap_sequences': 1000, 'one_component_pairs': 1000, 'round_trips': 1000},
    assumptions=['input space is sampled per equivalence class: exploration, not proof; encoding/json, protobuf and base64 are trusted beyond the sampled inputs',
                 'JSON cannot distinguish nil from empty byte slices; values are compared up to that'],
)

PROPS['C20'] = dict(
    level='model_checking',
    design=[D('MCPubSubDecorators', 'MCPubSubDecorators.cfg'),
            D('SubDecorator', 'MCSubDecorator_fixed.cfg', workers=8),
            D('SubDecorator', 'MCSubDecorator_legacy_plainsend.cfg', expect='fail', violates='CloseReturns'),
            D('SubDecorator', 'MCSubDecorator_legacy_nowglock.cfg', expect='fail', violates='NoAddDuringWait'),
            D('SubDecorator', 'MCSubDecorator_mut_closingfirst.cfg', expect='fail', violates='DropJustified'),
            D('SubDecorator', 'MCSubDecorator_mut_sharedctx.cfg', expect='fail', violates='DropJustified'),
            # overlapping Close calls: two closers, K = 2 (safety, 1.1 M states); K = 1 with liveness in the thorough tier
            D('SubDecorator', 'MCSubDecorator_closers2_k2.cfg', workers=8),
            D('SubDecorator', 'MCSubDecorator_closers2.cfg', workers=8, tier='thorough', timeout=1800),
            # three subscriptions, two Close calls, K = 1: 37 M states (safety)
            D('SubDecorator', 'MCSubDecorator_subs3.cfg', workers=12, heap='20g', tier='thorough', timeout=2400),
            D('SubDecorator', 'MCSubDecorator_mut_earlyreturn.cfg', expect='fail', violates='CloseComplete'),
            D('SubDecorator', 'MCSubDecorator_mut_checkthenclose.cfg', expect='fail', violates='NoDoubleSignal'),
            # the WaitGroup protocol of the decorator on its own: TLC for 3 subscriptions x 2 Close calls, Apalache by induction below
            D('SubDecoratorWg', 'MCSubDecoratorWg.cfg')],
    # NoAddDuringWait / CloseComplete for EVERY set of subscriptions within a universe of five names and every set of overlapping
    # Close calls within a universe of three, by induction
    apalache=[dict(module='SubDecoratorWg', cinit='ConstInit', steps=[
        ('Init => IndInv', ['--init=Init', '--inv=IndInv', '--length=0']),
        ("IndInv /\\ Next => IndInv'", ['--init=IndInit', '--inv=IndInv', '--length=1']),
        ('IndInv => NoAddDuringWait /\\ CloseComplete', ['--init=IndInit', '--inv=Safety', '--length=0'])])],
    traces={'PubSubDecoratorsTrace': dict(module='PubSubDecoratorsTrace', cfg='PubSubDecoratorsTrace.cfg'),
            'SubDecoratorTrace': dict(module='SubDecoratorTrace', cfg='SubDecoratorTrace.cfg', timeout=1800)},
    selftests=[('SubDecoratorTrace', 'drop', dict(e='hook', point='decorator.close.signalled'))],
    generators=[dict(cmd='gen-decorator-schedules', file='decorator-schedules.json', env='VERIF_DECORATOR_SCHEDULES')],
    rule='runs = (1) delay.Publisher: every batch of 1..3 messages over delay sources {metadata present, context delay (For / Until future / Until past / zero), none} x generator '
         '{present, failing, absent} x AllowNoDelay x inner publisher {accept, error}; (2) every publisher-decorator stack of depth 1..3 over {transform, metrics, delay} x batch '
         'size 1..3 x inner outcome, and every subscriber-decorator stack of depth 1..3 over {transform, metrics} with Ack/Nack propagated to the inner message; (3) Prometheus '
         'router metrics applied once and twice x handler outcome sequences over {success, error, panic, publish failure}; counters gathered from a private registry vs. the '
         "harness' own event counts; (4) randomly scripted concurrent runs of one message-transform subscriber decorator (1-2 subscriptions x 0-3 messages x consumers that stop after "
         "0-3 messages or read on x cancels x one Close x a Subscribe after Close began), recorded as internal hook traces; non-trivial = every run",
    exhaustive=True,
    min_stats={'delay_cases': 400, 'stack_cases': 200, 'metrics_cases': 20, 'decorator_conformance_runs': 100, 'decorator_schedules_replayed': 100},
    assumptions=['delayed_until has one-second resolution: the stamping instant is accepted within [-6 s, +2 s] of the call',
                 'asynchronous subscriber counters are polled until complete (at most 3 s)'],
)


# ---------------------------------------------------------------- beyond the listed properties
# Extra checks (ids X..): same driver, same machinery, not part of MANIFEST.json; evidence goes to evidence-extra/.
PROPS['X01'] = dict(
    level='model_checking', extra=True,
    design=[],
    traces={'BulkReadTrace': dict(module='BulkReadTrace', cfg='BulkReadTrace.cfg')},
    selftests=[('BulkReadTrace', 'flip', dict(e='offer', field='acked'))],
    rule='runs = feed scripts for subscriber.BulkRead / BulkReadWithDeduplication: messages (with duplicates) offered after no / short / long pauses, channel closed at any point, '
         'limits 1..5; non-trivial = the script offers something',
    exhaustive=False,
    min_stats={'scripts': 40},
    assumptions=['gaps are measured by the feeder; the reader\'s timer is trusted within 150 ms'],
)
