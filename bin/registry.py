"""Per-property configuration of bin/check: TLC design runs, trace specs, evidence texts."""

def D(module, cfg, **kw):
    d = dict(module=module, cfg=cfg)
    d.update(kw)
    return d

PROPS = {}

PROPS['C03'] = dict(
    level='model_checking',
    design=[
        D('MCMessageImpl', 'MCMessageImpl_A.cfg', coverage=True),
        D('MCMessageImpl', 'MCMessageImpl_B.cfg', coverage=True),
        D('MCMessageImpl', 'MCMessageImpl_mut_nomutex.cfg', expect='fail'),
        D('MCMessageImpl', 'MCMessageImpl_mut_noguard.cfg', expect='fail', violates='NotBoth'),
    ],
    traces={'MessageTrace': dict(module='MessageTrace', cfg='MessageTrace.cfg')},
    rule='runs = all sequential histories of length N over {Ack,Nack,RdAck,RdNack} on 4 kinds of message (new, zero-value, copies of settled '
         'messages), random concurrent histories of 2..16 goroutines, and forced overlaps (one caller parked inside the critical section); '
         'non-trivial = history contains at least two settlement calls (sequential) / both an Ack and a Nack (concurrent) / the gate was reached (forced)',
    exhaustive=False,
    min_stats={'forced_overlaps_reached': 32},
    assumptions=['the Go scheduler plus yield injection produces the interleavings of the concurrent histories; the forced overlaps do not depend on it',
                 'TLC explores every linearization of each recorded history (silent Lin steps)'],
)

PROPS['C02'] = dict(
    level='model_checking',
    design=[
        D('RouterHandler', 'MCRouterHandler.cfg', coverage=True),
        D('RouterHandler', 'MCRouterHandler_mut_ackfirst.cfg', expect='fail'),
        D('RouterHandler', 'MCRouterHandler_mut_pubonerr.cfg', expect='fail', violates='NoPublishAfterError'),
        D('RouterHandler', 'MCRouterHandler_mut_nonack.cfg', expect='fail'),
    ],
    traces={'RouterHandlerTrace': dict(module='RouterHandlerTrace', cfg='RouterHandlerTrace.cfg')},
    rule='runs = every single-message case of {handler settles itself: no/ack/nack} x {chain ok/err/panic(value|error|nil)} x {0,1,2 outputs} x '
         '{publisher accept/error/panic} x {publisher handler, no-publisher handler} x {no prefix, pass-through, output-appending middleware}, plus '
         'random triples of such messages in flight concurrently on one handler with one of them parked at a router hook point; distinct = distinct '
         'case description; non-trivial = the run reached quiescence with every message settled (all cases exercise a settlement decision)',
    exhaustive=True,
    min_stats={'single_cases': 250, 'gates_reached': 10},
    assumptions=['the settlement of the consumed message is sampled inside the scripted Publish (entry and exit)',
                 'panic(nil) is a *runtime.PanicNilError (go >= 1.21 semantics of the harness module)'],
)
