HOOK_COMMITS = ['21cac9c', '70e05e0', 'cad1a19', 'fb5d827', 'd8140d7', '0dbcd0f']   # filled by hand after each hook commit in /repo (git log --grep verifhook)

NOT_APPLICABLE = {}

META = {
 'C03': dict(
    text='TLC checks exhaustively (3 goroutines x 2 calls, all interleavings of lock/check/set/close/unlock) that the implementation-shaped model of '
         'Ack/Nack refines the three-state first-wins machine and rejects the no-mutex / no-guard mutants; the real code is bound to the same abstract '
         'machine by trace validation: every sequential history up to the tier bound on four kinds of message, random concurrent histories and forced '
         'overlaps are recorded and TLC searches a linearization for each. A hammer class (60 000 / 1.5 M rounds of 6 goroutines issuing the same call and reading the channel at once) logs only anomalous rounds, as ordinary histories',
    design_ref='DESIGN.md 6/C03',
    note='Linearizability of recorded histories is decided exactly by TLC; which concurrent histories occur depends on the Go scheduler except for the '
         'forced overlaps (gate inside the critical section). Bounded: sequences of length 5 (quick) / 8 (thorough).',
    technique='TLA+ refinement check (TLC) + trace validation of recorded histories against the abstract spec (linearization search by TLC)'),
 'C02': dict(
    text='RouterHandler.tla states the per-message protocol (invoke chain once, publish exactly the outputs of a successful chain, settle once: Ack iff '
         'no error and outputs accepted, never before Publish returned, never overriding the handler) and TLC checks its invariants/action properties '
         'for 2 concurrent messages and rejects three protocol mutants. A real Router with scripted subscriber, handler chain and publisher is run on '
         'the exhaustive behaviour matrix and on concurrent triples with forced schedules; the observable trace (chain entry/exit, Publish arguments, '
         'settlement sampled inside Publish, final settlement) is validated by TLC against the same spec. A handler goroutine that settles the message while the router\'s own Ack/Nack is parked inside its critical section must lose (hlate); a message found both acked and nacked is rejected',
    design_ref='DESIGN.md 6/C02',
    note='Bounded: <=2 outputs, <=3 messages in flight. The router-internal settlement step is unlogged (silent step of the trace spec).',
    technique='TLA+ protocol spec checked by TLC + trace validation of real Router runs over an exhaustive behaviour matrix'),
 'C08': dict(
    text='The per-message protocol spec (RouterHandler.tla, model-checked) is extended in RouterRoutingTrace.tla with the routing rules: subscription '
         'ownership is an injective map handler<->subscription, a message is passed only to the function of the handler owning the subscription it arrived '
         'on, outputs go intact and in order to that handler\'s publisher object and topic, and the five context values are that handler\'s both inside '
         'the function and on produced messages. Real Routers over all 1- and 2-handler configurations and random 3..6-handler ones are traced and the '
         'traces validated by TLC',
    design_ref='DESIGN.md 6/C08',
    note='Scripted subscribers/publishers; publisher always accepts here (failure handling is C02). Bounded: 12 messages per run.',
    technique='TLA+ trace validation of real multi-handler Router runs against the routing spec; configurations enumerated exhaustively for <=2 handlers'),
 'C09': dict(
    text='MiddlewareOrder.tla models the registration list and fixes, at the start of a handler, its middleware nest (router-level plus own, registration order, '
         'earliest outermost) and decorator chains; TLC checks NoForeign/InOrder/CompleteAtStart/FixedAtStart exhaustively for 2 handlers x 4 registrations x 2+2 '
         'decorators. Every registration program up to the tier bound is executed on a real Router with recording middlewares/decorators and the recorded '
         'enter/leave and decorator orders are validated against the spec by TLC',
    design_ref='DESIGN.md 6/C09',
    note='The godoc of AddPublisherDecorators contradicts the tested behaviour; the spec follows the property statement (first added acts first).',
    technique='TLA+ spec of the registration state machine + TLC trace validation of enumerated registration programs run on the real Router'),
 'C12': dict(
    text='Retry.tla is the call-level state machine of the middleware (attempt bound, back-off lower bound per retry with rational multiplier and randomization, '
         'hook sequence, first success wins, last error kept, early exit only on context end / MaxElapsedTime); TLC explores it over an abstract time line with '
         'invariants on the attempt history. The real middleware runs around a scripted handler over a grid of configurations and outcome scripts; attempt '
         'start/end times, hook arguments, cancel instants and the result are validated by TLC against the same state machine. Several messages going concurrently through ONE wrapped handler must each see their own back-off sequence',
    design_ref='DESIGN.md 6/C12',
    note='Timing rules are one-sided (lower bounds on waits, generous margins after context end); cenkalti/backoff is observed only through the waits and hook arguments.',
    technique='TLA+ state machine of the retry loop + TLC trace validation of timed event traces from the real middleware'),
 'C13': dict(
    text='Poison.tla is the call-level state machine of the middleware (handler once; on failure the filter sees that very error; accepted => exactly one publish to '
         'the poison topic with same UUID/payload and original metadata plus the four keys; success reported only after that publish succeeded; otherwise the '
         'error is kept; Ack iff success). TLC checks AckedImpliesHandledOrPoisoned etc. over all input classes; the real middleware is run stand-alone and inside '
         'a Router over the full case matrix and every trace is validated against the spec; part of the cases run on a middleware instance or a message object that has '
         'been through it before (other handler names, other error texts, a refused poison publish): each call is decided afresh',
    design_ref='DESIGN.md 6/C13',
    note='Outputs returned together with a salvaged error are not constrained (the statement is silent).',
    technique='TLA+ call-level state machine + TLC trace validation over an exhaustive input matrix'),
 'C19': dict(
    text='MiddlewareAlgebra.tla defines each simple middleware as an operator on a handler call (result + message state) and Run() evaluates arbitrary compositions; '
         'TLC checks, for every chain up to length 2 (3 in thorough) and every script up to length 2, that the effect ends with the call, the deadline is visible only '
         'during it, error-neutral chains are transparent and do not change Retry\'s attempt count, nothing escapes an outer Recoverer; the legacy Timeout design is '
         'rejected. Real chains are run on scripted handlers and each call (what the handler observed at every invocation, result, message state afterwards, delay '
         'metadata) is validated by TLC against Run(); Throttle start times are validated against the token rule. Beyond the statement: the CircuitBreaker middleware is followed through closed / open / half-open (CircuitBreaker.tla: fail fast without invoking the handler while open, trials after the timeout with exact clock bounds, maxreq successes close, any failure re-opens, admission limit of half-open trials); Throttle is also driven with cancelled and short-deadline messages; handler errors that are context errors are errors like any other',
    design_ref='DESIGN.md 6/C19',
    note='Retry uses zero intervals here (timing is C12). DelayOnError is exercised on fail^k sequences only (no failure after a success on the same message).',
    technique='TLA+ operator algebra of middlewares evaluated by TLC, used as oracle in trace validation of real compositions'),
 'C04': dict(
    text='GoChannelImpl.tla models Publish/Subscribe/tear-down/send loop/Close with Go\'s writer-preferring RWMutex, the topic mutex and the sending lock exactly; TLC checks '
         'exhaustively (volatile and persistent configurations) that every (message, subscription) pair gets at most one sender, deliveries repeat only after a Nack, only '
         'own-topic messages arrive and that in terminal states every live subscription acked everything it was owed; persisting outside the lock is rejected. Real '
         'GoChannels are driven through small configurations exhaustively, forced Publish/Subscribe overlaps and random programs; histories (publish/subscribe start and end, '
         'every receipt with content, copy freshness and context, every Ack/Nack) are validated by TLC against GoChannelAbs.tla. Multi-message Publish is part of the implementation-shaped model (one critical section per message; persisting the whole batch with the first message is rejected: OneSenderPerPair) and of the scenarios (Subscribe forced between two messages of a batch)',
    design_ref='DESIGN.md 6/C04', note="The abstract oracle (GoChannelAbs.tla) constrains only API-observable events; linearization points are searched by TLC (volatile mode) or taken eagerly where their order is provably immaterial (persistent mode). Bounded: design model 2 publishers x 2 subscriptions x 2 messages; harness programs up to 14 subscriptions.", technique='TLC model checking of an implementation-shaped TLA+ model + trace validation of recorded histories against an abstract TLA+ spec'),
 'C05': dict(
    text='The design model proves OneUnsettled, BlockingReturn and absence of stuck calls incl. the consumer-republishes-with-pending-Subscribe schedule (the legacy design that '
         'held the locks while waiting is rejected: dead-lock found in 135 states), with PubsReturn under fairness. The abstract trace spec makes a receipt with another '
         'unsettled message, and a blocking Publish returning before every certainly-registered subscription acked, unexplainable; consumers that try to read ahead, never ack, '
         'nack, or republish are run against buffers 0, 1, 5. In blocking mode the messages of one Publish call are handed over one after the other (BatchOrder in GoChannelImpl, BatchOrdered in the abstract oracle; handing the batch over before waiting is rejected); blocking fan-out while other subscriptions are cancelled; a Subscribe to the very topic whose blocking Publish waits for an ack. TLC-generated gate schedules of GoChannelImpl.tla are replayed against the real GoChannel (every hook point gated per goroutine) and validated as internal traces',
    design_ref='DESIGN.md 6/C05', note="The abstract oracle (GoChannelAbs.tla) constrains only API-observable events; linearization points are searched by TLC (volatile mode) or taken eagerly where their order is provably immaterial (persistent mode). Bounded: design model 2 publishers x 2 subscriptions x 2 messages; harness programs up to 14 subscriptions.", technique='TLC model checking (safety + liveness) of the locking design + trace validation of recorded histories'),
 'C07': dict(
    text='Design model with Close and cancel: NoPanic (close of closed / send on closed channel, nil-map write, subscriber not found), AfterClose, NoStuckCall over >1M states '
         '(quick) / 2.3M + liveness (thorough); the legacy nil-log design is rejected. Harness: pairwise enumeration of every hook point of Publish / send loop / Subscribe incl. '
         'replay / tear-down / unsubscribe against {Close, double Close, cancel, Publish, Subscribe}, bare and behind 1-2 MessageTransform decorators, unread channels, 2 concurrent '
         'closers; every run ends with Close, post-Close probes, a check that all output channels were closed at the instant Close returned (hook observers) and a goroutine-leak '
         'check by pprof labels; the thorough tier builds with -race. The decorator itself is modelled at the grain of its goroutines (SubDecorator.tla) and validated by internal '
         'traces of random concurrent runs (a cancelled subscription has to close its output channel on its own, before Close is made) and of TLC-generated gate schedules; a '
         'Subscribe that returns a channel after Close has returned must return a closed one; TLC-generated gate schedules of GoChannelImpl.tla (every hook point gated per '
         'goroutine) are replayed against the real GoChannel and validated as internal traces',
    design_ref='DESIGN.md 6/C07', note="The abstract oracle (GoChannelAbs.tla) constrains only API-observable events; linearization points are searched by TLC (volatile mode) or taken eagerly where their order is provably immaterial (persistent mode). Bounded: design model 2 publishers x 2 subscriptions x 2 messages; harness programs up to 14 subscriptions. A crash of the process inside the code under test (fatal error / unrecovered panic) is reported as a violation.", technique='TLC model checking of Close/cancel interleavings + pairwise hook-point fault enumeration with trace validation'),
 'C11': dict(
    text='Persistent configuration of the design model: OneSenderPerPair and terminal completeness for all interleavings of 2 publishers and a late subscription; the '
         'persist-outside-the-lock mutant is rejected. Harness: subscriptions before/during/after publishes (single and batch), forced overlaps at every hook point between '
         'persisting, sending, locking, replaying, registering, random programs and prime-sized backlogs (up to 4099 in thorough); the abstract spec owes each (subscription, '
         'message) pair exactly once, a second receipt without Nack or a missing one at quiescence is rejected. Multi-message Publish in the model (batch persisted with the first message is rejected); a first subscription racing publishers on a topic without subscription (conformance and black box)',
    design_ref='DESIGN.md 6/C11', note="The abstract oracle (GoChannelAbs.tla) constrains only API-observable events; linearization points are searched by TLC (volatile mode) or taken eagerly where their order is provably immaterial (persistent mode). Bounded: design model 2 publishers x 2 subscriptions x 2 messages; harness programs up to 14 subscriptions.", technique='TLC model checking of replay/registration atomicity + trace validation with an exactly-once oracle'),
 'C06': dict(
    text='RouterLifecycle.tla models Run/RunHandlers/the decorator pump/the receive loop/handleMessage/handleClose/Close with its two waits and the time-out for one handler, '
         '2 messages, 2 closers; TLC checks Graceful, ErrorOnlyOnTimeout, RunAfterClose, SubClosedAtEnd, DroppedNotHandled and that every Close call returns (fair), and rejects '
         'the four legacy designs (concurrent waits, ctx.Done branch not closing the subscriber, second Close returning nil at once, Started before stopFn). A real Router is '
         'driven with the message parked at every point of its path when Close arrives (scripted subscriber and GoChannel, 1..8 closers, 1..3 handlers), with panicking and '
         'time-out-exceeding handlers and repeated Close; handler start/end, every Close/Run return with the settlement of all emitted messages sampled at that instant, '
         'subscriber/publisher Close calls are validated against RouterCloseAbs.tla. Close calls are served one after the other and a served call returns within CloseTimeout + 1.5 s whether or not the handlers finished (InTime), also with a subscriber whose Close() drains',
    design_ref='DESIGN.md 6/C06',
    note='subscriber.Close() is checked at quiescence, not at the instant Close returns (the statement does not require it to be synchronous). Design model: one handler.',
    technique='TLC model checking of the shutdown protocol + forced-schedule trace validation against an abstract graceful-close spec'),
 'C10': dict(
    text='The start-up path of RouterLifecycle.tla (RunHandlers: subscribe, stopFn/stopped, close(startedCh), spawn) with a user calling Stop() the moment Started() closes is '
         'model-checked (NoPanic; the Started-before-stopFn design is rejected in 86 states). RouterLifecycleAbs.tla states the API-level rules: one Subscribe per handler however '
         'often and however concurrently RunHandlers is called, Running() only after all handlers registered before Run subscribed, Stop/Stopped usable once Started() closed, '
         'Stop affects only that handler (and those sharing its publisher), self-close + Run nil when the context is cancelled or all handlers stopped, second Run errors. Real '
         'Routers execute targeted and random lifecycle programs (incl. a gate right after close(startedCh), concurrent RunHandlers with slow Subscribe, a second Run while the '
         'first is held inside Subscribe, Run without handlers with the first handler added later, RunHandlers with a context of its own, user Close, plugins, duplicate names) '
         'and the event traces are validated by TLC. RouterWatcher.tla models the self-close watcher against AddHandler / RunHandlers / Stop (SelfClose under fairness; the unbuffered-signal '
         'design of the repaired defect and a signal-before-Add mutant are rejected), and TLC enumerates every user-action word that model admits (115 for two handlers), which the driver '
         'executes against the real Router',
    design_ref='DESIGN.md 2 (specification -> implementation), 6/C10',
    note='Handlers are not added concurrently with the router shutting down (as the quantifier says). Probe messages time out after 700 ms.',
    technique='TLC model checking of the start-up protocol + trace validation of lifecycle programs against an abstract API spec'),
 'C01': dict(
    text='Pipeline.tla models K stages connected by at-least-once topics with a finite fault budget; TLC checks NoLoss, Sound, AckAfterAccept for 3 stages x 2 messages x 2 faults '
         'and AllArrive (everything reaches the sink once the faults stop) under fairness, and rejects ack-before-publish and drop-on-Nack. Real Routers chained by a real '
         'GoChannel are run with scripted faults placed on the k-th handler / publisher call of each stage; the trace (source publishes, every handler and publisher call with '
         'the settlement of the consumed message sampled inside Publish, sink receipts, quiescence) is validated by TLC: only accepted lineages may be handled or reach the sink, '
         'nothing is given up before its output is accepted, and at quiescence every expected lineage is at the sink',
    design_ref='DESIGN.md 6/C01',
    note='Lineage = UUID carried through the stages (fan-out appends .a/.b). The oracle needs no hooks; yield injection at the hook points perturbs schedules.',
    technique='TLC model checking (safety + liveness) of the pipeline protocol + fault-enumeration trace validation on real Router/GoChannel pipelines'),
 'C14': dict(
    text='Dedup.tla models the repository (mutex, lookup+insert in one critical section, clean-up ticks) for 4 callers x 2 keys: AtMostOneFirst per key and retention epoch; the '
         'split-critical-section design is rejected. Real Deduplicators (middleware and publisher decorator) are used by 1..32 goroutines; every presentation is logged with '
         'conservative time stamps and DedupTrace.tla judges each history: a presentation reaches the handler iff it was not suppressed (suppressed ones are acked successes), two '
         'accepted presentations of one key are at least a window apart, a suppressed one has a live accepted presentation of the same key; window-edge trials present a key again '
         '60-560 us before its window ends; built-in hashers are checked on random payload pairs around the 64-byte read limit',
    design_ref='DESIGN.md 6/C14',
    note='All timing rules are necessary conditions with conservative stamps (no alarm from scheduling noise); hasher laws are sampled (seeded random bytes), not exhaustive.',
    technique='TLC model checking of the key repository + trace validation of timed concurrent histories against pairwise necessary conditions in TLA+'),
 'C18': dict(
    text='RequestReply.tla models the listener goroutine (select between ctx.Done and notifications, filter by operation id, reply channel of capacity 1, clean-up) against callers '
         'that drain, read one reply or never read; TLC checks OnlyOwnReplies, FinishedAtMostOnce and the temporal property "context done ~> channel closed and hook ran once" under '
         'fairness; the legacy blocking-send design is rejected. A real PubSubBackend/CommandBus/CommandProcessor stack on GoChannel is driven with 1..32 concurrent requests on a '
         'shared reply topic, handlers failing 0-2 deliveries (redelivery => several replies), AckCommandErrors on/off, listener time-outs, a failing reply publisher, and caller '
         'behaviours incl. abandoning the channel; the trace is validated: replies only for the own command with the handler outcome, command settled as configured and only after '
         'the reply was published, every ended request gets its channel closed and the hook exactly once, no listener goroutine left',
    design_ref='DESIGN.md 6/C18',
    note='Replies are attributed via a caller id in command/result/metadata (the operation id is generated inside SendWithReplies).',
    technique='TLC model checking (liveness) of the listener + trace validation of concurrent request/reply histories'),
 'C15': dict(
    text='Cqrs.tla defines Dispatch(kind, registry, flags, message): the ordered list of handler invocations and the settlement for command, event and event-group processors; '
         'TLC checks over all registries of <=3 handlers x flags x messages (21 888 cases) that handlers are invoked only for their own type, groups run in registration order and '
         'stop at the first error, unknown types follow AckOnUnknownEvent (commands: ack), handler errors mean Nack unless AckCommandHandlingErrors. Real processors on a real Router '
         'fed by scripted subscribers, with JSON and Protobuf marshalers and three name generators, are traced (invocations with value equality and original-message context, '
         'settlement) and validated against Dispatch; buses are checked in front of a capturing publisher (one publish, generated topic, name metadata, value round-trip)',
    design_ref='DESIGN.md 6/C15',
    note='Protobuf values use well-known types available offline (wrapperspb, durationpb). Malformed payloads are expected to be Nacked (see assumptions).',
    technique='TLA+ dispatch function checked by TLC over the full small input space, used as oracle in trace validation of real processors'),
 'C17': dict(
    text='Relay.tla states one attempt of a relay on a consumed message (at most one destination call with the computed topic and the message intact, Requeuer counter +1, no call '
         'for an invalid envelope, Ack only after accept, Nack otherwise, invalid envelopes per AckWhenCannotUnwrap) and TLC checks AckedImpliesAccepted / RetriesByOne on a small '
         'exhaustive model with redelivery. Real Forwarder (+Publisher, single and batch), FanIn, Requeuer and FanOut instances on their real internal Routers are fed by a scripted '
         'source that redelivers after Nack and a scripted destination with failure scripts; consume/destination-call (with the settlement sampled inside)/settlement events are '
         'validated against the spec; at quiescence every valid message is acknowledged-and-relayed',
    design_ref='DESIGN.md 6/C17',
    note='FanOut is observed at its Subscribe side through two real consumers. Envelope fidelity over wide inputs is C16.',
    technique='TLA+ relay protocol spec + fault-script trace validation on the real components'),
 'C16': dict(
    text='Values.tla is a heap model of message values (cells own their metadata; Equals = record equality over uuid, payload and the complete key/value map); TLC checks CopyEquals, '
         'Isolation and EmptyValueMatters over all operation sequences of length 3. Real message.Message values replay every small-scope operation sequence with the projected heap '
         'and all Equals results validated step by step against the model; single-component-difference pairs and codec round trips (envelope, CQRS JSON/Protobuf/gogo marshalers incl. '
         'name recovery, request-reply replies) are validated as identities. Strings and payloads are drawn per equivalence class (representative + seeded random members)',
    design_ref='DESIGN.md 6/C16',
    note='Closest to the edge of the technique: the spec contributes the aliasing/heap model and the small-scope enumeration; coverage of "all byte strings" is sampling and claimed as exploration.',
    technique='TLA+ heap model + trace validation of enumerated operation sequences and sampled codec round trips (small-scope exhaustive + class sampling)'),
 'C20': dict(
    text='PubSubDecorators.tla defines Expected(cfg, batch) for delay.Publisher (precedence metadata > context > generator, one inner call or none, AllowNoDelay) and TLC checks '
         'OneCallPerBatch, ExactlyOneStamp, NothingWithoutDelay over all configurations x batches of <=3 messages. Real delay.Publisher runs the same full matrix (with For / Until '
         'past / future / zero context delays and for/until agreement), every publisher- and subscriber-decorator stack of depth <=3 over {transform, metrics, delay} is checked for '
         'transparency (one inner call, order, every transform once, errors and Close pass through, settling the outer message settles the inner one), and Prometheus router metrics '
         'applied once and twice are compared, per label, with the harness\' own counts of handler invocations, publish calls and settled messages over outcome sequences incl. '
         'panics, publish failures and a message settled after Router.Close. The message-transform subscriber decorator is also modelled at the grain of its goroutines '
         '(SubDecorator.tla: Subscribe / forwarding goroutine / Close against an inner subscriber, consumers that stop reading and cancelled contexts; TLC checks that a message is '
         'given up only after the inner Close or on a cancelled subscription, order, WaitGroup discipline, Close completeness and, under fairness, that Close returns and a '
         'cancelled subscription gets its channel closed, also for two overlapping Close calls; the WaitGroup protocol on its own (SubDecoratorWg.tla) is shown by Apalache induction for every set of up to five subscriptions and three Close calls; two legacy designs and three seeded designs are rejected) and randomly scripted concurrent runs of the real decorator (one or two overlapping Close calls) are '
         'validated as INTERNAL traces (hook events + harness events) against that model; a context delay must be stamped exactly as made (also when published a second later) and '
         'messages handed out while the inner Close is in progress still pass through; in the other direction TLC-simulated behaviours of SubDecorator.tla are replayed as gate '
         'schedules against the real decorator (every hook point gated) and the resulting internal traces validated',
    design_ref='DESIGN.md 6/C20',
    note='Counter equality is judged on a private prometheus.Registry gathered at quiescence. delayed_until has one-second resolution.',
    technique='TLA+ stamping function checked exhaustively by TLC, used as oracle; trace validation of decorator stacks and counter/event equality'),
}
