HOOK_COMMITS = ['21cac9c', ]   # filled by hand after each hook commit in /repo (git log --grep verifhook)

NOT_APPLICABLE = {}

META = {
 'C03': dict(
    text='TLC checks exhaustively (3 goroutines x 2 calls, all interleavings of lock/check/set/close/unlock) that the implementation-shaped model of '
         'Ack/Nack refines the three-state first-wins machine and rejects the no-mutex / no-guard mutants; the real code is bound to the same abstract '
         'machine by trace validation: every sequential history up to the tier bound on four kinds of message, random concurrent histories and forced '
         'overlaps are recorded and TLC searches a linearization for each',
    design_ref='DESIGN.md 6/C03',
    note='Linearizability of recorded histories is decided exactly by TLC; which concurrent histories occur depends on the Go scheduler except for the '
         'forced overlaps (gate inside the critical section). Bounded: sequences of length 5 (quick) / 8 (thorough).',
    technique='TLA+ refinement check (TLC) + trace validation of recorded histories against the abstract spec (linearization search by TLC)'),
}
