HOOK_COMMITS = ['21cac9c', ]   # filled by hand after each hook commit in /repo (git log --grep verifhook)

NOT_APPLICABLE = {}

META = {
 'C03': dict(
    text='TLC checks exhaustively (3 goroutines x 2 calls, all interleavings of lock/check/set/close/unlock) that the implementation-shaped model of '
         'Ack/Nack refines the three-state first-wins machine and rejects the no-mutex / no-guard mutants; the real code is bound to the same abstract '
         'machine by trace validation: every sequential history up to the tier bound on four kinds of message, random concurrent histories and forced '
         'overlaps are recorded and TLC searches a linearization for each',
    design_ref='DESIGN.md 6/C03',
    note='Linearizability of recorded histories is decided exactly by TLC; which concurrent histories occur depends on the Go scheduler except for the '
         'forced overlaps (gate inside the critical section). Bounded: sequences of length 5 (quick) / 8 (thorough).',
    technique='TLA+ refinement check (TLC) + trace validation of recorded histories against the abstract spec (linearization search by TLC)'),
 'C02': dict(
    text='RouterHandler.tla states the per-message protocol (invoke chain once, publish exactly the outputs of a successful chain, settle once: Ack iff '
         'no error and outputs accepted, never before Publish returned, never overriding the handler) and TLC checks its invariants/action properties '
         'for 2 concurrent messages and rejects three protocol mutants. A real Router with scripted subscriber, handler chain and publisher is run on '
         'the exhaustive behaviour matrix and on concurrent triples with forced schedules; the observable trace (chain entry/exit, Publish arguments, '
         'settlement sampled inside Publish, final settlement) is validated by TLC against the same spec',
    design_ref='DESIGN.md 6/C02',
    note='Bounded: <=2 outputs, <=3 messages in flight. The router-internal settlement step is unlogged (silent step of the trace spec).',
    technique='TLA+ protocol spec checked by TLC + trace validation of real Router runs over an exhaustive behaviour matrix'),
}
