SPECIFICATION IFairSpec
CONSTANTS
  Callers = {"g1","g2","g3"}
  Prog <- ProgB
  ZeroValue = TRUE
  UseMutex = TRUE
  NackGuard = TRUE
INVARIANTS NoPanic NotBoth ChannelsMatchState
PROPERTIES RefinesAbs AllDone
CHECK_DEADLOCK FALSE
