SPECIFICATION PSpec
CONSTANTS
  K = 2
  Lineages = {"x1","x2"}
  FaultBudget = 1
  MutAckFirst = TRUE
  MutDropOnNack = FALSE
INVARIANTS NoLoss Sound
PROPERTIES AckAfterAccept 
CHECK_DEADLOCK FALSE
