----------------------------- MODULE ValuesTrace -----------------------------
(* Trace validation for C16.  Events:
     reset
     new i val | copy i j | setmeta i k x | setpayload i p | setuuid i u      operations on real message.Message values
     obs i val             projection of the real cell i after the operation (uuid, payload as hex, complete metadata)
     equals i j res        result of the real Equals
     rt kind orig back nameok     a codec round trip: what went in, what came back (projected), name check
   Every obs must equal the heap of Values.tla, every Equals result the record equality, every
   round trip the identity.                                                                       *)
EXTENDS Values, TraceBase
tvars == <<heap, l>>
TInit == HInit /\ LInit
TNext == \/ Is("reset") /\ heap' = << >> /\ Adv
         \/ Is("new") /\ New(Ev.i, Ev.val) /\ Adv
         \/ Is("copy") /\ Copy(Ev.i, Ev.j) /\ Adv
         \/ Is("setmeta") /\ SetMeta(Ev.i, Ev.k, Ev.x) /\ Adv
         \/ Is("setpayload") /\ SetPayload(Ev.i, Ev.p) /\ Adv
         \/ Is("setuuid") /\ SetUUID(Ev.i, Ev.u) /\ Adv
         \/ Is("obs") /\ Ev.i \in DOMAIN heap /\ Ev.val = heap[Ev.i] /\ UNCHANGED heap /\ Adv
         \/ Is("equals") /\ Ev.res = EqualsResult(Ev.i, Ev.j) /\ UNCHANGED heap /\ Adv
         \/ Is("rt") /\ Ev.back = Ev.orig /\ Ev.nameok /\ UNCHANGED heap /\ Adv
TSpec == TInit /\ [][TNext]_tvars
=============================================================================
