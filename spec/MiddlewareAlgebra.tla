-------------------------- MODULE MiddlewareAlgebra --------------------------
(* The simple middlewares of message/router/middleware as operators on a
   handler call -- property C19 (and the composition part of C12).

   A handler result is
       [outs  |-> << [id |-> .., corr |-> ..], .. >>,
        err   |-> "nil" | "e1" | "we1" (e1 wrapped) | "e2" | "panic:<kind>",
        panic |-> "none" | "value" | "error" | "nil" | "slice" (a value of an uncomparable type)]
   The state of the consumed message threaded through a call is
       [k      : index of the next scripted handler result,
        ctx    : "live" | "cancelled"      what msg.Context().Err() shows,
        dl     : BOOLEAN                   a deadline is visible in msg.Context(),
        settle : "none" | "ack" | "nack",
        corr   : correlation id of the consumed message ("" = none),
        delay  : delayed-for metadata (microseconds in traces), -1 = absent,
        obs    : what the handler observed at each invocation]

   Run(ch, i, st, sc, cfg) evaluates the chain ch[i..] around the scripted
   handler (sc[k] = result of the k-th invocation; the last one repeats).

   Documented effects, and nothing else:
     Timeout         a deadline is visible during the call; afterwards the
                     context is what it was before (not left cancelled)
     CorrelationID   outputs lacking a correlation id get the message's; never overwritten
     Recoverer       a panic becomes the error "panic:<kind>", nothing escapes
     IgnoreErrors    errors whose cause is listed (e1) become success, outputs kept
     InstantAck      the message is acked before the call
     Throttle, CircuitBreaker (closed)   identity
     DelayOnError    after a failing call the delay metadata becomes Initial, or
                     min(previous * Num/Den, Max); successes untouched
     Retry           (Retry.tla) re-invokes while the error persists, at most cfg.retries times
     Duplicator      invokes the handler twice (idempotency testing aid); outputs concatenated
     RandomFail / RandomPanic   with probability 1: error "random fail occurred" / panic, the handler is not invoked

   LegacyTimeout = TRUE models the defect D8 (the context stays cancelled after
   Timeout, Retry then gives up at once); TLC must reject it.                   *)
EXTENDS Integers, Sequences, TLC

CONSTANT LegacyTimeout

Min(a, b) == IF a < b THEN a ELSE b
Failed(r) == r.panic = "none" /\ r.err # "nil"
Panicked(r) == r.panic # "none"

RECURSIVE Run(_, _, _, _, _), RetryLoop(_, _, _, _, _, _, _)

Run(ch, i, st, sc, cfg) ==
    IF i > Len(ch)
    THEN LET r == sc[IF st.k <= Len(sc) THEN st.k ELSE Len(sc)]
             o == [ctx |-> st.ctx, dl |-> st.dl, settle |-> st.settle]
         IN  [res |-> r, st |-> [st EXCEPT !.k = @ + 1, !.obs = Append(@, o)]]
    ELSE LET m == ch[i] IN
      CASE m = "Timeout" ->
             LET x == Run(ch, i + 1, [st EXCEPT !.dl = TRUE], sc, cfg)
             IN  [res |-> x.res,
                  st  |-> [x.st EXCEPT !.dl = IF LegacyTimeout THEN TRUE ELSE st.dl,
                                       !.ctx = IF LegacyTimeout THEN "cancelled" ELSE st.ctx]]
        \* Timeout(0): the handler runs with a deadline that has already passed (a done context), restored afterwards
        [] m = "TimeoutZero" ->
             LET x == Run(ch, i + 1, [st EXCEPT !.dl = TRUE, !.ctx = "cancelled"], sc, cfg)
             IN  [res |-> x.res,
                  st  |-> [x.st EXCEPT !.dl = IF LegacyTimeout THEN TRUE ELSE st.dl,
                                       !.ctx = IF LegacyTimeout THEN "cancelled" ELSE st.ctx]]
        [] m = "CorrelationID" ->
             LET x == Run(ch, i + 1, st, sc, cfg) IN
             IF Panicked(x.res) THEN x
             ELSE [res |-> [x.res EXCEPT !.outs = [j \in 1..Len(@) |->
                                IF @[j].corr = "" THEN [@[j] EXCEPT !.corr = st.corr] ELSE @[j]]],
                   st  |-> x.st]
        [] m = "Recoverer" ->
             LET x == Run(ch, i + 1, st, sc, cfg) IN
             IF Panicked(x.res)
             THEN [res |-> [outs |-> << >>, err |-> "panic:" \o x.res.panic, panic |-> "none"], st |-> x.st]
             ELSE x
        [] m = "IgnoreErrors" ->
             LET x == Run(ch, i + 1, st, sc, cfg) IN
             IF ~Panicked(x.res) /\ x.res.err \in {"e1", "we1"}
             THEN [res |-> [x.res EXCEPT !.err = "nil"], st |-> x.st]
             ELSE x
        \* (first settlement wins: on a message that somebody nacked before, the Ack is without effect -- the handler runs all the same)
        [] m = "InstantAck" -> Run(ch, i + 1, [st EXCEPT !.settle = IF @ = "none" THEN "ack" ELSE @], sc, cfg)
        [] m \in {"Throttle", "CircuitBreaker"} -> Run(ch, i + 1, st, sc, cfg)
        [] m = "DelayOnError" ->
             LET x == Run(ch, i + 1, st, sc, cfg) IN
             IF Failed(x.res)
             THEN [res |-> x.res,
                   st  |-> [x.st EXCEPT !.delay = IF @ < 0 THEN cfg.dInit
                                                  ELSE Min((@ * cfg.dNum) \div cfg.dDen, cfg.dMax),
                                        \* the code multiplies nanoseconds in floating point, the model whole microseconds
                                        \* (TLC's integers have 32 bits): derr bounds what the truncations add up to
                                        !.derr  = IF x.st.delay < 0 THEN 0
                                                  ELSE ((@ * cfg.dNum) \div cfg.dDen) + 2]]
             ELSE x
        [] m = "Duplicator" ->        \* (beyond C19: runs the handler twice, concatenates the outputs, first error wins)
             LET x == Run(ch, i + 1, st, sc, cfg) IN
             IF Panicked(x.res) THEN x
             ELSE IF Failed(x.res) THEN [res |-> [outs |-> << >>, err |-> x.res.err, panic |-> "none"], st |-> x.st]
             ELSE LET y == Run(ch, i + 1, x.st, sc, cfg) IN
                  IF Panicked(y.res) THEN y
                  ELSE IF Failed(y.res) THEN [res |-> [outs |-> << >>, err |-> y.res.err, panic |-> "none"], st |-> y.st]
                  ELSE [res |-> [outs |-> x.res.outs \o y.res.outs, err |-> "nil", panic |-> "none"], st |-> y.st]
        \* RandomFail(1) / RandomPanic(1): with probability 1 the handler is never reached (beyond C19)
        [] m = "RandomFail" -> [res |-> [outs |-> << >>, err |-> "rf", panic |-> "none"], st |-> st]
        [] m = "RandomPanic" -> [res |-> [outs |-> << >>, err |-> "nil", panic |-> "rp"], st |-> st]
        [] m = "Retry" ->
             LET x == Run(ch, i + 1, st, sc, cfg) IN
             IF ~Failed(x.res) THEN x
             ELSE RetryLoop(ch, i, x.st, sc, cfg, cfg.retries, x.res)

RetryLoop(ch, i, st, sc, cfg, left, last) ==
    IF st.ctx # "live"                      \* the message context ended: give up, error kept, outputs of the last attempt
    THEN [res |-> last, st |-> st]
    ELSE IF left = 0
    THEN [res |-> [outs |-> << >>, err |-> last.err, panic |-> "none"], st |-> st]
    ELSE LET y == Run(ch, i + 1, st, sc, cfg) IN
         IF ~Failed(y.res) THEN y
         ELSE RetryLoop(ch, i, y.st, sc, cfg, left - 1, y.res)

Fresh(k, settle, corr, delay) ==
    [k |-> k, ctx |-> "live", dl |-> FALSE, settle |-> settle, corr |-> corr, delay |-> delay, derr |-> 1, obs |-> << >>]

Calls(x) == Len(x.st.obs)      \* number of handler invocations of an evaluated call
=============================================================================
