SPECIFICATION IFairSpec
CONSTANTS
  Callers = {"g1","g2","g3"}
  Prog <- ProgA
  ZeroValue = FALSE
  UseMutex = FALSE
  NackGuard = TRUE
INVARIANTS NoPanic NotBoth ChannelsMatchState
PROPERTIES RefinesAbs AllDone
CHECK_DEADLOCK FALSE
