SPECIFICATION Spec
CONSTANTS
  Blocking = TRUE
  Persistent = FALSE
  Buf = 0
  Pubs = {"p1"}
  PubMsg <- PubMsgR
  Msgs = {"m1","m2"}
  MsgTopic <- TopicR
  Subs = {"s1","s2","s3"}
  SubTopic <- SubTR
  PreSubs = {"s1","s2"}
  Republish <- RepubR
  NackBudget = 0
  DoClose = FALSE
  Cancels = {}
  LegacyHoldLocks = FALSE
  LegacyNilLog = FALSE
  PubRest <- NoRest
  MutBatchPersistFirst = FALSE
  MutDropLogEarly = FALSE
  MutTearIsClosed = FALSE
  MutBatchNoWait = FALSE
  MutPersistOutsideLock = FALSE
INVARIANTS NoPanic OneUnsettled OneSenderPerPair OnlyOwnTopic BlockingReturn NoStuckCall

CHECK_DEADLOCK FALSE
