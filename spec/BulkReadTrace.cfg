SPECIFICATION TSpec
CONSTRAINT HighWater
POSTCONDITION Accepted
CHECK_DEADLOCK FALSE
