SPECIFICATION Spec
CONSTANTS
  S = {"a","b","c"}
  C = {"x","y"}
INVARIANTS IndInv NoAddDuringWait CloseComplete
CHECK_DEADLOCK FALSE
