-------------------------------- MODULE Relay --------------------------------
(* Relay components: Forwarder (+ its Publisher), FanIn, FanOut, Requeuer -- C17.

   A relay consumes a message from its source and hands it to a computed
   destination.  One attempt on a consumed message:
     Consume   the message (a fresh copy on every redelivery) reaches the component
     DCall     at most one call of the destination publisher, with the computed topic and
               the message intact (Requeuer: retries counter raised by exactly one);
               never for something that is not a valid forwarder envelope
     Settle    Ack only after the destination accepted, Nack when it failed; an invalid
               envelope is Acked or Nacked as AckWhenCannotUnwrap says
   in[m]  = [uuid, payload, meta, valid, dest]   what the source delivered / what must come out
   comp   = "forwarder" | "fanin" | "fanout" | "requeuer"                                      *)
EXTENDS Naturals, Sequences, FiniteSets, TLC

VARIABLES comp, ackInvalid, inp, att, called, outcome, acked
rvars == <<comp, ackInvalid, inp, att, called, outcome, acked>>

RetriesKey == "_watermill_requeuer_retries"
Digits == <<"0", "1", "2", "3", "4", "5", "6", "7", "8", "9">>
\* the counters used by the harness are small: "" / unparsable -> 0
ToNat(s) == IF \E i \in 1..10 : Digits[i] = s THEN (CHOOSE i \in 1..10 : Digits[i] = s) - 1 ELSE 0
ToStr(n) == IF n < 10 THEN Digits[n + 1] ELSE "10"
Prev(meta) == IF RetriesKey \in DOMAIN meta THEN ToNat(meta[RetriesKey]) ELSE 0
ExpectedMeta(c, meta) ==
    IF c = "requeuer" THEN [k \in DOMAIN meta \cup {RetriesKey} |-> IF k = RetriesKey THEN ToStr(Prev(meta) + 1) ELSE meta[k]]
    ELSE meta

Upd(f, k, v) == (k :> v) @@ f
RInit == comp = "forwarder" /\ ackInvalid = FALSE /\ inp = << >> /\ att = << >> /\ called = << >> /\ outcome = << >> /\ acked = {}

\* a (re)delivery of m starts a new attempt
Consume(m, rec) == /\ m \notin acked
                   /\ inp' = Upd(inp, m, rec) /\ att' = Upd(att, m, IF m \in DOMAIN att THEN att[m] + 1 ELSE 1)
                   /\ called' = Upd(called, m, 0) /\ outcome' = Upd(outcome, m, "none")
                   /\ UNCHANGED <<comp, ackInvalid, acked>>
DCall(m, topic, uuid, payload, meta, oc, sample) ==
    /\ m \in DOMAIN inp /\ inp[m].valid /\ called[m] = 0
    /\ topic = inp[m].dest /\ uuid = inp[m].uuid /\ payload = inp[m].payload
    /\ meta = ExpectedMeta(comp, inp[m].meta)
    /\ sample = "none"                              \* the consumed message is not given up before the destination answered
    /\ called' = [called EXCEPT ![m] = 1] /\ outcome' = [outcome EXCEPT ![m] = oc]
    /\ UNCHANGED <<comp, ackInvalid, inp, att, acked>>
Settle(m, kind) ==
    /\ m \in DOMAIN inp /\ m \notin acked
    /\ IF inp[m].valid
         THEN kind = (IF called[m] = 1 /\ outcome[m] = "accept" THEN "ack" ELSE "nack")   \* (a relay may fail before it calls the destination: Nack)
         ELSE called[m] = 0 /\ kind = (IF ackInvalid THEN "ack" ELSE "nack")
    /\ acked' = IF kind = "ack" THEN acked \cup {m} ELSE acked
    /\ UNCHANGED <<comp, ackInvalid, inp, att, called, outcome>>
\* neither lose nor invent: every acknowledged valid message was accepted by the destination
AckedImpliesAccepted == \A m \in acked : inp[m].valid => outcome[m] = "accept"
=============================================================================
