----------------------------- MODULE MessageImpl -----------------------------
(* Implementation-shaped model of message.Message Ack/Nack (message/message.go).

   One action per step of the code between two points at which another
   goroutine can observe or interfere:

     Ack():   lock ackMutex ; check ackSentType ; set ackSentType ;
              close(m.ack) (or substitute the shared closed channel when the
              field is nil: zero-value message) ; unlock ; return
     Nack():  symmetric
     <-Acked() / <-Nacked() probes: a single atomic read of the channel; they
              do not take the mutex.

   Switches (spec mutants, TLC must reject them):
     UseMutex  = FALSE : the critical section is not protected
     NackGuard = FALSE : Nack does not look at an earlier Ack
   The model refines Message.tla under the mapping at the end.               *)
EXTENDS Naturals, Sequences, FiniteSets, TLC

CONSTANTS Callers,      \* goroutines
          Prog,         \* Prog[g] : sequence of operations g performs
          ZeroValue,    \* TRUE: message built without the constructor (nil channels)
          UseMutex, NackGuard

VARIABLES pc, ip, mu, sent, ackCh, nackCh, res, lin, panicked
ivars == <<pc, ip, mu, sent, ackCh, nackCh, res, lin, panicked>>

None == "none"

IInit ==
    /\ pc = [g \in Callers |-> "idle"]
    /\ ip = [g \in Callers |-> 1]
    /\ mu = None
    /\ sent = "none"
    /\ ackCh  = IF ZeroValue THEN "nil" ELSE "open"
    /\ nackCh = IF ZeroValue THEN "nil" ELSE "open"
    /\ res = [g \in Callers |-> FALSE]
    /\ lin = [g \in Callers |-> FALSE]
    /\ panicked = FALSE

Op(g) == Prog[g][ip[g]]
Goto(g, l) == pc' = [pc EXCEPT ![g] = l]

\* invocation
Start(g) ==
    /\ pc[g] = "idle" /\ ip[g] <= Len(Prog[g])
    /\ Goto(g, IF Op(g) \in {"Ack", "Nack"} THEN "lock" ELSE "read")
    /\ res' = [res EXCEPT ![g] = FALSE] /\ lin' = [lin EXCEPT ![g] = FALSE]
    /\ UNCHANGED <<ip, mu, sent, ackCh, nackCh, panicked>>

Lock(g) ==
    /\ pc[g] = "lock"
    /\ IF UseMutex THEN mu = None /\ mu' = g ELSE UNCHANGED mu
    /\ Goto(g, "check")
    /\ UNCHANGED <<ip, sent, ackCh, nackCh, res, lin, panicked>>

Decide(g, r) == res' = [res EXCEPT ![g] = r] /\ lin' = [lin EXCEPT ![g] = TRUE]

Check(g) ==
    /\ pc[g] = "check"
    /\ LET mine  == IF Op(g) = "Ack" THEN "ack" ELSE "nack"
           other == IF Op(g) = "Ack" THEN "nack" ELSE "ack"
           guard == Op(g) = "Ack" \/ NackGuard
       IN  IF guard /\ sent = other
             THEN Decide(g, FALSE) /\ Goto(g, "unlock")
             ELSE IF sent # "none" /\ (guard \/ sent = mine)
                    THEN Decide(g, TRUE) /\ Goto(g, "unlock")
                    ELSE UNCHANGED <<res, lin>> /\ Goto(g, "set")
    /\ UNCHANGED <<ip, mu, sent, ackCh, nackCh, panicked>>

Set(g) ==
    /\ pc[g] = "set"
    /\ sent' = IF Op(g) = "Ack" THEN "ack" ELSE "nack"
    /\ Goto(g, "close")
    /\ UNCHANGED <<ip, mu, ackCh, nackCh, res, lin, panicked>>

CloseCh(g) ==
    /\ pc[g] = "close"
    /\ LET ch == IF Op(g) = "Ack" THEN ackCh ELSE nackCh IN
         /\ panicked' = (panicked \/ ch = "closed")      \* close of closed channel
         /\ IF Op(g) = "Ack" THEN ackCh' = "closed" /\ UNCHANGED nackCh
                             ELSE nackCh' = "closed" /\ UNCHANGED ackCh
    /\ Decide(g, TRUE)
    /\ Goto(g, "unlock")
    /\ UNCHANGED <<ip, mu, sent>>

Unlock(g) ==
    /\ pc[g] = "unlock"
    /\ IF UseMutex THEN mu' = None ELSE UNCHANGED mu
    /\ Goto(g, "ret")
    /\ UNCHANGED <<ip, sent, ackCh, nackCh, res, lin, panicked>>

Read(g) ==
    /\ pc[g] = "read"
    /\ Decide(g, IF Op(g) = "RdAck" THEN ackCh = "closed" ELSE nackCh = "closed")
    /\ Goto(g, "ret")
    /\ UNCHANGED <<ip, mu, sent, ackCh, nackCh, panicked>>

Return(g) ==
    /\ pc[g] = "ret"
    /\ ip' = [ip EXCEPT ![g] = @ + 1]
    /\ Goto(g, "idle")
    /\ UNCHANGED <<mu, sent, ackCh, nackCh, res, lin, panicked>>

INext == \E g \in Callers :
            Start(g) \/ Lock(g) \/ Check(g) \/ Set(g) \/ CloseCh(g) \/ Unlock(g) \/ Read(g) \/ Return(g)

ISpec == IInit /\ [][INext]_ivars
IFairSpec == ISpec /\ \A g \in Callers : WF_ivars(Start(g) \/ Lock(g) \/ Check(g) \/ Set(g) \/ CloseCh(g) \/ Unlock(g) \/ Read(g) \/ Return(g))

-----------------------------------------------------------------------------
\* Invariants of the implementation model
NoPanic == ~panicked
NotBoth == ~(ackCh = "closed" /\ nackCh = "closed")
ChannelsMatchState ==            \* outside a critical section the type and the channels agree
    (\A g \in Callers : pc[g] \notin {"close"}) =>
        /\ (sent = "ack")  <=> (ackCh = "closed")
        /\ (sent = "nack") <=> (nackCh = "closed")
\* no call blocks forever: every program runs to completion
AllDone == <>(\A g \in Callers : ip[g] > Len(Prog[g]))

-----------------------------------------------------------------------------
\* Refinement mapping to Message.tla
absSt == IF ackCh = "closed" THEN "ack" ELSE IF nackCh = "closed" THEN "nack" ELSE "none"
absPend == [g \in {x \in Callers : pc[x] # "idle"} |-> [op |-> Op(g), done |-> lin[g], res |-> res[g]]]

Abs == INSTANCE Message WITH st <- absSt, pend <- absPend
RefinesAbs == Abs!MSpec
=============================================================================
