SPECIFICATION PFairSpec
CONSTANTS
  K = 2
  Lineages = {"x1","x2"}
  FaultBudget = 2
  MutAckFirst = FALSE
  MutDropOnNack = FALSE
INVARIANTS NoLoss Sound
PROPERTIES AckAfterAccept AllArrive
CHECK_DEADLOCK FALSE
