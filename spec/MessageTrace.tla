----------------------------- MODULE MessageTrace -----------------------------
(* Trace validation for C03: histories recorded from the real message.Message
   are checked against Message.tla.

   Events (one JSON object per line of trace.ndjson):
     {"e":"reset", "run":n, ...}            start of a new history on a fresh message
     {"e":"call",  "g":"g1", "op":"Ack"}    invocation  (logged before the call)
     {"e":"ret",   "g":"g1", "res":true}    response    (logged after the return)
     {"e":"op",    "g":"g1", "op":"Ack", "res":true}   call+ret of a sequential history
   The linearization points are not logged: Lin(g) is a silent step.  Anything
   else in the trace ("panic", "hung", ...) matches no action and is rejected.  *)
EXTENDS Message, TraceBase

tvars == <<st, pend, l>>

TInit == MInit /\ LInit

TReset == /\ More /\ Ev.e = "reset"
          /\ st' = "none" /\ pend' = << >> /\ Adv
TCall  == /\ More /\ Ev.e = "call" /\ Call(Ev.g, Ev.op) /\ Adv
TRet   == /\ More /\ Ev.e = "ret"  /\ Ret(Ev.g, Ev.res) /\ Adv
\* sequential call: invocation, linearization and response in one step
TOp    == /\ More /\ Ev.e = "op" /\ Ev.g \notin DOMAIN pend
          /\ LET r == Apply(Ev.op, st) IN r[1] = Ev.res /\ st' = r[2]
          /\ UNCHANGED pend /\ Adv
TLin   == /\ \E g \in DOMAIN pend : Lin(g)
          /\ UNCHANGED l

TNext == TReset \/ TCall \/ TRet \/ TOp \/ TLin
TSpec == TInit /\ [][TNext]_tvars

=============================================================================
