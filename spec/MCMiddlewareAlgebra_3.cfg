SPECIFICATION MSpec
CONSTANTS
  LegacyTimeout = FALSE
  MaxChain = 3
INVARIANTS EffectEndsWithCall DeadlineVisibleDuringCall RetryAttemptsUnchanged Transparent RecovererContains RetryHonest
CHECK_DEADLOCK FALSE
