SPECIFICATION Spec
CONSTANTS
  Msgs = {"m1","m2"}
  Closers = {c1, c2}
  AllowStop = TRUE
  Watcher = nowatcher
  AllowCtxCancel = FALSE
  AllowTimeout = FALSE
  LegacyConcurrentWaits = FALSE
  LegacyStartedFirst = TRUE
  LegacyHandleClose = FALSE
  MutUnregBeforeDone = FALSE
  MutIsClosedInRunHandlers = FALSE
  MutSkipStoppedWhenClosing = FALSE
  LegacySecondCloseNil = FALSE
INVARIANTS NoStuck Graceful ErrorOnlyOnTimeout NoPanic RunAfterClose SubClosedAtEnd DroppedNotHandled

CHECK_DEADLOCK FALSE
