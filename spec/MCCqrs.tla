------------------------------- MODULE MCCqrs -------------------------------
(* Exhaustive check of the dispatch rules over all registries of <= 3 handlers over 2 types in up to 2 groups, all
   flag settings, all messages: one state per case.                                            *)
EXTENDS Cqrs, FiniteSets
Types == {"T1", "T2"}
Hd(i) == {[h |-> i, type |-> t, fails |-> f, grp |-> g] : t \in Types, f \in BOOLEAN, g \in 1..2}
Regs == {<<a>> : a \in Hd(1)} \cup {<<a, b>> : a \in Hd(1), b \in Hd(2)} \cup {<<a, b, c>> : a \in Hd(1), b \in Hd(2), c \in Hd(3)}
Flags == [ackUnknown : BOOLEAN, ackErrors : BOOLEAN]
MsgsAll == [name : Types \cup {"foreign", ""}, wellformed : BOOLEAN]
VARIABLES kind, reg, flags, msg, on
cv == <<kind, reg, flags, msg, on>>
MInit == kind \in {"command", "event", "group"} /\ reg \in Regs /\ flags \in Flags /\ msg \in MsgsAll /\ on \in 1..Len(reg)
MSpec == MInit /\ [][UNCHANGED cv]_cv
D == Dispatch(kind, reg, flags, msg, on)
\* a handler is invoked only for its own type, with a decodable payload
InvokedOnlyIfMatch == \A i \in 1..Len(D.calls) : msg.wellformed /\ reg[D.calls[i]].type = msg.name
\* group: registration order, stop at the first error
GroupOrder == kind = "group" =>
                 /\ \A i, j \in 1..Len(D.calls) : i < j => D.calls[i] < D.calls[j]
                 /\ \A i \in 1..Len(D.calls) : reg[D.calls[i]].fails => i = Len(D.calls)
\* unknown types: commands acknowledged, events as AckOnUnknownEvent says -- unknown to the handler / the group
\* whose subscription delivered the message, whatever other handlers / groups of the processor may handle
Relevant == IF kind = "group" THEN {i \in 1..Len(reg) : reg[i].grp = on} ELSE {on}
UnknownPolicy == (msg.name \notin {reg[i].type : i \in Relevant}) =>
                    (D.calls = << >> /\ D.settle = IF kind = "command" \/ flags.ackUnknown THEN "ack" ELSE "nack")
\* a handler error means Nack unless AckCommandHandlingErrors (commands only)
ErrorPolicy == (Len(D.calls) > 0 /\ reg[D.calls[Len(D.calls)]].fails) =>
                  D.settle = IF kind = "command" /\ flags.ackErrors THEN "ack" ELSE "nack"
\* an acknowledged message of a known type was handled by every matching handler that was reached
AckMeansHandled == (D.settle = "ack" /\ Len(D.calls) = 0) => (~msg.wellformed => FALSE) \/ \A i \in 1..Len(reg) : kind # "group" \/ reg[i].type # msg.name
=============================================================================
