SPECIFICATION FairSpec
CONSTANTS
  H = {"a","b"}
  AllowUserClose = FALSE
  LegacyUnbufferedSignal = FALSE
  MutSignalBeforeAdd = TRUE
INVARIANTS TypeOK NoEarlyClose NeverEmptyClose
PROPERTIES SelfClose
CHECK_DEADLOCK FALSE
