-------------------------- MODULE MCSubDecoratorGen --------------------------
(* Generator (specification -> implementation): behaviours of SubDecorator.tla are sampled by TLC's simulator and
   printed as SCHEDULES: the steps at which the harness has to do something -- start a call, let the inner subscriber
   hand out a message, let a consumer receive, cancel, or release the goroutine that is parked at a hook point.
   bin/gen-decorator-schedules collects them; the C07 / C20 drivers replay every schedule against the real decorator with
   ALL hook points gated (the goroutines of the decorator move only when the schedule says so) and the recorded
   internal trace is validated against SubDecoratorTrace.tla.  Steps without a counterpart in the harness (lock /
   unlock, the inner subscriber closing a channel, Done) are projected away.                                        *)
EXTENDS SubDecorator, Json
VARIABLES word, printed
gvars == <<vars, word, printed>>
Step(a, w) == a /\ word' = Append(word, w) /\ UNCHANGED printed
Quiet(a) == a /\ UNCHANGED <<word, printed>>
\* the simulator picks uniformly among the enabled steps; the steps of the environment that end things (cancel, a consumer
\* stopping, Close) are offered only now and then, so that subscriptions live long enough to carry messages
Rarely == RandomElement(1..6) = 1 \/ Len(word) < 0    \* (mentions a variable: evaluated anew at every step)
Finished == /\ \A c \in Closers : cl[c] = "done"
            /\ \A s \in Subs : sub[s] \in {"returned", "failed"} /\ pump[s] \in {"off", "done"}
GInit == Init /\ word = << >> /\ printed = FALSE
GNext == \/ \E s \in Subs :
              \/ Step(SubInner(s), "sub:" \o s)
              \/ Step(SubAdd(s), "added:" \o s)
              \/ Step(InnerSend(s), "emit:" \o s)
              \/ Step(PumpSend(s), "deliver:" \o s)
              \/ Step(PumpDrop(s, "closing") \/ PumpDrop(s, "ctx"), "drop:" \o s)
              \/ Step(PumpCloseOut(s), "outclosed:" \o s)
              \/ Step(CtxCancel(s) /\ Rarely, "cancel:" \o s)
              \/ Step(StopReading(s) /\ sub[s] # "none" /\ Rarely, "stopread:" \o s)
              \/ Quiet(SubLock(s) \/ SubUnlock(s) \/ SubGo(s) \/ InnerEnd(s) \/ PumpSeesClosed(s) \/ PumpDone(s))
         \/ \E c \in Closers :
              \/ Step(ClStart(c) /\ (\E s \in Subs : sub[s] # "none") /\ Rarely, "close")      \* (a Subscribe after Close began is left to the second subscription)
              \/ Step(ClInnerStart(c), "innerstart")
              \/ Step(ClInnerDone(c), "innerclosed")
              \/ Step(ClSignal(c), "signalled")
              \/ Step(ClWait(c), "waited")
              \/ Quiet(ClLock(c) \/ ClUnlock(c))
         \/ (~Finished /\ UNCHANGED gvars)           \* (idling: the rarely offered steps may all be withheld at the moment)
         \/ (Finished /\ ~printed /\ printed' = TRUE /\ PrintT("WORD " \o ToJson(word)) /\ UNCHANGED <<vars, word>>)
GSpec == GInit /\ [][GNext]_gvars
=============================================================================
