SPECIFICATION RSpec
CONSTANTS
  Msgs = {"m1","m2"}
  MutAckBeforePublish = FALSE
  MutPublishOnError = TRUE
  MutNoNackOnPubErr = FALSE
INVARIANTS AtMostOnePublish NoPublishAfterError DoneMeansSettled
PROPERTIES AckOnlyAfterPublishOk SettleStable NoSettleBeforePublishReturns OnlyHandlerSettlesEarly FailureNotAckedByRouter
CHECK_DEADLOCK FALSE
