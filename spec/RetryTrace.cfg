SPECIFICATION TSpec
CONSTRAINT HighWater
POSTCONDITION Accepted
INVARIANTS AttemptsBounded HooksBounded
CHECK_DEADLOCK FALSE
