--------------------------- MODULE PubSubDecorators ---------------------------
(* Pub/Sub decorators (message/decorator.go, components/delay, components/metrics) -- C20.

   delay.Publisher: every outgoing message gets exactly one delay, chosen by precedence
       metadata already present  >  delay in the message context  >  default generator;
   the batch is forwarded in ONE inner call, in order; when some message has no delay
   available (no source, and the generator is absent or fails) nothing is published and an
   error is returned -- unless AllowNoDelay, which lets messages without delay through.
     cfg   = [gen |-> "ok" | "fail" | "none", allow |-> BOOLEAN, inner |-> "accept" | "error"]
     batch = sequence of delay sources: "meta" | "metafor" (only the delayed-for key was set, by hand: it counts as
             metadata already present and is left as it is) | "ctx" | "none"
   Expected(cfg, batch) = [err, calls, from]  (from[i] = where message i's stamp came from).

   Transform decorators and metrics decorators are transparent: one inner call per Publish,
   every message once and in order, errors and Close pass through; metrics count every publish
   call, every settled received message and every handler invocation exactly once
   (CountersEqualEvents is stated on the trace, PubSubDecoratorsTrace.tla).                  *)
EXTENDS Naturals, Sequences, TLC

Source(cfg, s) ==
    CASE s \in {"meta", "metafor"} -> "meta"
      [] s = "ctx"  -> "ctx"
      [] OTHER      -> IF cfg.gen = "ok" THEN "gen" ELSE IF cfg.gen = "fail" THEN "generr" ELSE IF cfg.allow THEN "nodelay" ELSE "missing"
Bad(cfg, batch) == \E i \in 1..Len(batch) : Source(cfg, batch[i]) \in {"generr", "missing"}
Expected(cfg, batch) ==
    IF Bad(cfg, batch)
    THEN [err |-> TRUE, calls |-> 0, from |-> << >>]
    ELSE [err |-> cfg.inner = "error", calls |-> 1, from |-> [i \in 1..Len(batch) |-> Source(cfg, batch[i])]]
=============================================================================
