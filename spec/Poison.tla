-------------------------------- MODULE Poison --------------------------------
(* The PoisonQueue middleware (message/router/middleware/poison.go) -- C13.

   One call:  the wrapped handler runs once (HCall) and succeeds or fails with
   an error.  If it failed, the filter is consulted with that very error
   (Filter); if the filter accepts, the message is published exactly once to the
   poison topic (PCall) with the same UUID and payload and the original metadata
   plus the four poison keys; only if that publish succeeded the call reports
   success.  In every other case the handler's error is still returned (when
   the poison publish failed, together with the publish error).  Successful
   handling and filtered-out errors publish nothing and pass through unchanged.
   Inside a Router the message is acked iff the call reported success.

   c = [hok, accept, pubok, inRouter, meta, errText, ctxTopic, ctxHandler, ctxSub, topic, uuid, payload]  *)
EXTENDS Naturals, Sequences, TLC

VARIABLES c, phase, published, filtered, result, settled
pvars == <<c, phase, published, filtered, result, settled>>
\* phase: "idle" -> "handled" -> ("filtered" -> ("published")) -> "returned"

PoisonKeys == {"reason_poisoned", "topic_poisoned", "handler_poisoned", "subscriber_poisoned"}
ExpectedMeta(k) ==
    [x \in DOMAIN k.meta \cup PoisonKeys |->
        CASE x = "reason_poisoned"     -> k.errText
          [] x = "topic_poisoned"      -> k.ctxTopic
          [] x = "handler_poisoned"    -> k.ctxHandler
          [] x = "subscriber_poisoned" -> k.ctxSub
          [] OTHER                     -> k.meta[x]]

PInit(k) == c = k /\ phase = "idle" /\ published = 0 /\ filtered = 0 /\ result = "none" /\ settled = "none"

HCall == /\ phase = "idle" /\ phase' = "handled"
         /\ UNCHANGED <<c, published, filtered, result, settled>>

\* the filter sees the handler's own error object (same = TRUE), once
Filter(same) ==
    /\ phase = "handled" /\ ~c.hok /\ same
    /\ filtered' = filtered + 1 /\ phase' = "filtered"
    /\ UNCHANGED <<c, published, result, settled>>

PCall(topic, uuid, payload, meta) ==
    /\ phase = "filtered" /\ c.accept
    /\ topic = c.topic /\ uuid = c.uuid /\ payload = c.payload
    /\ meta = ExpectedMeta(c)
    /\ published' = published + 1 /\ phase' = "published"
    /\ UNCHANGED <<c, filtered, result, settled>>

\* what the call must report
Expected == IF c.hok THEN "nil"
            ELSE IF ~c.accept THEN "same"          \* the handler's error, unchanged
            ELSE IF c.pubok THEN "nil"             \* salvaged
            ELSE "both"                            \* handler error and publish error
Return(r) ==
    /\ \/ phase = "handled" /\ c.hok
       \/ phase = "filtered" /\ ~c.accept
       \/ phase = "published"
    /\ r = Expected
    /\ result' = r /\ phase' = "returned"
    /\ UNCHANGED <<c, published, filtered, settled>>

Settle(kind) ==
    /\ phase = "returned" /\ c.inRouter /\ settled = "none"
    /\ kind = IF result = "nil" THEN "ack" ELSE "nack"
    /\ settled' = kind
    /\ UNCHANGED <<c, phase, published, filtered, result>>

-----------------------------------------------------------------------------
\* C13: a message reported as success (and hence acked) was handled or is in the poison topic
AckedImpliesHandledOrPoisoned == (result = "nil") => (c.hok \/ published = 1)
AtMostOnePoison == published <= 1
NoPoisonOnSuccessOrFiltered == (c.hok \/ ~c.accept) => published = 0
SettledMatches == settled = "ack" => result = "nil"
=============================================================================
