---------------------------- MODULE RouterHandler ----------------------------
(* Per-message protocol of a Router handler (message/router.go,
   handler.handleMessage / publishProducedMessages) -- property C02, and the
   per-message part of C01, C06, C08.

   For every message taken from the subscriber the router
     1. invokes the handler chain exactly once               (HStart .. HEnd)
     2. if the chain returned no error and at least one message, and the
        handler has a publisher, calls Publish once with exactly those
        messages                                             (PCall .. PRet)
     3. settles the message exactly once: Ack iff no error/panic and the
        outputs (if any) were accepted, else Nack            (Settle)
   The handler may settle the message itself while it runs (HSelf); because a
   Message is first-wins (Message.tla) the router's later settlement then has
   no effect.  Several messages are in flight concurrently on one handler.

   A chain result is  [end |-> "ok"|"err"|"panic", outs |-> <<uuid,...>>].
   Publisher outcome: "accept" | "error" | "panic".

   Switches (spec mutants which TLC must reject):
     MutAckBeforePublish : the Ack is sent before Publish is called
     MutPublishOnError   : outputs returned together with an error are published
     MutNoNackOnPubErr   : publish failure is ignored (Ack)                      *)
EXTENDS Naturals, Sequences, FiniteSets, TLC

CONSTANTS Msgs,          \* messages taken from the subscriber
          MutAckBeforePublish, MutPublishOnError, MutNoNackOnPubErr

VARIABLES hp,       \* hp[m] TRUE: m is handled by a handler with publisher; FALSE: no-publisher handler (fixed per behaviour)
          ph,       \* ph[m] : "idle","emitted","handling","topublish","publishing","tosettle","done"
          settle,   \* settle[m] : "none" | "ack" | "nack"  (the Message state machine)
          res,      \* res[m] : chain result (meaningful from "topublish"/"tosettle" on)
          pubres,   \* pubres[m] : "none" | "accept" | "error" | "panic"
          calls     \* calls[m] : number of Publish calls made for m
rvars == <<hp, ph, settle, res, pubres, calls>>

NoRes == [end |-> "none", outs |-> << >>]
Ends == {"ok", "err", "panic"}
Results == {[end |-> e, outs |-> o] : e \in Ends, o \in {<< >>, <<"o1">>, <<"o1", "o2">>}}

FirstWins(cur, k) == IF cur = "none" THEN k ELSE cur

RInit ==
    /\ hp \in [Msgs -> BOOLEAN]
    /\ ph = [m \in Msgs |-> "idle"]
    /\ settle = [m \in Msgs |-> "none"]
    /\ res = [m \in Msgs |-> NoRes]
    /\ pubres = [m \in Msgs |-> "none"]
    /\ calls = [m \in Msgs |-> 0]

Emit(m) == /\ ph[m] = "idle" /\ ph' = [ph EXCEPT ![m] = "emitted"]
           /\ UNCHANGED <<settle, res, pubres, calls>>

HStart(m) == /\ ph[m] = "emitted" /\ ph' = [ph EXCEPT ![m] = "handling"]
             /\ UNCHANGED <<settle, res, pubres, calls>>

\* The subscription was cancelled (Handler.Stop, Close) before the router took the message out of it: the
\* decorator's pump gives it up, the chain is not invoked and the message stays unsettled -- C02 speaks of
\* messages the router TAKES.  (What is excluded: a settlement without the chain having been invoked.)
Untaken(m) == /\ ph[m] = "emitted" /\ settle[m] = "none" /\ ph' = [ph EXCEPT ![m] = "idle"]
              /\ UNCHANGED <<settle, res, pubres, calls>>

\* the handler settles the message itself
\* Whoever shares the message object with the source (a subscriber decorator with an ack deadline, the source itself)
\* settled it BEFORE it is handed over.  It is a message like any other: the chain is invoked, its outputs are
\* published; the router's own settlement is then without effect (first settlement wins).
PreSettle(m, k) == /\ ph[m] = "idle" /\ settle[m] = "none" /\ k \in {"ack", "nack"}
                   /\ settle' = [settle EXCEPT ![m] = k]
                   /\ UNCHANGED <<ph, res, pubres, calls>>

HSelf(m, k) == /\ ph[m] = "handling" /\ k \in {"ack", "nack"}
               /\ settle' = [settle EXCEPT ![m] = FirstWins(@, k)]
               /\ UNCHANGED <<ph, res, pubres, calls>>

WillPublish(m, r) == /\ Len(r.outs) > 0
                  /\ hp[m]
                  /\ (r.end = "ok" \/ (MutPublishOnError /\ r.end = "err"))

HEnd(m, r) == /\ ph[m] = "handling"
              /\ res' = [res EXCEPT ![m] = r]
              /\ ph' = [ph EXCEPT ![m] = IF WillPublish(m, r) THEN "topublish" ELSE "tosettle"]
              /\ settle' = IF MutAckBeforePublish /\ WillPublish(m, r)
                             THEN [settle EXCEPT ![m] = FirstWins(@, "ack")] ELSE settle
              /\ UNCHANGED <<pubres, calls>>

\* Publish is entered with exactly the chain's outputs; `sample` is the settlement
\* of the consumed message as seen from inside Publish
PCall(m, outs, sample) ==
    /\ ph[m] = "topublish"
    /\ outs = res[m].outs
    /\ sample = settle[m]
    /\ ph' = [ph EXCEPT ![m] = "publishing"]
    /\ calls' = [calls EXCEPT ![m] = @ + 1]
    /\ UNCHANGED <<settle, res, pubres>>

PRet(m, o, sample) ==
    /\ ph[m] = "publishing" /\ o \in {"accept", "error", "panic"}
    /\ sample = settle[m]
    /\ pubres' = [pubres EXCEPT ![m] = o]
    /\ ph' = [ph EXCEPT ![m] = "tosettle"]
    /\ UNCHANGED <<settle, res, calls>>

\* the one legal settlement of m by the router
Outcome(m) ==
    IF /\ res[m].end = "ok"
       /\ \/ Len(res[m].outs) = 0
          \/ (hp[m] /\ pubres[m] = "accept")
          \/ (MutNoNackOnPubErr /\ hp[m])
    THEN "ack" ELSE "nack"

Settle(m) == /\ ph[m] = "tosettle"
             /\ settle' = [settle EXCEPT ![m] = FirstWins(@, Outcome(m))]
             /\ ph' = [ph EXCEPT ![m] = "done"]
             /\ UNCHANGED <<res, pubres, calls>>

RStep == \E m \in Msgs :
           \/ Emit(m) \/ HStart(m) \/ Settle(m) \/ Untaken(m)
           \/ \E k \in {"ack", "nack"} : HSelf(m, k) \/ PreSettle(m, k)
           \/ \E r \in Results : HEnd(m, r)
           \/ PCall(m, res[m].outs, settle[m])
           \/ \E o \in {"accept", "error", "panic"} : PRet(m, o, settle[m])

RNext == RStep /\ UNCHANGED hp

RSpec == RInit /\ [][RNext]_rvars

-----------------------------------------------------------------------------
\* The statement of C02 as invariants / action properties of the protocol

\* A message is acked by the ROUTER (i.e. in a Settle step) only if the chain
\* succeeded and every output was accepted
AckOnlyAfterPublishOk ==
    [][\A m \in Msgs :
         (ph[m] = "tosettle" /\ ph'[m] = "done" /\ settle[m] = "none" /\ settle'[m] = "ack")
            => (res[m].end = "ok" /\ (Len(res[m].outs) = 0 \/ pubres[m] = "accept"))]_rvars
\* a settlement, once made (by the handler or by the router), is never overridden
SettleStable == [][\A m \in Msgs : settle[m] # "none" => settle'[m] = settle[m]]_rvars
\* while Publish is pending or running the router does not touch the settlement
NoSettleBeforePublishReturns ==
    [][\A m \in Msgs : (ph[m] \in {"topublish", "publishing"}) => settle'[m] = settle[m]]_rvars
\* ... and it is still unsettled then unless the handler settled it itself: the
\* only step that settles before "tosettle" is HSelf (ph stays "handling")
OnlyHandlerSettlesEarly ==
    [][\A m \in Msgs : (settle[m] = "none" /\ settle'[m] # "none") => (ph[m] = "handling" /\ ph'[m] = "handling") \/ (ph[m] = "tosettle") \/ (ph[m] = "idle" /\ ph'[m] = "idle")]_rvars
AtMostOnePublish == \A m \in Msgs : calls[m] <= 1
NoPublishAfterError ==
    \A m \in Msgs : calls[m] > 0 => (res[m].end = "ok" /\ Len(res[m].outs) > 0 /\ hp[m])
DoneMeansSettled == \A m \in Msgs : ph[m] = "done" => settle[m] # "none"
\* a failed chain or failed publish ends in Nack unless the handler settled first
FailureNotAckedByRouter ==
    [][\A m \in Msgs :
         (ph'[m] = "done" /\ ph[m] = "tosettle" /\ settle[m] = "none"
            /\ (res[m].end # "ok" \/ (Len(res[m].outs) > 0 /\ (~hp[m] \/ pubres[m] # "accept"))))
            => settle'[m] = "nack"]_rvars
=============================================================================
