SPECIFICATION FairSpec
CONSTANTS
  Msgs = {"m1","m2"}
  Closers = {c1, c2}
  AllowStop = FALSE
  Watcher = nowatcher
  AllowCtxCancel = FALSE
  AllowTimeout = FALSE
  LegacyConcurrentWaits = FALSE
  LegacyStartedFirst = FALSE
  LegacyHandleClose = FALSE
  LegacySecondCloseNil = FALSE
INVARIANTS Graceful ErrorOnlyOnTimeout NoPanic RunAfterClose SubClosedAtEnd DroppedNotHandled
PROPERTIES AllReturn
CHECK_DEADLOCK FALSE
