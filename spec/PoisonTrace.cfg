SPECIFICATION TSpec
CONSTRAINT HighWater
POSTCONDITION Accepted
INVARIANTS AckedImpliesHandledOrPoisoned AtMostOnePoison NoPoisonOnSuccessOrFiltered SettledMatches
CHECK_DEADLOCK FALSE
