SPECIFICATION MSpec
CONSTANTS
  LegacyTimeout = FALSE
  MaxChain = 2
INVARIANTS EffectEndsWithCall DeadlineVisibleDuringCall RetryAttemptsUnchanged Transparent RecovererContains RetryHonest
CHECK_DEADLOCK FALSE
