------------------------------- MODULE Values -------------------------------
(* Value semantics of message.Message and of the codecs -- property C16.

   The heap maps cell ids to message values  [uuid, payload, meta]  where meta is
   a function from keys to values (a key with value "" is different from an
   absent key).  Each cell owns its metadata: SetMeta on one cell never changes
   another one, in particular not a copy or the original it was copied from.
     New(i, v)       a fresh message
     Copy(i, j)      j becomes a copy of i (same UUID, payload bytes, complete metadata)
     SetMeta(i,k,x)  metadata write on cell i only
     SetPayload(i,p) / SetUUID(i,u)
     Equals(i, j)    TRUE exactly when UUID, payload and the complete key/value set coincide
   Codec round trips (envelope, CQRS marshalers, request-reply marshaler) are the identity
   on (topic, uuid, payload, meta) / on the marshaled value; they are stated in ValuesTrace. *)
EXTENDS Naturals, Sequences, FiniteSets, TLC
VARIABLES heap
Upd(f, k, v) == (k :> v) @@ f
HInit == heap = << >>
New(i, v) == heap' = Upd(heap, i, v)
Copy(i, j) == i \in DOMAIN heap /\ heap' = Upd(heap, j, heap[i])
SetMeta(i, k, x) == i \in DOMAIN heap /\ heap' = [heap EXCEPT ![i].meta = Upd(@, k, x)]
SetPayload(i, p) == i \in DOMAIN heap /\ heap' = [heap EXCEPT ![i].payload = p]
SetUUID(i, u) == i \in DOMAIN heap /\ heap' = [heap EXCEPT ![i].uuid = u]
EqualsResult(i, j) == heap[i] = heap[j]
=============================================================================
