--------------------------- MODULE BulkReadTrace ---------------------------
(* Trace validation of BulkRead / BulkReadWithDeduplication (extra check X01).  Events:
     reset cfg | offer u gap taken acked | closed | ret got all wait      (gap, wait in microseconds)      *)
EXTENDS BulkRead, TraceBase
tvars == <<rvars, l>>
TInit == RInit([limit |-> 0, timeout |-> 0, slack |-> 0, dedup |-> FALSE]) /\ LInit
TReset == Is("reset") /\ cfg' = Ev.cfg /\ held' = << >> /\ stopped' = FALSE /\ Adv
TOffer == Is("offer") /\ Offer(Ev.u, Ev.gap, Ev.taken, Ev.acked) /\ Adv
TClosed == Is("closed") /\ Closed /\ Adv
TRet == Is("ret") /\ Return(Ev.got, Ev.all, Ev.wait) /\ Adv
TNext == TReset \/ TOffer \/ TClosed \/ TRet
TSpec == TInit /\ [][TNext]_tvars
=============================================================================
