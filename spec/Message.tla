------------------------------- MODULE Message -------------------------------
(* Abstract specification of message.Message settlement (property C03).

   A message is a three-state machine  none -> ack | nack ; the first Ack or
   Nack decides it forever.  Every public call is split into an invocation
   (Call), a linearization point (Lin) and a response (Ret) so that concurrent
   histories recorded from the implementation can be checked for
   linearizability by TLC (MessageTrace.tla), and so that the implementation-
   shaped model (MessageImpl.tla) can be shown to refine it.

   Operations:  "Ack", "Nack"            result  TRUE / FALSE
                "RdAck", "RdNack"        result  TRUE (channel closed) / FALSE (open)
   pend[g].done says whether the call has been linearized; res is meaningful
   only then.                                                                 *)
EXTENDS Naturals, FiniteSets, TLC

CONSTANT Callers            \* identities of calling goroutines

VARIABLES st,               \* "none" | "ack" | "nack"
          pend              \* pend[g] = [op |-> .., res |-> ..] for g with a call in progress

mvars == <<st, pend>>

Ops == {"Ack", "Nack", "RdAck", "RdNack"}

\* The sequential meaning of each operation: <<result, next state>>
Apply(op, s) ==
    CASE op = "Ack"    -> IF s = "nack" THEN <<FALSE, s>> ELSE <<TRUE, "ack">>
      [] op = "Nack"   -> IF s = "ack"  THEN <<FALSE, s>> ELSE <<TRUE, "nack">>
      [] op = "RdAck"  -> <<s = "ack", s>>
      [] op = "RdNack" -> <<s = "nack", s>>

MInit == st = "none" /\ pend = << >>

Call(g, op) ==
    /\ g \notin DOMAIN pend
    /\ op \in Ops
    /\ pend' = (g :> [op |-> op, done |-> FALSE, res |-> FALSE]) @@ pend
    /\ UNCHANGED st

Lin(g) ==
    /\ g \in DOMAIN pend
    /\ ~pend[g].done
    /\ LET r == Apply(pend[g].op, st) IN
         /\ st' = r[2]
         /\ pend' = [pend EXCEPT ![g].done = TRUE, ![g].res = r[1]]

Ret(g, res) ==
    /\ g \in DOMAIN pend
    /\ pend[g].done
    /\ pend[g].res = res
    /\ pend' = [x \in DOMAIN pend \ {g} |-> pend[x]]
    /\ UNCHANGED st

MNext == \E g \in Callers :
            \/ \E op \in Ops : Call(g, op)
            \/ Lin(g)
            \/ \E r \in BOOLEAN : Ret(g, r)

MSpec == MInit /\ [][MNext]_mvars

-----------------------------------------------------------------------------
\* Properties of the abstract machine (the statement of C03)
TypeOK == st \in {"none", "ack", "nack"}
\* once settled the state never changes
Stable == [][st # "none" => st' = st]_mvars
\* a linearized Ack/Nack result agrees with the state: true iff that kind won
ResultsAgree ==
    \A g \in DOMAIN pend :
        pend[g].done =>
            CASE pend[g].op = "Ack"  -> (pend[g].res = (st = "ack"))
              [] pend[g].op = "Nack" -> (pend[g].res = (st = "nack"))
              [] OTHER -> TRUE     \* a read may have been linearized before the decision
=============================================================================
