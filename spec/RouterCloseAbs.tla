---------------------------- MODULE RouterCloseAbs ----------------------------
(* Abstract specification of graceful Router shutdown (property C06) over
   observable events only.

   msg[m]   "emitted"  the subscriber has handed m towards the router
            "handling" the handler function of m is running
            "handled"  it has returned
   st[m]    last sampled settlement of m  ("none" | "ack" | "nack")
   closing  some Close call has been made
   okClosed some Close call has returned nil: from then on no handler invocation
            is in progress and none may start
   pend     Close calls in progress
   subClosed / pubClosed   Close() calls seen by the handlers' subscriber / publisher
   runRet   Run has returned

   Close(i) returning nil requires: no message is "handling"; every handled
   message is settled; no unhandled message is acked.  After that no HStart.
   Close(i) returning an error is allowed only when a handler is still running
   and the configured timeout has passed; and every Close call returns within
   CloseTimeout of being served (InTime), handlers finished or not.  Run returns only after a Close call
   (the router's own or the user's) completed its waiting, i.e. in a state where
   nothing is "handling" unless the close timed out.                            *)
EXTENDS Naturals, Sequences, FiniteSets, TLC

VARIABLES msg, st, closing, okClosed, timedOut, pend, subClosed, pubClosed, runRet, tcall, lastRet
cvars == <<msg, st, closing, okClosed, timedOut, pend, subClosed, pubClosed, runRet, tcall, lastRet>>

CInit == /\ msg = << >> /\ st = << >> /\ closing = FALSE /\ okClosed = FALSE /\ timedOut = FALSE
         /\ pend = {} /\ subClosed = 0 /\ pubClosed = 0 /\ runRet = FALSE /\ tcall = << >> /\ lastRet = 0

Upd(f, k, v) == (k :> v) @@ f
Handling == {m \in DOMAIN msg : msg[m] = "handling"}

Emit(m) == /\ m \notin DOMAIN msg /\ msg' = Upd(msg, m, "emitted") /\ st' = Upd(st, m, "none")
           /\ UNCHANGED <<closing, okClosed, timedOut, pend, subClosed, pubClosed, runRet, tcall, lastRet>>
\* a handler invocation starts: never after a Close call returned nil
HStart(m) == /\ m \in DOMAIN msg /\ msg[m] = "emitted" /\ ~okClosed
             /\ msg' = [msg EXCEPT ![m] = "handling"]
             /\ UNCHANGED <<st, closing, okClosed, timedOut, pend, subClosed, pubClosed, runRet, tcall, lastRet>>
HEnd(m) == /\ m \in DOMAIN msg /\ msg[m] = "handling" /\ msg' = [msg EXCEPT ![m] = "handled"]
           /\ UNCHANGED <<st, closing, okClosed, timedOut, pend, subClosed, pubClosed, runRet, tcall, lastRet>>

CloseCall(i, t) == /\ i \notin pend /\ pend' = pend \cup {i} /\ closing' = TRUE /\ tcall' = Upd(tcall, i, t)
                   /\ UNCHANGED <<msg, st, okClosed, timedOut, subClosed, pubClosed, runRet, lastRet>>

\* the settlement states sampled by the harness at this instant
Sampled(states) == [m \in DOMAIN msg |-> IF m \in DOMAIN states THEN states[m] ELSE st[m]]
Graceful(s) == /\ Handling = {}
               /\ \A m \in DOMAIN msg : /\ msg[m] = "handled" => s[m] # "none"      \* handled to completion and settled
                                        /\ msg[m] = "emitted" => s[m] # "ack"       \* never handled => never acked
\* "... instead of hanging": Close calls are served one after the other, and a call that is being served returns
\* within CloseTimeout (plus scheduling slack) whether or not the handlers have finished
Slack == 1500000
Max(a, b) == IF a > b THEN a ELSE b
InTime(i, t, timeout) == t <= Max(tcall[i], lastRet) + timeout + Slack
\* np: the publishers of the started handlers; their Close() calls have returned by then ("Close closes every handler's ... publisher")
CloseRetNil(i, states, t, timeout, np) ==
    /\ i \in pend /\ pend' = pend \ {i}
    /\ Graceful(Sampled(states))
    /\ pubClosed >= np
    /\ InTime(i, t, timeout) /\ lastRet' = Max(lastRet, t)
    /\ st' = Sampled(states) /\ okClosed' = TRUE
    /\ UNCHANGED <<msg, closing, timedOut, subClosed, pubClosed, runRet, tcall>>
\* an error only if handlers really outlived the timeout
CloseRetErr(i, t, timeout) ==
    /\ i \in pend /\ pend' = pend \ {i}
    /\ Handling # {} /\ t >= tcall[i] + timeout
    /\ InTime(i, t, timeout) /\ lastRet' = Max(lastRet, t)
    /\ timedOut' = TRUE
    /\ UNCHANGED <<msg, st, closing, okClosed, subClosed, pubClosed, runRet, tcall>>

SubClose == subClosed' = subClosed + 1 /\ UNCHANGED <<msg, st, closing, okClosed, timedOut, pend, pubClosed, runRet, tcall, lastRet>>
PubClose == pubClosed' = pubClosed + 1 /\ UNCHANGED <<msg, st, closing, okClosed, timedOut, pend, subClosed, runRet, tcall, lastRet>>

\* Run returns only after the close has completed, never while Close is still waiting for handlers
\* (Close closes closedCh before it returns: Run may be seen returning before the timed-out Close call is)
RunRet(states, t, timeout) ==
                  /\ ~runRet /\ closing
                  /\ IF timedOut THEN TRUE
                     ELSE IF \E i \in pend : t >= tcall[i] + timeout THEN TRUE
                     ELSE Graceful(Sampled(states))
                  /\ runRet' = TRUE /\ st' = Sampled(states)
                  /\ UNCHANGED <<msg, closing, okClosed, timedOut, pend, subClosed, pubClosed, tcall, lastRet>>

\* Run gave up with an error while it was starting the handlers (a Subscribe call failed): nothing was closed, handlers
\* started before the failing one keep working, and a later Close still has to wait for their invocations
RunFail == /\ ~runRet /\ ~closing /\ runRet' = TRUE
           /\ UNCHANGED <<msg, st, closing, okClosed, timedOut, pend, subClosed, pubClosed, tcall, lastRet>>

\* all obligations discharged: every Close call returned, Run returned, subscriber and publisher of
\* every handler were closed (nh handlers), final settlements are consistent
Quiescent(states, nh, np, expectSubClose) ==
    /\ pend = {} /\ runRet
    /\ (expectSubClose => subClosed >= nh) /\ pubClosed >= np
    /\ timedOut \/ Graceful(Sampled(states))
=============================================================================
