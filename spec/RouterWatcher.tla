---------------------------- MODULE RouterWatcher ----------------------------
(* The Router's self-close watcher (message/router.go: watchAllHandlersStopped,
   AddHandler, RunHandlers, Handler.Stop) -- property C10, "when the last handler
   ends the router closes itself and Run returns nil", for routers whose handlers
   are (partly) added after Run.

   Run computes `hasNoHandlersYet` synchronously and spawns the watcher goroutine:
       if hasNoHandlersYet { select { case <-handlerAdded: ; case <-closedCh: return } }
       handlersWg.Wait() ; if !IsClosed() { Close() }
   AddHandler does  handlersWg.Add(1) ; handlers[name] = h ; non-blocking send on handlerAdded.

   hst[h]   "none" | "added" | "started" | "stopped"
   wg       handlersWg
   wpc      watcher: "off" | "toselect" (spawned, not yet parked in the select) | "select" | "wait" | "check" | "done"
   tok      signals buffered in handlerAdded (0 or 1; always 0 for an unbuffered channel)
   run      "idle" | "running" | "returned";  closed: the router has been closed (by the watcher or the user)
   byWatcher  the watcher was the one that closed it
   userDone   the user program has finished (no more AddHandler / RunHandlers / Stop / Close)

   Switches (TRUE = defective design, TLC must reject it)
     LegacyUnbufferedSignal  handlerAdded is unbuffered: the non-blocking send succeeds only while the
                             watcher is parked in its select -- a handler added a moment earlier is never
                             noticed and the router never closes itself (the defect repaired by 578fb50)
     MutSignalBeforeAdd      AddHandler signals before handlersWg.Add(1): the watcher can pass Wait() and
                             close a router whose first handler is just being added                     *)
EXTENDS Naturals, FiniteSets, TLC

CONSTANTS
    \* @type: Set(Str);
    H,
    \* @type: Bool;
    AllowUserClose,
    \* @type: Bool;
    LegacyUnbufferedSignal,
    \* @type: Bool;
    MutSignalBeforeAdd

VARIABLES
    \* @type: Str -> Str;
    hst,
    \* @type: Int;
    wg,
    \* @type: Str;
    wpc,
    \* @type: Int;
    tok,
    \* @type: Str;
    run,
    \* @type: Bool;
    closed,
    \* @type: Bool;
    byWatcher,
    \* @type: Bool;
    userDone,
    \* @type: Str;
    adding
vars == <<hst, wg, wpc, tok, run, closed, byWatcher, userDone, adding>>

Init == /\ hst = [h \in H |-> "none"] /\ wg = 0 /\ wpc = "off" /\ tok = 0 /\ run = "idle"
        /\ closed = FALSE /\ byWatcher = FALSE /\ userDone = FALSE /\ adding = "none"

Added == {h \in H : hst[h] # "none"}

\* ---- user program (handlers are not added while the router is shutting down)
\* the non-blocking send on handlerAdded
Signal == IF LegacyUnbufferedSignal
            THEN IF wpc = "select" THEN wpc' = "wait" /\ tok' = tok      \* rendezvous with the parked watcher
                                   ELSE UNCHANGED <<wpc, tok>>             \* default branch: the signal is dropped
            ELSE (IF tok = 0 THEN tok' = 1 ELSE tok' = tok) /\ UNCHANGED wpc
\* (adding a handler after the last one has stopped races the self-close: excluded like any AddHandler during shutdown)
LastStopped == run # "idle" /\ Added # {} /\ \A h \in Added : hst[h] = "stopped"
AddHandler(h) ==
    /\ ~userDone /\ ~closed /\ ~LastStopped /\ hst[h] = "none" /\ adding = "none"
    /\ IF MutSignalBeforeAdd
         THEN Signal /\ adding' = h /\ UNCHANGED <<hst, wg>>               \* ... wg.Add(1) follows as a separate step
         ELSE Signal /\ hst' = [hst EXCEPT ![h] = "added"] /\ wg' = wg + 1 /\ UNCHANGED adding
    /\ UNCHANGED <<run, closed, byWatcher, userDone>>
AddHandlerFinish ==
    /\ adding # "none" /\ hst' = [hst EXCEPT ![adding] = "added"] /\ wg' = wg + 1 /\ adding' = "none"
    /\ UNCHANGED <<wpc, tok, run, closed, byWatcher, userDone>>
\* Run: hasNoHandlersYet is read, the watcher is spawned, the handlers present are started
RunStart ==
    /\ run = "idle" /\ adding = "none" /\ run' = "running"
    /\ wpc' = IF Added = {} THEN "toselect" ELSE "wait"
    /\ hst' = [h \in H |-> IF hst[h] = "added" THEN "started" ELSE hst[h]]
    /\ UNCHANGED <<wg, tok, closed, byWatcher, userDone, adding>>
RunHandlers ==
    /\ ~userDone /\ run = "running" /\ ~closed /\ \E h \in H : hst[h] = "added"
    /\ hst' = [h \in H |-> IF hst[h] = "added" THEN "started" ELSE hst[h]]
    /\ UNCHANGED <<wg, wpc, tok, run, closed, byWatcher, userDone, adding>>
Stop(h) ==
    /\ ~userDone /\ hst[h] = "started" /\ hst' = [hst EXCEPT ![h] = "stopped"] /\ wg' = wg - 1
    /\ UNCHANGED <<wpc, tok, run, closed, byWatcher, userDone, adding>>
UserClose ==
    /\ AllowUserClose /\ ~userDone /\ run = "running" /\ ~closed /\ adding = "none" /\ closed' = TRUE
    /\ hst' = [h \in H |-> IF hst[h] = "started" THEN "stopped" ELSE hst[h]]
    /\ wg' = wg - Cardinality({h \in H : hst[h] = "started"})
    /\ UNCHANGED <<wpc, tok, run, byWatcher, userDone, adding>>
UserDone == ~userDone /\ adding = "none" /\ (\A h \in H : hst[h] # "added") /\ userDone' = TRUE
            /\ UNCHANGED <<hst, wg, wpc, tok, run, closed, byWatcher, adding>>

\* ---- the watcher goroutine
WPark   == wpc = "toselect" /\ wpc' = "select" /\ UNCHANGED <<hst, wg, tok, run, closed, byWatcher, userDone, adding>>
WSignal == wpc = "select" /\ tok = 1 /\ tok' = 0 /\ wpc' = "wait" /\ UNCHANGED <<hst, wg, run, closed, byWatcher, userDone, adding>>
WClosed == wpc = "select" /\ closed /\ wpc' = "done" /\ UNCHANGED <<hst, wg, tok, run, closed, byWatcher, userDone, adding>>
WWait   == wpc = "wait" /\ wg = 0 /\ wpc' = "check" /\ UNCHANGED <<hst, wg, tok, run, closed, byWatcher, userDone, adding>>
WClose  == /\ wpc = "check" /\ wpc' = "done"
           /\ IF closed THEN UNCHANGED <<closed, byWatcher>> ELSE closed' = TRUE /\ byWatcher' = TRUE
           /\ UNCHANGED <<hst, wg, tok, run, userDone, adding>>
RunReturn == run = "running" /\ closed /\ run' = "returned" /\ UNCHANGED <<hst, wg, wpc, tok, closed, byWatcher, userDone, adding>>

Watcher == WPark \/ WSignal \/ WClosed \/ WWait \/ WClose
Next == (\E h \in H : AddHandler(h) \/ Stop(h)) \/ AddHandlerFinish \/ RunStart \/ RunHandlers \/ UserClose \/ UserDone
        \/ Watcher \/ RunReturn
Spec == Init /\ [][Next]_vars
FairSpec == Spec /\ WF_vars(Watcher) /\ WF_vars(RunReturn) /\ WF_vars(AddHandlerFinish)

-----------------------------------------------------------------------------
TypeOK == wg \in 0..Cardinality(H) /\ tok \in 0..1
\* the watcher closes the router only when it has had a handler and none is left
NoEarlyClose == byWatcher => (Added # {} /\ adding = "none" /\ \A h \in Added : hst[h] = "stopped")
\* C10: when the last handler has ended the router closes itself and Run returns
AllEnded == userDone /\ run # "idle" /\ Added # {} /\ \A h \in Added : hst[h] = "stopped"
SelfClose == AllEnded ~> (closed /\ run = "returned")
\* a router that never had a handler stays open
NeverEmptyClose == (Added = {} /\ adding = "none") => ~byWatcher

-----------------------------------------------------------------------------
\* Inductive invariant for the repaired design (checked with Apalache for every H within a universe of five names:
\* IndInit => IndInv in 0 steps, IndInv /\ Next => IndInv' in 1 step; see bin/apalache-watcher)
Active == {h \in H : hst[h] \in {"added", "started"}}
IndInv ==
    /\ hst \in [H -> {"none", "added", "started", "stopped"}]
    /\ wg \in 0..Cardinality(H) /\ tok \in 0..1
    /\ wpc \in {"off", "toselect", "select", "wait", "check", "done"}
    /\ run \in {"idle", "running", "returned"}
    /\ closed \in BOOLEAN /\ byWatcher \in BOOLEAN /\ userDone \in BOOLEAN
    /\ adding = "none"                                   \* (AddHandler is one step in the repaired design)
    /\ wg = Cardinality(Active)
    /\ (run = "idle") = (wpc = "off")
    /\ run = "idle" => ~closed
    /\ run = "returned" => closed
    /\ tok = 1 => Added # {}
    /\ wpc \in {"wait", "check"} => Added # {}
    /\ (wpc = "check" /\ ~closed) => wg = 0
    /\ byWatcher => (closed /\ wpc = "done" /\ wg = 0 /\ Added # {})
Safety == NoEarlyClose /\ NeverEmptyClose
IndInit == IndInv
ConstInit == /\ H \in SUBSET {"a", "b", "c", "d", "e"}
             /\ AllowUserClose \in BOOLEAN /\ LegacyUnbufferedSignal = FALSE /\ MutSignalBeforeAdd = FALSE
=============================================================================
