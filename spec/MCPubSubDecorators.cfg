SPECIFICATION MSpec
INVARIANTS OneCallPerBatch ExactlyOneStamp NothingWithoutDelay
CHECK_DEADLOCK FALSE
