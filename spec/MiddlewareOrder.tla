--------------------------- MODULE MiddlewareOrder ---------------------------
(* Registration of middlewares and decorators on a Router (property C09).

   regs is the router's registration list: router-level middlewares (scope
   "R") and handler-level ones (scope = handler name), in the order the API
   calls were made.  When a handler is started (Run / RunHandlers) it is wrapped
   with exactly the router-level middlewares plus its own, in registration
   order, the earliest outermost; its publisher and subscriber are wrapped with
   the decorators registered so far.  Registrations made after a handler was
   started do not affect it.

   nest[h]   : ids of the middlewares h runs, outermost first
   pchain[h] : publisher decorator ids in the order they act on an outgoing message
   schain[h] : subscriber decorator ids in the order they act on an incoming message *)
EXTENDS Naturals, Sequences, FiniteSets, TLC

CONSTANTS Handlers, MaxRegs, MaxDecs

VARIABLES regs, added, started, nest, pdecs, sdecs, pchain, schain
ovars == <<regs, added, started, nest, pdecs, sdecs, pchain, schain>>

Ids(seq) == [i \in 1..Len(seq) |-> seq[i].id]
ForHandler(h) == Ids(SelectSeq(regs, LAMBDA r : r.scope = "R" \/ r.scope = h))

OInit == /\ regs = << >> /\ added = {} /\ started = {}
         /\ nest = << >> /\ pdecs = << >> /\ sdecs = << >> /\ pchain = << >> /\ schain = << >>

Reg(id, scope) ==
    /\ scope = "R" \/ scope \in added          \* Handler.AddMiddleware needs the *Handler returned by AddHandler
    /\ regs' = Append(regs, [id |-> id, scope |-> scope])
    /\ UNCHANGED <<added, started, nest, pdecs, sdecs, pchain, schain>>

AddHandler(h) ==
    /\ h \notin added /\ added' = added \cup {h}
    /\ UNCHANGED <<regs, started, nest, pdecs, sdecs, pchain, schain>>

AddPDec(id) == pdecs' = Append(pdecs, id) /\ UNCHANGED <<regs, added, started, nest, sdecs, pchain, schain>>
AddSDec(id) == sdecs' = Append(sdecs, id) /\ UNCHANGED <<regs, added, started, nest, pdecs, pchain, schain>>

\* Run / RunHandlers: every added, not yet started handler is started
Start ==
    /\ added \ started # {}
    /\ LET new == added \ started IN
         /\ nest'   = [h \in new |-> ForHandler(h)] @@ nest
         /\ pchain' = [h \in new |-> pdecs] @@ pchain
         /\ schain' = [h \in new |-> sdecs] @@ schain
         /\ started' = added
    /\ UNCHANGED <<regs, added, pdecs, sdecs>>

ONext == \/ \E s \in {"R"} \cup Handlers : Len(regs) < MaxRegs /\ Reg(Len(regs) + 1, s)
         \/ \E h \in Handlers : AddHandler(h)
         \/ (Len(pdecs) < MaxDecs /\ AddPDec(Len(pdecs) + 1))
         \/ (Len(sdecs) < MaxDecs /\ AddSDec(Len(sdecs) + 1))
         \/ Start
OSpec == OInit /\ [][ONext]_ovars

-----------------------------------------------------------------------------
ScopeOf(id) == (CHOOSE r \in {regs[i] : i \in 1..Len(regs)} : r.id = id).scope
Increasing(seq) == \A i, j \in 1..Len(seq) : i < j => seq[i] < seq[j]
\* a handler never runs another handler's middleware
NoForeign == \A h \in started : \A i \in 1..Len(nest[h]) : ScopeOf(nest[h][i]) \in {"R", h}
\* registration order is nesting order
InOrder == \A h \in started : Increasing(nest[h])
\* nothing registered before the start is missing; once fixed, a chain never changes
FixedAtStart == [][\A h \in started : nest'[h] = nest[h] /\ pchain'[h] = pchain[h] /\ schain'[h] = schain[h]]_ovars
CompleteAtStart ==
    [][\A h \in started' \ started :
          /\ {nest'[h][i] : i \in 1..Len(nest'[h])} = {regs[i].id : i \in {j \in 1..Len(regs) : regs[j].scope \in {"R", h}}}
          /\ pchain'[h] = pdecs /\ schain'[h] = sdecs]_ovars
=============================================================================
