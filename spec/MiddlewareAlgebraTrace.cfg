SPECIFICATION TSpec
CONSTANTS LegacyTimeout = FALSE
CONSTRAINT HighWater
POSTCONDITION Accepted
CHECK_DEADLOCK FALSE
