SPECIFICATION Spec
CONSTANTS
  Msgs = {"m1","m2"}
  Closers = {c1, c2}
  AllowStop = FALSE
  Watcher = nowatcher
  AllowCtxCancel = FALSE
  AllowTimeout = FALSE
  LegacyConcurrentWaits = TRUE
  LegacyStartedFirst = FALSE
  LegacyHandleClose = FALSE
  LegacySecondCloseNil = FALSE
INVARIANTS Graceful ErrorOnlyOnTimeout NoPanic RunAfterClose SubClosedAtEnd DroppedNotHandled

CHECK_DEADLOCK FALSE
