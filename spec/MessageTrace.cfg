SPECIFICATION TSpec
CONSTANTS Callers = {}
CONSTRAINT HighWater
POSTCONDITION Accepted
INVARIANTS TypeOK ResultsAgree
CHECK_DEADLOCK FALSE
