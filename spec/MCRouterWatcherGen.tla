------------------------- MODULE MCRouterWatcherGen -------------------------
(* Generator: every word of USER actions that RouterWatcher admits (watcher-internal steps projected away) is
   printed once the user program is done; bin/gen-watcher-programs turns the words into lifecycle programs that
   the C10 driver executes against the real Router (the observations are validated by RouterLifecycleTrace).
   This is the specification -> implementation direction of the binding.                                       *)
EXTENDS RouterWatcher, Sequences, Json
VARIABLE word
gvars == <<vars, word>>
Step(a, w) == a /\ word' = Append(word, w)
GInit == Init /\ word = << >>
GNext == \/ \E h \in H : Step(AddHandler(h), "add:" \o h) \/ Step(Stop(h), "stop:" \o h)
         \/ Step(RunStart, "run") \/ Step(RunHandlers, "rh") \/ Step(UserClose, "close")
         \/ (UserDone /\ word' = word /\ PrintT("WORD " \o ToJson(word)))
         \/ ((AddHandlerFinish \/ Watcher \/ RunReturn) /\ UNCHANGED word)
GSpec == GInit /\ [][GNext]_gvars
=============================================================================
