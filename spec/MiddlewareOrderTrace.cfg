SPECIFICATION TSpec
CONSTANTS
  Handlers = {"A","B","C","D"}
  MaxRegs = 100
  MaxDecs = 100
CONSTRAINT HighWater
POSTCONDITION Accepted
INVARIANTS NoForeign InOrder
CHECK_DEADLOCK FALSE
