SPECIFICATION IFairSpec
CONSTANTS
  Callers = {"g1","g2","g3"}
  Prog <- ProgA
  ZeroValue = FALSE
  UseMutex = TRUE
  NackGuard = FALSE
INVARIANTS NoPanic NotBoth ChannelsMatchState
PROPERTIES RefinesAbs AllDone
CHECK_DEADLOCK FALSE
