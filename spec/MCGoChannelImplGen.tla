------------------------- MODULE MCGoChannelImplGen -------------------------
(* Generator (specification -> implementation) for the GoChannel: TLC's simulator samples behaviours of GoChannelImpl.tla in the
   fixed shape of the conformance scenario (publishers p1, p2 with m1, m2 on one topic, subscriptions s1, s2, cancels, one Close)
   and prints each as a SCHEDULE of the steps at which the harness acts:
        start:pub:<p>  start:sub:<s>  start:close     a call is started in a goroutine of its own
        rel:<goroutine>:<hook point>                  the goroutine standing on that hook point is released
        recv:<s>  ack:<s>  nack:<s>  cancel:<s>       the consumer of s receives / settles, the context of s is cancelled
   Goroutines are named as in GoChannelImplTrace.tla (pub:p1, subc:s2, tear:s1, send:m1/s2, closer); the hook sites are those of
   that module, so a goroutine moves between two releases exactly as far as the model lets it.  bin/gen-gochannel-schedules
   collects the schedules; the C04 / C05 / C07 / C11 drivers replay them against the real GoChannel with every hook point
   gated and the recorded internal traces are validated by GoChannelImplTrace.tla.                                       *)
EXTENDS GoChannelImplTrace
VARIABLES word, printed
gvars == <<tvars, word, printed>>
W(w) == word' = Append(word, w) /\ UNCHANGED <<printed, l>>
Q == UNCHANGED <<word, printed, l>>
Rarely == RandomElement(1..5) = 1 \/ Len(word) < 0            \* (mentions a variable: evaluated anew at every step)
VeryRarely == RandomElement(1..25) = 1 \/ Len(word) < 0      \* (cancels and the Close: late enough for messages to flow first)
Name(t) == IF t = Closer THEN "closer"
           ELSE IF t \in Senders THEN "send:" \o t[1] \o "/" \o t[2]
           ELSE t[1] \o ":" \o t[2]
Started(t) == pc[t] # (IF t[1] = "pub" THEN "P_check" ELSE "S_start")
Finished == /\ pc[Closer] = "done" /\ \A p \in Pubs : pc[Pub(p)] = "done"
            /\ \A s \in Subs : pc[SubC(s)] = "done" /\ pc[Tear(s)] \in {"off", "done"}
            /\ \A t \in AllThreads : site[t] = ""
GInit == TInit /\ word = << >> /\ printed = FALSE
GNext == \/ \E t \in PubThreads : SPub(t) /\ (IF pc[t] = "P_check" /\ t[1] = "pub" /\ PCheck(t) THEN W("start:" \o Name(t)) ELSE Q)
         \/ \E s \in Subs : SSub(s) /\ (IF pc[SubC(s)] = "S_start" THEN W("start:sub:" \o s) ELSE Q)
         \/ \E s \in Subs : STear(s) /\ Q
         \/ \E x \in Senders : SSend(x) /\ Q
         \/ SClose /\ (IF pc[Closer] = "X_start" THEN VeryRarely /\ W("start:close") ELSE Q)
         \/ \E t \in AllThreads : /\ site[t] # "" /\ site' = [site EXCEPT ![t] = ""]
                                  /\ UNCHANGED vars /\ W("rel:" \o Name(t) \o ":" \o site[t])
         \/ \E s \in Subs : \/ CRecv(s) /\ UNCHANGED site /\ W("recv:" \o s)
                            \/ CAck(s) /\ UNCHANGED site /\ W("ack:" \o s)
                            \/ CNack(s) /\ Rarely /\ UNCHANGED site /\ W("nack:" \o s)
                            \/ /\ s \in Cancels /\ ~cancelled[s] /\ pc[SubC(s)] # "S_start" /\ VeryRarely
                               /\ cancelled' = [cancelled EXCEPT ![s] = TRUE]
                               /\ UNCHANGED <<pc, pm, closev, lockv, reg, snap, sent, sstate, settle, out, outClosed, sClosing, sClosed, sendMu, got, persisted, logNil, nacksLeft, histv, site>>
                               /\ W("cancel:" \o s)
         \/ (~Finished /\ UNCHANGED gvars)
         \/ (Finished /\ ~printed /\ printed' = TRUE /\ PrintT("WORD " \o ToJson(word)) /\ UNCHANGED <<tvars, word>>)
GSpec == GInit /\ [][GNext]_gvars
=============================================================================
