---- MODULE MCDedup ----
EXTENDS Dedup
KeyOf4 == [c \in {"c1","c2","c3","c4"} |-> IF c \in {"c1","c2","c3"} THEN "k1" ELSE "k2"]
====
