------------------------- MODULE MCPubSubDecorators -------------------------
EXTENDS PubSubDecorators
Cfgs == [gen : {"ok", "fail", "none"}, allow : BOOLEAN, inner : {"accept", "error"}]
Srcs == {"meta", "metafor", "ctx", "none"}
Batches == UNION {[1..n -> Srcs] : n \in 1..3}
VARIABLES cfg, batch
v == <<cfg, batch>>
MInit == cfg \in Cfgs /\ batch \in Batches
MSpec == MInit /\ [][UNCHANGED v]_v
E == Expected(cfg, batch)
\* the batch is forwarded in one call or not at all
OneCallPerBatch == E.calls \in {0, 1} /\ (E.calls = 0 => E.err)
\* every forwarded message carries exactly one stamp chosen by precedence (or none, only if allowed)
ExactlyOneStamp == E.calls = 1 => \A i \in 1..Len(batch) :
                      /\ (batch[i] \in {"meta", "metafor"} => E.from[i] = "meta")
                      /\ (batch[i] = "ctx" => E.from[i] = "ctx")
                      /\ (batch[i] = "none" => E.from[i] \in {"gen", "nodelay"})
                      /\ (E.from[i] = "nodelay" => cfg.allow /\ cfg.gen = "none")
\* nothing is published when a delay is missing and not allowed
NothingWithoutDelay == (\E i \in 1..Len(batch) : batch[i] = "none" /\ cfg.gen # "ok" /\ ~(cfg.allow /\ cfg.gen = "none")) => E.calls = 0
=============================================================================
