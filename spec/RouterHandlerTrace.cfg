SPECIFICATION TSpec
CONSTANTS
  Msgs = {"m1","m2","m3"}
  MutAckBeforePublish = FALSE
  MutPublishOnError = FALSE
  MutNoNackOnPubErr = FALSE
CONSTRAINT HighWater
POSTCONDITION Accepted
INVARIANTS AtMostOnePublish NoPublishAfterError DoneMeansSettled
CHECK_DEADLOCK FALSE
