SPECIFICATION GSpec
CONSTANTS
  H = {"a","b"}
  AllowUserClose = TRUE
  LegacyUnbufferedSignal = FALSE
  MutSignalBeforeAdd = FALSE
INVARIANTS TypeOK NoEarlyClose
CHECK_DEADLOCK FALSE
