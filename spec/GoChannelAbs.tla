----------------------------- MODULE GoChannelAbs -----------------------------
(* Abstract specification of the in-process GoChannel Pub/Sub
   (pubsub/gochannel/pubsub.go) over API-observable events -- properties
   C04, C05, C07, C11.  It contains no implementation detail (no locks, no
   goroutines): every API call is split into start / linearization / end, the
   linearization points being silent steps, so that it can serve as the oracle
   for traces recorded from the real code (GoChannelTrace.tla) and as the
   abstraction the implementation-shaped model must respect (GoChannelImpl.tla).

   cfg      [persistent, blocking]                       fixed per behaviour
   closed   "open" | "closing" | "closed"                Close called / Close returned
   sub      s :> [topic, st, cancelled, chclosed, neverack]
              st: "pending" (Subscribe called, not registered yet) | "reg" | "failed"
   owed     s :> set of message ids the subscription still has to deliver and get Acked
   infl     s :> set of message ids delivered to s and not settled yet
   log      topic :> set of ids of successfully published messages (persistent mode)
   pub      p :> [m, topic, phase, sure, late, after]    pending Publish calls
              phase "started" | "lin";  late = the call started after Close had returned;
              sure = the subscriptions of the topic whose Subscribe call had returned
              before this Publish was called (they are certainly registered for it);
              after = the call standing for the previous message of the same multi-message
              Publish ("" = none): one Go call Publish(topic, m1, .., mn) is n abstract calls
              that start together and end together
   msgs     m :> [payload, meta]                         what was handed to Publish
   subcall  s :> [late]                                  pending Subscribe calls
   closers  set of pending Close calls                                              *)
EXTENDS Naturals, Sequences, FiniteSets, TLC

VARIABLES cfg, closed, sub, owed, infl, log, pub, msgs, subcall, closers
avars == <<cfg, closed, sub, owed, infl, log, pub, msgs, subcall, closers>>

Upd(f, k, v) == (k :> v) @@ f                       \* set / override f[k]
Drop(f, k) == [x \in DOMAIN f \ {k} |-> f[x]]
LogOf(t) == IF t \in DOMAIN log THEN log[t] ELSE {}
Dying(s) == sub[s].cancelled \/ closed # "open"     \* tear-down of s has been requested

AInit(c) ==
    /\ cfg = c /\ closed = "open"
    /\ sub = << >> /\ owed = << >> /\ infl = << >> /\ log = << >> /\ pub = << >> /\ msgs = << >>
    /\ subcall = << >> /\ closers = {}

\* ---- Publish ----
PublishStart(p, m, t, payload, meta, aft) ==
    /\ p \notin DOMAIN pub /\ m \notin DOMAIN msgs
    /\ pub' = Upd(pub, p, [m |-> m, topic |-> t, phase |-> "started", late |-> closed = "closed", after |-> aft,
                           sure |-> {s \in DOMAIN sub : sub[s].topic = t /\ sub[s].st # "failed" /\ s \notin DOMAIN subcall}])
    /\ msgs' = Upd(msgs, m, [payload |-> payload, meta |-> meta])
    /\ UNCHANGED <<cfg, closed, sub, owed, infl, log, subcall, closers>>

\* linearization: the message joins the topic log and is owed to exactly the
\* subscriptions registered on the topic at this instant
PublishLin(p) ==
    /\ p \in DOMAIN pub /\ pub[p].phase = "started" /\ ~pub[p].late
    /\ LET t == pub[p].topic  m == pub[p].m
           tg == {s \in DOMAIN sub : sub[s].st = "reg" /\ sub[s].topic = t /\ ~sub[s].chclosed}
       IN /\ pub' = [pub EXCEPT ![p].phase = "lin"]
          /\ owed' = [s \in DOMAIN owed |-> IF s \in tg THEN owed[s] \cup {m} ELSE owed[s]]
          /\ log' = IF cfg.persistent THEN Upd(log, t, LogOf(t) \cup {m}) ELSE log
    /\ UNCHANGED <<cfg, closed, sub, infl, msgs, subcall, closers>>

\* start and linearization in one step (used where the order of linearization points is immaterial)
PublishStartLin(p, m, t, payload, meta, aft) ==
    /\ p \notin DOMAIN pub /\ m \notin DOMAIN msgs /\ closed # "closed"
    /\ LET tg == {s \in DOMAIN sub : sub[s].st = "reg" /\ sub[s].topic = t /\ ~sub[s].chclosed} IN
         /\ pub' = Upd(pub, p, [m |-> m, topic |-> t, phase |-> "lin", late |-> FALSE, after |-> aft,
                                sure |-> {s \in DOMAIN sub : sub[s].topic = t /\ sub[s].st # "failed" /\ s \notin DOMAIN subcall}])
         /\ owed' = [s \in DOMAIN owed |-> IF s \in tg THEN owed[s] \cup {m} ELSE owed[s]]
         /\ log' = IF cfg.persistent THEN Upd(log, t, LogOf(t) \cup {m}) ELSE log
    /\ msgs' = Upd(msgs, m, [payload |-> payload, meta |-> meta])
    /\ UNCHANGED <<cfg, closed, sub, infl, subcall, closers>>

\* a blocking Publish returns only when every subscription that certainly existed when it
\* was called has Acked the message (or is being torn down)
Released(p) == \A s \in pub[p].sure : (sub[s].st = "reg" /\ pub[p].m \notin owed[s]) \/ Dying(s)
PublishEndOk(p) ==
    /\ p \in DOMAIN pub /\ pub[p].phase = "lin"
    /\ (cfg.blocking => Released(p)) = TRUE
    /\ pub' = Drop(pub, p)
    /\ UNCHANGED <<cfg, closed, sub, owed, infl, log, msgs, subcall, closers>>
\* an error is returned only by a call that saw the Pub/Sub closed, and then nothing was published
PublishEndErr(p) ==
    /\ p \in DOMAIN pub /\ closed # "open"
    /\ pub[p].phase = "started" \/ cfg.persistent      \* (persistent: linearized eagerly, every subscription is dying by now)
    /\ pub' = Drop(pub, p)
    /\ UNCHANGED <<cfg, closed, sub, owed, infl, log, msgs, subcall, closers>>

\* ---- Subscribe ----
SubscribeStart(s, t, neverack) ==
    /\ s \notin DOMAIN sub
    /\ sub' = Upd(sub, s, [topic |-> t, st |-> "pending", cancelled |-> FALSE, chclosed |-> FALSE, neverack |-> neverack])
    /\ owed' = Upd(owed, s, {}) /\ infl' = Upd(infl, s, {})
    /\ subcall' = Upd(subcall, s, [late |-> closed = "closed"])
    /\ UNCHANGED <<cfg, closed, log, pub, msgs, closers>>

\* registration: from now on every Publish on the topic is owed to s; in
\* persistent mode the whole topic log is owed as well -- each message once
SubscribeLin(s) ==
    /\ s \in DOMAIN sub /\ sub[s].st = "pending"
    /\ s \in DOMAIN subcall => ~subcall[s].late
    /\ sub' = [sub EXCEPT ![s].st = "reg"]
    /\ owed' = [owed EXCEPT ![s] = IF cfg.persistent THEN LogOf(sub[s].topic) ELSE {}]
    /\ UNCHANGED <<cfg, closed, infl, log, pub, msgs, subcall, closers>>

SubscribeStartLin(s, t, neverack) ==
    /\ s \notin DOMAIN sub /\ closed # "closed"
    /\ sub' = Upd(sub, s, [topic |-> t, st |-> "reg", cancelled |-> FALSE, chclosed |-> FALSE, neverack |-> neverack])
    /\ owed' = Upd(owed, s, IF cfg.persistent THEN LogOf(t) ELSE {}) /\ infl' = Upd(infl, s, {})
    /\ subcall' = Upd(subcall, s, [late |-> FALSE])
    /\ UNCHANGED <<cfg, closed, log, pub, msgs, closers>>

\* without persistence Subscribe returns only after the registration; with
\* persistence the replay goroutine may register after the call has returned
SubscribeEndOk(s) ==
    /\ s \in DOMAIN subcall /\ ~subcall[s].late
    /\ ~cfg.persistent => sub[s].st = "reg"
    /\ subcall' = Drop(subcall, s)
    /\ UNCHANGED <<cfg, closed, sub, owed, infl, log, pub, msgs, closers>>
SubscribeEndErr(s) ==
    /\ s \in DOMAIN subcall /\ closed # "open"
    /\ sub' = [sub EXCEPT ![s].st = "failed"]
    /\ subcall' = Drop(subcall, s)
    /\ UNCHANGED <<cfg, closed, owed, infl, log, pub, msgs, closers>>

\* ---- delivery ----
\* the messages of one blocking multi-message Publish are handed over one after the other: a message
\* becomes receivable (by anybody) only after its predecessor in the call was acked by everyone it waits for
BatchOrdered(m) == cfg.blocking =>
    \A p \in DOMAIN pub : (pub[p].m = m /\ pub[p].after \in DOMAIN pub) => (pub[pub[p].after].phase = "lin" /\ Released(pub[p].after))
\* s receives a copy of m.  While the subscription is alive at most one message
\* is unsettled; m is delivered again only after the previous delivery was Nacked.
Recv(s, m) ==
    /\ s \in DOMAIN sub /\ ~sub[s].chclosed
    /\ m \in owed[s] /\ m \notin infl[s]
    /\ BatchOrdered(m) = TRUE
    /\ ~Dying(s) => infl[s] = {}
    /\ infl' = [infl EXCEPT ![s] = @ \cup {m}]
    /\ UNCHANGED <<cfg, closed, sub, owed, log, pub, msgs, subcall, closers>>
Ack(s, m) ==
    /\ s \in DOMAIN sub /\ m \in infl[s]
    /\ infl' = [infl EXCEPT ![s] = @ \ {m}] /\ owed' = [owed EXCEPT ![s] = @ \ {m}]
    /\ UNCHANGED <<cfg, closed, sub, log, pub, msgs, subcall, closers>>
Nack(s, m) ==
    /\ s \in DOMAIN sub /\ m \in infl[s]
    /\ infl' = [infl EXCEPT ![s] = @ \ {m}]
    /\ UNCHANGED <<cfg, closed, sub, owed, log, pub, msgs, subcall, closers>>

\* ---- tear-down ----
Cancel(s) ==
    /\ s \in DOMAIN sub /\ sub' = [sub EXCEPT ![s].cancelled = TRUE]
    /\ UNCHANGED <<cfg, closed, owed, infl, log, pub, msgs, subcall, closers>>
\* an output channel is closed only because its context ended or the Pub/Sub is closing, and once
ChanClosed(s) ==
    /\ s \in DOMAIN sub /\ ~sub[s].chclosed /\ Dying(s)
    /\ sub' = [sub EXCEPT ![s].chclosed = TRUE]
    /\ UNCHANGED <<cfg, closed, owed, infl, log, pub, msgs, subcall, closers>>
CloseStart(c) ==
    /\ c \notin closers /\ closers' = closers \cup {c}
    /\ closed' = IF closed = "open" THEN "closing" ELSE closed
    /\ UNCHANGED <<cfg, sub, owed, infl, log, pub, msgs, subcall>>
CloseEnd(c) ==
    /\ c \in closers /\ closers' = closers \ {c}
    /\ closed' = "closed"
    /\ UNCHANGED <<cfg, sub, owed, infl, log, pub, msgs, subcall>>

\* ---- quiescence ----
\* evaluated when the environment has discharged all its obligations
Complete(s) == Dying(s) \/ sub[s].st # "reg" \/ owed[s] = {}
Quiescent ==
    /\ DOMAIN pub = {} /\ DOMAIN subcall = {} /\ closers = {}         \* every call returned
    /\ \A s \in DOMAIN sub :
         /\ (Dying(s) /\ sub[s].st \in {"reg", "pending"} /\ closed = "closed") => sub[s].chclosed
         /\ (sub[s].cancelled /\ sub[s].st = "reg") => sub[s].chclosed                \* cancel always completes
         /\ (~Dying(s) /\ sub[s].st = "pending") => FALSE                              \* a returned Subscribe is registered
         /\ sub[s].neverack \/ Complete(s)                                            \* nothing owed is lost
         /\ (~Dying(s) /\ ~sub[s].neverack) => infl[s] = {}

-----------------------------------------------------------------------------
\* invariants (C05): at most one unsettled message per live subscription
OneInflight == \A s \in DOMAIN sub : ~Dying(s) => Cardinality(infl[s]) <= 1
InflightOwed == \A s \in DOMAIN sub : infl[s] \subseteq owed[s]
=============================================================================
