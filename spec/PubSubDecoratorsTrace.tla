------------------------ MODULE PubSubDecoratorsTrace ------------------------
(* Trace validation for C20.  Events:
     delaypub  cfg batch err calls order from agree        one Publish through delay.Publisher: observed error, inner calls,
                                                           messages in order, where each stamp came from, for/until agree
     pubstack  depth n inner err calls order applied closes   a stack of transform / metrics publisher decorators
     substack  depth n received order applied settles closes  a stack of subscriber decorators around a scripted subscriber
     metrics   applied observed expected labels                   Prometheus counters vs. the harness' own event counts          *)
EXTENDS PubSubDecorators, TraceBase
tvars == <<l>>
TInit == LInit
TDelay == /\ Is("delaypub")
          /\ LET e == Expected(Ev.cfg, Ev.batch) IN
               /\ Ev.err = e.err /\ Ev.calls = e.calls
               /\ e.calls = 1 => (Ev.order /\ Ev.from = e.from /\ Ev.agree)
          /\ Adv
\* counted: what the Prometheus registry saw of this Publish call -- once when the stack holds a metrics decorator (however many), else not at all
TPubStack == Is("pubstack") /\ Ev.calls = 1 /\ Ev.order /\ Ev.applied /\ Ev.err = (Ev.inner = "error") /\ Ev.closes = 1
             /\ (Has("counted") => Ev.counted = (IF Ev.hasmetrics THEN 1 ELSE 0)) /\ Adv
\* every Close call on the stack reaches the inner subscriber once (wantcloses = number of Close calls made)
TSubStack == Is("substack") /\ Ev.received = Ev.n /\ Ev.order /\ Ev.applied /\ Ev.settles
             /\ Ev.closes = (IF Has("wantcloses") THEN Ev.wantcloses ELSE 1) /\ Adv
\* CountersEqualEvents: every publish call, settled received message and handler invocation is counted exactly once with the right label
\* ... and under the names of the handler (H), its publisher ("pub") and its subscriber ("sub") it happened in
TMetrics == /\ Is("metrics") /\ Ev.observed = Ev.expected
            /\ Ev.labels = (IF DOMAIN Ev.expected.publish # {} THEN <<"handler{H,,}", "publish{H,pub,}", "sub{H,,sub}">>
                                                               ELSE <<"handler{H,,}", "sub{H,,sub}">>)
            /\ Adv
TNext == (Is("reset") /\ Adv) \/ TDelay \/ TPubStack \/ TSubStack \/ TMetrics
TSpec == TInit /\ [][TNext]_tvars
=============================================================================
