SPECIFICATION Spec
CONSTANTS
  Msgs = {"m1","m2"}
  Closers = {c1, c2}
  AllowStop = TRUE
  Watcher = nowatcher
  AllowCtxCancel = FALSE
  AllowTimeout = TRUE
  LegacyConcurrentWaits = FALSE
  LegacyStartedFirst = FALSE
  LegacyHandleClose = FALSE
  MutUnregBeforeDone = FALSE
  MutIsClosedInRunHandlers = FALSE
  MutSkipStoppedWhenClosing = FALSE
  LegacySecondCloseNil = TRUE
INVARIANTS NoStuck Graceful ErrorOnlyOnTimeout NoPanic RunAfterClose SubClosedAtEnd DroppedNotHandled

CHECK_DEADLOCK FALSE
