------------------------ MODULE MiddlewareOrderTrace ------------------------
(* Trace validation for C09: registration programs executed on a real Router;
   recording middlewares / decorators log the order in which they act on one
   message per handler.

   Events: reset, reg(id, scope), addh(h), pdec(id), sdec(id), start,
           mw(h, enter, leave)   ids in the order the middlewares were entered / left
           pub(h, order)         ids in the order publisher decorators acted on the output
           sub(h, order)         ids in the order subscriber decorators acted on the input *)
EXTENDS MiddlewareOrder, TraceBase, SequencesExt

tvars == <<ovars, l>>
TInit == OInit /\ LInit

TReset == Is("reset") /\ regs' = << >> /\ added' = {} /\ started' = {} /\ nest' = << >>
          /\ pdecs' = << >> /\ sdecs' = << >> /\ pchain' = << >> /\ schain' = << >> /\ Adv
TReg   == Is("reg")  /\ Reg(Ev.id, Ev.scope) /\ Adv
TAddH  == Is("addh") /\ AddHandler(Ev.h) /\ Adv
TPDec  == Is("pdec") /\ AddPDec(Ev.id) /\ Adv
TSDec  == Is("sdec") /\ AddSDec(Ev.id) /\ Adv
TStart == Is("start") /\ Start /\ Adv
TMw    == /\ Is("mw") /\ Ev.h \in started
          /\ Ev.enter = nest[Ev.h] /\ Ev.leave = Reverse(nest[Ev.h])
          /\ UNCHANGED ovars /\ Adv
TPub   == Is("pub") /\ Ev.h \in started /\ Ev.order = pchain[Ev.h] /\ UNCHANGED ovars /\ Adv
TSub   == Is("sub") /\ Ev.h \in started /\ Ev.order = schain[Ev.h] /\ UNCHANGED ovars /\ Adv

TNext == TReset \/ TReg \/ TAddH \/ TPDec \/ TSDec \/ TStart \/ TMw \/ TPub \/ TSub
TSpec == TInit /\ [][TNext]_tvars
=============================================================================
