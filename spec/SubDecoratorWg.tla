--------------------------- MODULE SubDecoratorWg ---------------------------
(* The WaitGroup protocol of the message-transform subscriber decorator (message/decorator.go), cut out of
   SubDecorator.tla and typed for Apalache: Subscribe adds to subscribeWg under subscribeWgLock, every forwarding
   goroutine closes its output channel and then reports Done, every Close call takes the lock, waits for the
   counter to reach zero and releases the lock.  Messages, contexts and the closing signal are abstracted away:
   a forwarding goroutine may finish at any time.

   What SubDecorator.tla checks exhaustively for two subscriptions and two Close calls is shown here BY INDUCTION
   for every set of subscriptions within a universe of five names and every set of overlapping Close calls within
   a universe of three:  Init => IndInv,  IndInv /\ Next => IndInv',  IndInv => NoAddDuringWait /\ CloseComplete
   (three Apalache runs of length 0 / 1 / 0; bin/check C20 runs them, see `apalache` in bin/registry.py).
   TLC checks the same module for small constants (MCSubDecoratorWg.cfg) so that the two tools agree on it.   *)
EXTENDS Integers, FiniteSets

CONSTANTS
    \* @type: Set(Str);
    S,
    \* @type: Set(Str);
    C

VARIABLES
    \* @type: Str -> Str;
    sub,        \* Subscribe call of s: none, add (holds the lock), unlock (Add done, holds the lock), go, returned
    \* @type: Str -> Str;
    pump,       \* forwarding goroutine of s: off, run, wgdone (output channel closed), done (Done reported)
    \* @type: Set(Str);
    outClosed,
    \* @type: Int;
    wg,
    \* @type: Str;
    wgLock,     \* "" or the holder of subscribeWgLock
    \* @type: Str -> Str;
    cl,         \* Close call c: idle, lock, wait (holds the lock), unlock (Wait returned, holds the lock), done
    \* @type: Str -> Set(Str);
    counted     \* subscriptions whose Add preceded the Wait of c

vars == <<sub, pump, outClosed, wg, wgLock, cl, counted>>

Added == {s \in S : sub[s] \in {"unlock", "go", "returned"}}

Init == /\ sub = [s \in S |-> "none"] /\ pump = [s \in S |-> "off"] /\ outClosed = {} /\ wg = 0 /\ wgLock = ""
        /\ cl = [c \in C |-> "idle"] /\ counted = [c \in C |-> {}]

SubLock(s) == /\ sub[s] = "none" /\ wgLock = "" /\ wgLock' = s /\ sub' = [sub EXCEPT ![s] = "add"]
              /\ UNCHANGED <<pump, outClosed, wg, cl, counted>>
SubAdd(s) == /\ sub[s] = "add" /\ wg' = wg + 1 /\ sub' = [sub EXCEPT ![s] = "unlock"]
             /\ UNCHANGED <<pump, outClosed, wgLock, cl, counted>>
SubUnlock(s) == /\ sub[s] = "unlock" /\ wgLock' = "" /\ sub' = [sub EXCEPT ![s] = "go"]
                /\ UNCHANGED <<pump, outClosed, wg, cl, counted>>
SubGo(s) == /\ sub[s] = "go" /\ sub' = [sub EXCEPT ![s] = "returned"] /\ pump' = [pump EXCEPT ![s] = "run"]
            /\ UNCHANGED <<outClosed, wg, wgLock, cl, counted>>
PumpCloseOut(s) == /\ pump[s] = "run" /\ outClosed' = outClosed \union {s} /\ pump' = [pump EXCEPT ![s] = "wgdone"]
                   /\ UNCHANGED <<sub, wg, wgLock, cl, counted>>
PumpDone(s) == /\ pump[s] = "wgdone" /\ wg' = wg - 1 /\ pump' = [pump EXCEPT ![s] = "done"]
               /\ UNCHANGED <<sub, outClosed, wgLock, cl, counted>>
ClStart(c) == /\ cl[c] = "idle" /\ cl' = [cl EXCEPT ![c] = "lock"]
              /\ UNCHANGED <<sub, pump, outClosed, wg, wgLock, counted>>
ClLock(c) == /\ cl[c] = "lock" /\ wgLock = "" /\ wgLock' = c /\ cl' = [cl EXCEPT ![c] = "wait"]
             /\ counted' = [counted EXCEPT ![c] = Added]
             /\ UNCHANGED <<sub, pump, outClosed, wg>>
ClWait(c) == /\ cl[c] = "wait" /\ wg = 0 /\ cl' = [cl EXCEPT ![c] = "unlock"]
             /\ UNCHANGED <<sub, pump, outClosed, wg, wgLock, counted>>
ClUnlock(c) == /\ cl[c] = "unlock" /\ wgLock' = "" /\ cl' = [cl EXCEPT ![c] = "done"]
               /\ UNCHANGED <<sub, pump, outClosed, wg, counted>>

Next == \/ \E s \in S : SubLock(s) \/ SubAdd(s) \/ SubUnlock(s) \/ SubGo(s) \/ PumpCloseOut(s) \/ PumpDone(s)
        \/ \E c \in C : ClStart(c) \/ ClLock(c) \/ ClWait(c) \/ ClUnlock(c)
Spec == Init /\ [][Next]_vars

\* Add never runs while a Wait is in progress (Go: "WaitGroup misuse: Add called concurrently with Wait")
NoAddDuringWait == ~((\E c \in C : cl[c] = "wait") /\ (\E s \in S : sub[s] = "add"))
\* when a Close call has returned, every forwarding goroutine whose Add preceded its Wait is gone and its output channel closed
CloseComplete == \A c \in C : cl[c] = "done" => \A s \in counted[c] : pump[s] = "done" /\ s \in outClosed
Safety == NoAddDuringWait /\ CloseComplete

TypeOK == /\ sub \in [S -> {"none", "add", "unlock", "go", "returned"}]
          /\ pump \in [S -> {"off", "run", "wgdone", "done"}]
          /\ outClosed \in SUBSET S
          /\ wg \in 0..5
          /\ wgLock \in S \union C \union {""}
          /\ cl \in [C -> {"idle", "lock", "wait", "unlock", "done"}]
          /\ counted \in [C -> SUBSET S]

IndInv ==
    /\ TypeOK
    /\ S \intersect C = {} /\ "" \notin S /\ "" \notin C
    \* the counter is the number of subscriptions whose Add was made and whose Done was not
    /\ wg = Cardinality({s \in S : sub[s] \in {"unlock", "go", "returned"} /\ pump[s] # "done"})
    \* the lock is held exactly by the one who stands inside its critical section
    /\ \A s \in S : (sub[s] \in {"add", "unlock"}) <=> wgLock = s
    /\ \A c \in C : (cl[c] \in {"wait", "unlock"}) <=> wgLock = c
    \* a forwarding goroutine exists only after its Subscribe returned; it reports Done only after closing its channel
    /\ \A s \in S : pump[s] # "off" <=> sub[s] = "returned"
    /\ \A s \in S : pump[s] \in {"wgdone", "done"} => s \in outClosed
    \* what a Close call counted had its Add made
    /\ \A c \in C : cl[c] \in {"wait", "unlock", "done"} => counted[c] \subseteq Added
    \* ... and once its Wait has returned, all of that is gone
    /\ \A c \in C : cl[c] \in {"unlock", "done"} => \A s \in counted[c] : pump[s] = "done"
IndInit == IndInv
ConstInit == /\ S \in SUBSET {"a", "b", "c", "d", "e"}
             /\ C \in SUBSET {"x", "y", "z"}
=============================================================================
