---------------------------- MODULE PipelineTrace ----------------------------
(* Trace validation for C01: real Routers chained by real GoChannel topics, with
   scripted fault injection in handlers and publishers.

   acc[t]    lineages that topic t has accepted (a successful Publish reached it)
   published source lineages whose Publish succeeded;  exp: lineages that must reach the sink
   Events
     reset
     srcpub x ok topic expect          the source published lineage x
     hcall  stage n x tin fault clean  handler of `stage` invoked (its n-th call) with lineage x from topic tin
     pcall  stage n x outs tout fault sample
                                       the stage's publisher is called with output lineages outs for topic tout;
                                       fault: none | before | after | panic ; sample: settlement of the consumed message
     sink x tin                        the sink received lineage x from the last topic
     quiesce                           faults are exhausted and the system is idle
   A stage may only handle what its topic accepted, only what was accepted can reach
   the sink (soundness), the consumed message is unsettled while its output is being
   published, and at quiescence every expected lineage is at the sink (nothing lost). *)
EXTENDS Naturals, Sequences, FiniteSets, TraceBase
VARIABLES acc, exp, sinkset
tvars == <<acc, exp, sinkset, l>>
In(t) == IF t \in DOMAIN acc THEN acc[t] ELSE {}
Add(t, xs) == (t :> (In(t) \cup xs)) @@ acc
SeqSet(s) == {s[i] : i \in 1..Len(s)}
TInit == acc = << >> /\ exp = {} /\ sinkset = {} /\ LInit
TReset == Is("reset") /\ acc' = << >> /\ exp' = {} /\ sinkset' = {} /\ Adv
TSrc == /\ Is("srcpub")
        /\ IF Ev.ok THEN acc' = Add(Ev.topic, {Ev.x}) /\ exp' = exp \cup SeqSet(Ev.expect)
                    ELSE UNCHANGED <<acc, exp>>
        /\ UNCHANGED sinkset /\ Adv
\* clean: the delivery is a copy of what the topic accepted -- it carries no trace of an earlier, failed attempt to handle it
THCall == Is("hcall") /\ Ev.x \in In(Ev.tin) /\ (Has("clean") => Ev.clean) /\ UNCHANGED <<acc, exp, sinkset>> /\ Adv
TPCall == /\ Is("pcall") /\ Ev.x \in In(Ev.tin)
          /\ Ev.sample = "none"                                       \* not given up before the output is accepted
          /\ acc' = IF Ev.fault \in {"none", "after"} THEN Add(Ev.tout, SeqSet(Ev.outs)) ELSE acc
          /\ UNCHANGED <<exp, sinkset>> /\ Adv
TSink == Is("sink") /\ Ev.x \in In(Ev.tin) /\ sinkset' = sinkset \cup {Ev.x} /\ UNCHANGED <<acc, exp>> /\ Adv
TQuiesce == Is("quiesce") /\ exp \subseteq sinkset /\ UNCHANGED <<acc, exp, sinkset>> /\ Adv
TNext == TReset \/ TSrc \/ THCall \/ TPCall \/ TSink \/ TQuiesce
TSpec == TInit /\ [][TNext]_tvars
=============================================================================
