------------------------------ MODULE TraceBase ------------------------------
(* Shared plumbing of all trace specifications.

   trace.ndjson (in TLC's working directory) holds many runs back to back; each
   run starts with a {"e":"reset",...} record.  `l` is the index of the next
   line to consume.  Because linearization points and other internal steps are
   not logged, trace specs take silent steps that leave `l` unchanged; a trace
   is accepted iff SOME behaviour consumes every line, which is measured with a
   high-water mark kept in TLC register 1 (updated from a CONSTRAINT, requires
   -workers 1) and tested in a POSTCONDITION.  On rejection the first line that
   no behaviour could consume is printed as <<"REJECTED_AT", line>>.          *)
EXTENDS Naturals, Sequences, TLC, Json

VARIABLE l

Trace == ndJsonDeserialize("trace.ndjson")
Ev    == Trace[l]
More  == l <= Len(Trace)
Adv   == l' = l + 1
Is(e) == More /\ Ev.e = e
Has(f) == f \in DOMAIN Ev

LInit == l = 1 /\ TLCSet(1, 1)

HighWater == TLCSet(1, IF TLCGet(1) < l THEN l ELSE TLCGet(1))
Accepted  == IF TLCGet(1) = Len(Trace) + 1 THEN TRUE
             ELSE /\ PrintT(<<"REJECTED_AT", TLCGet(1)>>)
                  /\ FALSE
=============================================================================
