---------------------------- MODULE GoChannelTrace ----------------------------
(* Trace validation for C04 / C05 / C07 / C11: observable histories of the real
   GoChannel are checked against GoChannelAbs.tla.

   Events (p, s, c are harness-chosen names of calls / subscriptions / closers):
     reset      persistent blocking
     pubstart   p m topic payload meta after  pubend   p ok orig     (after: previous message's call in a multi-message Publish)
     substart   s topic neverack              subend   s ok chclosed
     recv       s m payload meta fresh ctxlive derived
     ack s m | nack s m                       (logged before the consumer settles)
     cancel s                                 (logged before the context is cancelled)
     chanclosed s                             (the consumer saw the output channel closed)
     closestart c | closeend c
     quiesce    origintact                    all obligations of the environment discharged
   Unlogged: the linearization points PublishLin / SubscribeLin (silent steps).
   Anything else (panic, hung, ctxleak, recv-after-close, ...) matches no action.   *)
EXTENDS GoChannelAbs, TraceBase

tvars == <<avars, l>>
TInit == AInit([persistent |-> FALSE, blocking |-> FALSE]) /\ LInit

TReset == /\ Is("reset")
          /\ cfg' = [persistent |-> Ev.persistent, blocking |-> Ev.blocking] /\ closed' = "open"
          /\ sub' = << >> /\ owed' = << >> /\ infl' = << >> /\ log' = << >> /\ pub' = << >> /\ msgs' = << >>
          /\ subcall' = << >> /\ closers' = {} /\ Adv
\* In persistent mode the order of the linearization points does not influence what is owed
\* (a subscription is owed the whole log, a publish is owed to every subscription), so they are
\* taken eagerly together with the start events and the search stays deterministic.
TPubStart == /\ Is("pubstart")
             /\ IF cfg.persistent /\ closed # "closed"
                  THEN PublishStartLin(Ev.p, Ev.m, Ev.topic, Ev.payload, Ev.meta, Ev.after) /\ Adv
                  ELSE PublishStart(Ev.p, Ev.m, Ev.topic, Ev.payload, Ev.meta, Ev.after) /\ Adv
\* orig: the publisher's own message object is none of the Pub/Sub's business: it is as unsettled after Publish as before
TPubEnd   == Is("pubend") /\ Ev.orig = "none" /\ (IF Ev.ok THEN PublishEndOk(Ev.p) ELSE PublishEndErr(Ev.p)) /\ Adv
TSubStart == /\ Is("substart")
             /\ IF cfg.persistent /\ closed # "closed"
                  THEN SubscribeStartLin(Ev.s, Ev.topic, Ev.neverack) /\ Adv
                  ELSE SubscribeStart(Ev.s, Ev.topic, Ev.neverack) /\ Adv
\* chclosed: a Subscribe call that returns a channel once Close has returned (Close waited for it) returns a closed one
TSubEnd   == Is("subend") /\ (IF Ev.ok THEN SubscribeEndOk(Ev.s) /\ Ev.chclosed # "no" ELSE SubscribeEndErr(Ev.s)) /\ Adv
TRecv     == /\ Is("recv") /\ Recv(Ev.s, Ev.m)
             /\ Ev.payload = msgs[Ev.m].payload /\ Ev.meta = msgs[Ev.m].meta     \* identical content
             /\ Ev.fresh /\ Ev.derived /\ (Ev.ctxlive \/ Dying(Ev.s))                  \* separate copy; context derived from Subscribe's, live unless the subscription is being torn down
             /\ Adv
TAck      == Is("ack")  /\ Ack(Ev.s, Ev.m)  /\ Adv
TNack     == Is("nack") /\ Nack(Ev.s, Ev.m) /\ Adv
TCancel   == Is("cancel") /\ Cancel(Ev.s) /\ Adv
TChClosed == Is("chanclosed") /\ ChanClosed(Ev.s) /\ Adv
TCloseS   == Is("closestart") /\ CloseStart(Ev.c) /\ Adv
TCloseE   == Is("closeend") /\ CloseEnd(Ev.c) /\ Ev.open = << >> /\ Adv     \* every output channel is closed when Close returns
\* (compared with TRUE so that TLC evaluates the predicate instead of enumerating the disjunctions under its \A as branches: 2^subscriptions)
TQuiesce  == Is("quiesce") /\ Ev.origintact /\ (Quiescent = TRUE) /\ UNCHANGED avars /\ Adv
TSilent   == /\ ~cfg.persistent
             /\ \/ \E p \in DOMAIN pub : PublishLin(p)
                \/ \E s \in DOMAIN sub : SubscribeLin(s)
             /\ UNCHANGED l

TNext == TReset \/ TPubStart \/ TPubEnd \/ TSubStart \/ TSubEnd \/ TRecv \/ TAck \/ TNack \/ TCancel
         \/ TChClosed \/ TCloseS \/ TCloseE \/ TQuiesce \/ TSilent
TSpec == TInit /\ [][TNext]_tvars
=============================================================================
