-------------------------- MODULE RouterHandlerTrace --------------------------
(* Trace validation for C02: observable events of a real Router handling
   messages from a scripted subscriber, with scripted handler chain and
   publisher, are checked against RouterHandler.tla.

   Events
     reset    haspub                      new run: fresh router, one handler
     emit     m                           the subscriber hands message m to the router
     hstart   m                           the handler chain is entered
     hself    m kind                      the handler settles m itself (logged before it does)
     hlate    m kind res                  a goroutine of the handler settled m while the router's own settlement was in
                                          progress; res = what Ack()/Nack() returned (the settlement made first stays)
     hend     m end outs                  the chain returns / panics
     pcall    m outs sample intact        Publish entered; sample = settlement of m seen inside
     pret     m outcome sample            Publish about to return / panic
     settled  m kind                      the subscriber saw Acked()/Nacked() of m close
     untaken  m                           the handler had been stopped before m was handed over, the router is closed
                                          now and the chain was never invoked for m: it must be unsettled
     quiesce  final                       all emitted messages settled; final = <<[m, kind], ...>>
   The router's own settlement is not logged: Settle(m) is a silent step.       *)
EXTENDS RouterHandler, TraceBase

tvars == <<rvars, l>>

TInit == /\ hp = [m \in Msgs |-> FALSE]
         /\ ph = [m \in Msgs |-> "idle"]
         /\ settle = [m \in Msgs |-> "none"]
         /\ res = [m \in Msgs |-> NoRes]
         /\ pubres = [m \in Msgs |-> "none"]
         /\ calls = [m \in Msgs |-> 0]
         /\ LInit

TReset == /\ Is("reset")
          /\ hp' = [m \in Msgs |-> Ev.haspub]
          /\ ph' = [m \in Msgs |-> "idle"]
          /\ settle' = [m \in Msgs |-> "none"]
          /\ res' = [m \in Msgs |-> NoRes]
          /\ pubres' = [m \in Msgs |-> "none"]
          /\ calls' = [m \in Msgs |-> 0]
          /\ Adv
Keep == UNCHANGED hp

TEmit   == Is("emit")   /\ Emit(Ev.m)   /\ Keep /\ Adv
TUntaken == Is("untaken") /\ Untaken(Ev.m) /\ Keep /\ Adv
THStart == Is("hstart") /\ HStart(Ev.m) /\ Keep /\ Adv
THSelf  == Is("hself")  /\ HSelf(Ev.m, Ev.kind) /\ Keep /\ Adv
TPreset == Is("preset") /\ PreSettle(Ev.m, Ev.kind) /\ Keep /\ Adv
THEnd   == Is("hend")   /\ HEnd(Ev.m, [end |-> Ev.end, outs |-> Ev.outs]) /\ Keep /\ Adv
THLate  == /\ Is("hlate") /\ settle[Ev.m] # "none" /\ Ev.res = (settle[Ev.m] = Ev.kind)
           /\ UNCHANGED rvars /\ Adv
TPCall  == Is("pcall")  /\ Ev.intact /\ PCall(Ev.m, Ev.outs, Ev.sample) /\ Keep /\ Adv
TPRet   == Is("pret")   /\ PRet(Ev.m, Ev.outcome, Ev.sample) /\ Keep /\ Adv
TSettled == /\ Is("settled") /\ settle[Ev.m] = Ev.kind
            /\ UNCHANGED rvars /\ Adv
TQuiesce == /\ Is("quiesce")
            /\ \A m \in Msgs : ph[m] \in {"idle", "done"}
            /\ \A i \in 1..Len(Ev.final) : settle[Ev.final[i][1]] = Ev.final[i][2]
            /\ UNCHANGED rvars /\ Adv
TSilent == (\E m \in Msgs : Settle(m)) /\ Keep /\ UNCHANGED l

TNext == TReset \/ TEmit \/ TUntaken \/ THStart \/ THSelf \/ TPreset \/ THLate \/ THEnd \/ TPCall \/ TPRet \/ TSettled \/ TQuiesce \/ TSilent
TSpec == TInit /\ [][TNext]_tvars
=============================================================================
