--------------------------- MODULE RouterCloseTrace ---------------------------
(* Trace validation for C06.  Events:
     reset nh expectsubclose timeout | emit m | hstart m | hend m
     closecall i t | closeret i ok t states | runret states | runfail (Run returned an error from its start-up)
     subclose | pubclose (the publisher's Close has RETURNED) | quiesce states
   `states` maps every emitted message to its settlement sampled at that instant;
   times are microseconds.                                                        *)
EXTENDS RouterCloseAbs, TraceBase
\* np: handlers that have a publisher to close (a handler may be added with a nil Publisher)
VARIABLES nh, np, expectSub, timeout
tvars == <<cvars, nh, np, expectSub, timeout, l>>
TInit == CInit /\ nh = 0 /\ np = 0 /\ expectSub = FALSE /\ timeout = 0 /\ LInit
K == UNCHANGED <<nh, np, expectSub, timeout>>
TReset == /\ Is("reset") /\ nh' = Ev.nh /\ np' = (IF Has("np") THEN Ev.np ELSE Ev.nh) /\ expectSub' = Ev.expectsubclose /\ timeout' = Ev.timeout
          /\ msg' = << >> /\ st' = << >> /\ closing' = FALSE /\ okClosed' = FALSE /\ timedOut' = FALSE
          /\ pend' = {} /\ subClosed' = 0 /\ pubClosed' = 0 /\ runRet' = FALSE /\ tcall' = << >> /\ lastRet' = 0 /\ Adv
TEmit   == Is("emit") /\ Emit(Ev.m) /\ K /\ Adv
THStart == Is("hstart") /\ HStart(Ev.m) /\ K /\ Adv
THEnd   == Is("hend") /\ HEnd(Ev.m) /\ K /\ Adv
TCloseC == Is("closecall") /\ CloseCall(Ev.i, Ev.t) /\ K /\ Adv
TCloseR == /\ Is("closeret")
           /\ IF Ev.ok THEN CloseRetNil(Ev.i, Ev.states, Ev.t, timeout, np) ELSE CloseRetErr(Ev.i, Ev.t, timeout)
           /\ K /\ Adv
TRunRet == Is("runret") /\ RunRet(Ev.states, Ev.t, timeout) /\ K /\ Adv
TRunFail == Is("runfail") /\ RunFail /\ K /\ Adv
TSubCl  == Is("subclose") /\ SubClose /\ K /\ Adv
TPubCl  == Is("pubclose") /\ PubClose /\ K /\ Adv
TQuiesce == Is("quiesce") /\ Quiescent(Ev.states, nh, np, expectSub) /\ UNCHANGED cvars /\ K /\ Adv
TNext == TReset \/ TEmit \/ THStart \/ THEnd \/ TCloseC \/ TCloseR \/ TRunRet \/ TRunFail \/ TSubCl \/ TPubCl \/ TQuiesce
TSpec == TInit /\ [][TNext]_tvars
=============================================================================
