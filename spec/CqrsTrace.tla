------------------------------ MODULE CqrsTrace ------------------------------
(* Trace validation for C15.
     reset   kind flags registry
     msg     m name wellformed on          a message is fed to the processor (on: handler index of the subscription)
     invoke  m h valueok orig              handler h invoked: value equals the one sent, context exposes the original message
     settled m kind
     bus     calls topic name exptopic expname roundtrip hook marked ctxok err     one Send/Publish through a bus, seen by the capturing publisher  *)
EXTENDS Cqrs, TraceBase
VARIABLES cfg, cur, calls
tvars == <<cfg, cur, calls, l>>
NoCfg == [kind |-> "command", flags |-> [ackUnknown |-> FALSE, ackErrors |-> FALSE], registry |-> << >>]
NoMsg == [m |-> "", name |-> "", wellformed |-> TRUE, on |-> 1]
TInit == cfg = NoCfg /\ cur = NoMsg /\ calls = << >> /\ LInit
TReset == Is("reset") /\ cfg' = [kind |-> Ev.kind, flags |-> Ev.flags, registry |-> Ev.registry] /\ cur' = NoMsg /\ calls' = << >> /\ Adv
TMsg == Is("msg") /\ cur.m = "" /\ cur' = [m |-> Ev.m, name |-> Ev.name, wellformed |-> Ev.wellformed, on |-> Ev.on] /\ calls' = << >>
        /\ UNCHANGED cfg /\ Adv
TInvoke == Is("invoke") /\ Ev.m = cur.m /\ Ev.valueok /\ Ev.orig /\ calls' = Append(calls, Ev.h) /\ UNCHANGED <<cfg, cur>> /\ Adv
TSettled == /\ Is("settled") /\ Ev.m = cur.m
            /\ LET d == Dispatch(cfg.kind, cfg.registry, cfg.flags, [name |-> cur.name, wellformed |-> cur.wellformed], cur.on) IN
                 calls = d.calls /\ Ev.kind = d.settle
            /\ cur' = NoMsg /\ calls' = << >> /\ UNCHANGED cfg /\ Adv
\* hook = what the bus' OnSend / OnPublish hook does: nothing, edit the message (the edit is published), fail (nothing is published)
\* pubfail: the publisher refuses the message: it was offered once, and the caller gets the error
TBus == Is("bus") /\ (IF Ev.hook = "fail" THEN Ev.calls = 0 /\ Ev.err
                      ELSE /\ Ev.calls = 1 /\ Ev.err = (Has("pubfail") /\ Ev.pubfail) /\ Ev.topic = Ev.exptopic /\ Ev.name = Ev.expname /\ Ev.roundtrip
                           /\ Ev.marked = (Ev.hook = "mark") /\ Ev.ctxok)
        /\ UNCHANGED <<cfg, cur, calls>> /\ Adv
TNext == TReset \/ TMsg \/ TInvoke \/ TSettled \/ TBus
TSpec == TInit /\ [][TNext]_tvars
=============================================================================
