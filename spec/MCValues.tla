------------------------------ MODULE MCValues ------------------------------
(* All operation sequences up to MaxOps over 2-3 cells and a small atom alphabet; the laws of
   C16 as invariants / action properties of the heap model.                                   *)
EXTENDS Values
CONSTANTS MaxOps
VARIABLES n, lastCopy
mv == <<heap, n, lastCopy>>
Str == {"", "a"}
Keys == {"k1", "k2"}
Metas == {<< >>, [k1 |-> ""], [k2 |-> ""], [k1 |-> "a"], [k1 |-> "", k2 |-> "a"]}
Vals == [uuid : Str, payload : {"", "p"}, meta : Metas]
Cells == {1, 2, 3}
MInit == HInit /\ n = 0 /\ lastCopy = <<0, 0>>
Step(A) == n < MaxOps /\ A /\ n' = n + 1
MNext == \/ \E i \in Cells, v \in Vals : Step(New(i, v)) /\ lastCopy' = <<0, 0>>
         \/ \E i, j \in Cells : i # j /\ Step(Copy(i, j)) /\ lastCopy' = <<i, j>>
         \/ \E i \in Cells, k \in Keys, x \in Str : Step(SetMeta(i, k, x)) /\ UNCHANGED lastCopy
         \/ \E i \in Cells, p \in {"", "p"} : Step(SetPayload(i, p)) /\ UNCHANGED lastCopy
MSpec == MInit /\ [][MNext]_mv
\* Copy yields a message that Equals the original
CopyEquals == [][\A i, j \in Cells : (lastCopy' = <<i, j>> /\ lastCopy # lastCopy') => EqualsResult(i, j)']_mv
\* a write to one cell changes no other cell (the copy owns its metadata)
Isolation == [][\A i \in DOMAIN heap : \A j \in DOMAIN heap : (i # j /\ heap'[i] # heap[i] /\ j \in DOMAIN heap' /\ lastCopy' = lastCopy) => heap'[j] = heap[j]]_mv
\* Equals distinguishes {k1 |-> ""} from {k2 |-> ""} and from the empty metadata
EmptyValueMatters == \A i, j \in DOMAIN heap : EqualsResult(i, j) => DOMAIN heap[i].meta = DOMAIN heap[j].meta
=============================================================================
