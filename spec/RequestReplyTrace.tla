-------------------------- MODULE RequestReplyTrace --------------------------
(* Trace validation for C18: real PubSubBackend + CommandBus + CommandProcessor on
   a GoChannel with one reply topic shared by all concurrent requests.
     reset    ackerrors swallow                       AckCommandErrors setting; a ReplyPublishErrorHandler that returns nil is configured
     sent     c                                       caller c sent its command (SendWithReplies returned)
     handled  c n ok                                  the command handler processed c's command (n-th delivery), ok = no error
     replypub c n cmdstate                            the reply for that delivery was published; cmdstate = settlement of the command when Publish was entered
     cmdret   c n ok                                  what the processor returned to the router for that delivery
                                                      (ok => the command gets Acked, else Nacked)
     reply    c from n ok errtext                     caller c received a handler reply produced for caller `from`
     timeoutreply c                                   caller c received the final ReplyTimeoutError
     ended    c                                       caller c cancelled / its context or time-out ended (logged before)
     chanclosed c | finished c                        reply channel seen closed | OnListenForReplyFinished ran
     quiesce                                                                                               *)
EXTENDS Naturals, Sequences, FiniteSets, TraceBase
\* returned: deliveries for which the processor has given its verdict (cmdret): the reply cannot come out after that
VARIABLES ackErrors, swallow, handled, published, fin, closed, endedSet, sent, nochan, returned
tvars == <<ackErrors, swallow, handled, published, fin, closed, endedSet, sent, nochan, returned, l>>
TInit == ackErrors = FALSE /\ swallow = FALSE /\ handled = << >> /\ published = {} /\ fin = << >> /\ closed = {} /\ endedSet = {} /\ sent = {} /\ nochan = {} /\ returned = {} /\ LInit
Upd(f, k, v) == (k :> v) @@ f
Cnt(c) == IF c \in DOMAIN fin THEN fin[c] ELSE 0
K == UNCHANGED <<ackErrors, swallow, nochan, returned>>
TReset == Is("reset") /\ ackErrors' = Ev.ackerrors /\ swallow' = Ev.swallow /\ handled' = << >> /\ published' = {} /\ fin' = << >> /\ closed' = {}
          /\ endedSet' = {} /\ sent' = {} /\ nochan' = {} /\ returned' = {} /\ Adv
TSent == Is("sent") /\ sent' = sent \cup {Ev.c} /\ UNCHANGED <<handled, published, fin, closed, endedSet>> /\ K /\ Adv
THandled == Is("handled") /\ handled' = Upd(handled, <<Ev.c, Ev.n>>, Ev.ok)
            /\ UNCHANGED <<published, fin, closed, endedSet, sent>> /\ K /\ Adv
\* cmdstate: the command is still unsettled when its reply is handed to the publisher (it is acked only after the reply was published)
TReplyPub == Is("replypub") /\ <<Ev.c, Ev.n>> \in DOMAIN handled /\ Ev.cmdstate = "none" /\ <<Ev.c, Ev.n>> \notin returned
             /\ published' = published \cup {<<Ev.c, Ev.n>>}
             /\ UNCHANGED <<handled, fin, closed, endedSet, sent>> /\ K /\ Adv
\* the command is acked / nacked as AckCommandErrors says, and only after the reply was published
TCmdRet == /\ Is("cmdret") /\ <<Ev.c, Ev.n>> \in DOMAIN handled
           \* a failed reply publish means Nack -- unless a ReplyPublishErrorHandler swallowed it (swallow): then, as after a
           \* successful publish, the handler's outcome and AckCommandErrors decide
           /\ Ev.ok = ((<<Ev.c, Ev.n>> \in published \/ swallow) /\ (handled[<<Ev.c, Ev.n>>] \/ ackErrors))
           /\ returned' = returned \cup {<<Ev.c, Ev.n>>}
           /\ UNCHANGED <<handled, published, fin, closed, endedSet, sent, ackErrors, swallow, nochan>> /\ Adv
\* only replies produced for its own command, with the handler's outcome
TReply == /\ Is("reply") /\ Ev.from = Ev.c /\ Ev.c \notin closed
          /\ <<Ev.from, Ev.n>> \in DOMAIN handled        \* (the publish of the reply may still be returning)
          /\ Ev.ok = handled[<<Ev.from, Ev.n>>]
          /\ (~Ev.ok) => Ev.errtext = (IF Ev.empty THEN "" ELSE "scripted handler error")      \* the handler's error text, also when it is empty
          /\ UNCHANGED <<handled, published, fin, closed, endedSet, sent>> /\ K /\ Adv
TTimeoutReply == Is("timeoutreply") /\ Ev.c \in endedSet /\ Ev.c \notin closed
                 /\ UNCHANGED <<handled, published, fin, closed, endedSet, sent>> /\ K /\ Adv
\* nochan: the caller used SendWithReply and never holds the reply channel itself
TEnded == /\ Is("ended") /\ endedSet' = endedSet \cup {Ev.c}
          /\ nochan' = IF Ev.nochan THEN nochan \cup {Ev.c} ELSE nochan
          /\ UNCHANGED <<handled, published, fin, closed, sent, ackErrors, swallow, returned>> /\ Adv
TChClosed == Is("chanclosed") /\ Ev.c \in endedSet /\ closed' = closed \cup {Ev.c}
             /\ UNCHANGED <<handled, published, fin, endedSet, sent>> /\ K /\ Adv
TFinished == Is("finished") /\ Ev.c \in endedSet /\ Cnt(Ev.c) = 0 /\ fin' = Upd(fin, Ev.c, 1)     \* exactly once, only after the end
             /\ UNCHANGED <<handled, published, closed, endedSet, sent>> /\ K /\ Adv
TQuiesce == /\ Is("quiesce")
            /\ \A c \in endedSet : (c \in closed \/ c \in nochan) /\ Cnt(c) = 1                                    \* every listener finished
            /\ UNCHANGED <<handled, published, fin, closed, endedSet, sent>> /\ K /\ Adv
TNext == TReset \/ TSent \/ THandled \/ TReplyPub \/ TCmdRet \/ TReply \/ TTimeoutReply \/ TEnded \/ TChClosed \/ TFinished \/ TQuiesce
TSpec == TInit /\ [][TNext]_tvars
=============================================================================
