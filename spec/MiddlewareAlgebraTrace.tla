----------------------- MODULE MiddlewareAlgebraTrace -----------------------
(* Trace validation for C19: real middleware chains around a scripted handler.
   Events:
     reset  chain script cfg corr          new message, new chain instance
     call                                  the chain is invoked on the message
     h      ctx dl settle                  the handler is entered: what it observes
     ret    outs err panic ctx dl delay    the chain returned (or panicked): result and
                                           message state afterwards (delay in microseconds, -1 absent)
   At `call` the whole expected call is evaluated with Run(); every h and the ret
   must then match it in order.                                                    *)
EXTENDS MiddlewareAlgebra, TraceBase

VARIABLES run, cur, exp, hi
tvars == <<run, cur, exp, hi, l>>

NoRun == [chain |-> << >>, script |-> << >>, cfg |-> << >>, corr |-> ""]
NoExp == [res |-> [outs |-> << >>, err |-> "nil", panic |-> "none"], st |-> Fresh(1, "none", "", -1)]
TInit == run = NoRun /\ cur = [k |-> 1, settle |-> "none", delay |-> -1] /\ exp = NoExp /\ hi = -1 /\ LInit

TReset == /\ Is("reset")
          /\ run' = [chain |-> Ev.chain, script |-> Ev.script, cfg |-> Ev.cfg, corr |-> Ev.corr]
          /\ cur' = [k |-> 1, settle |-> (IF Has("settle0") THEN Ev.settle0 ELSE "none"), delay |-> -1] /\ exp' = NoExp /\ hi' = -1 /\ Adv
TCall  == /\ Is("call") /\ hi = -1
          /\ exp' = Run(run.chain, 1, Fresh(cur.k, cur.settle, run.corr, cur.delay), run.script, run.cfg)
          /\ hi' = 0 /\ UNCHANGED <<run, cur>> /\ Adv
TH     == /\ Is("h") /\ hi >= 0 /\ hi < Len(exp.st.obs)
          /\ [ctx |-> Ev.ctx, dl |-> Ev.dl, settle |-> Ev.settle] = exp.st.obs[hi + 1]
          /\ hi' = hi + 1 /\ UNCHANGED <<run, cur, exp>> /\ Adv
\* (the logged delay is cut to whole microseconds: Fresh starts derr at 1)
Near(a, b, tol) == IF a < 0 \/ b < 0 THEN a = b ELSE (a - b <= tol /\ b - a <= tol)
TRet   == /\ Is("ret") /\ hi = Len(exp.st.obs)          \* exactly the expected number of invocations
          /\ Ev.outs = exp.res.outs /\ Ev.err = exp.res.err /\ Ev.panic = exp.res.panic
          /\ Ev.ctx = exp.st.ctx /\ Ev.dl = exp.st.dl
          /\ Near(Ev.delay, exp.st.delay, exp.st.derr)
          /\ Ev.settle = exp.st.settle
          /\ cur' = [k |-> exp.st.k, settle |-> exp.st.settle, delay |-> Ev.delay]
          /\ hi' = -1 /\ UNCHANGED <<run, exp>> /\ Adv
TNext == TReset \/ TCall \/ TH \/ TRet
TSpec == TInit /\ [][TNext]_tvars
=============================================================================
