-------------------------------- MODULE Retry --------------------------------
(* The Retry middleware (message/router/middleware/retry.go) -- property C12.

   One call of the middleware is a sequence of handler attempts.  Times are
   integers (microseconds in traces, abstract ticks in the model).

     Attempt 1 is made at once.  While attempts fail, retry k (= attempt k+1)
     is made after waiting at least Lo(k) = C(k) * (1 - RF), where
     C(1) = Initial, C(k+1) = min(C(k) * Mult, MaxI)  (Mult = MNum / MDen).
     After a failed retry k the hook is called with (k, wait), Lo(k) <= wait <= Hi(k).
     At most MaxRetries retries.  The first success ends the call with that
     attempt's outputs; otherwise the error of the LAST attempt is returned,
     after MaxRetries retries or earlier if the message context ended (CancelAt)
     or MaxElapsed passed since the first failure.  When the context ends
     during a wait, the wait is abandoned: no attempt may start later than
     Margin after the end of the context / of MaxElapsed.

   cfg = [maxRetries, initial, maxI, mnum, mden, rfNum, rfDen, maxElapsed, margin, slack]   *)
EXTENDS Integers, Sequences, TLC

VARIABLES cfg,
          n,         \* attempts started
          inAtt,     \* an attempt is running
          lastEnd,   \* end time of the last finished attempt
          lastOk,    \* outcome of the last finished attempt
          lastErr, lastOuts,
          hooks,     \* hook calls so far
          firstFail, \* end time of the first failed attempt (-1: none)
          cancelT,   \* time the context ended (-1: not ended)
          returned
yvars == <<cfg, n, inAtt, lastEnd, lastOk, lastErr, lastOuts, hooks, firstFail, cancelT, returned>>

RECURSIVE C(_, _)
C(c, k) == IF k = 1 THEN c.initial
           ELSE LET p == C(c, k - 1) IN
                IF p * c.mnum >= c.maxI * c.mden THEN c.maxI ELSE (p * c.mnum) \div c.mden
Lo(c, k) == (C(c, k) * (c.rfDen - c.rfNum)) \div c.rfDen
Hi(c, k) == (C(c, k) * (c.rfDen + c.rfNum)) \div c.rfDen + 1

YInit(c) ==
    /\ cfg = c /\ n = 0 /\ inAtt = FALSE /\ lastEnd = 0 /\ lastOk = FALSE /\ lastErr = "" /\ lastOuts = ""
    /\ hooks = 0 /\ firstFail = -1 /\ cancelT = -1 /\ returned = FALSE

Deadline == IF cfg.maxElapsed > 0 /\ firstFail >= 0 THEN firstFail + cfg.maxElapsed ELSE -1

AttStart(t) ==
    /\ ~returned /\ ~inAtt
    /\ n < 1 + cfg.maxRetries
    /\ n > 0 => /\ ~lastOk                                   \* nothing is invoked after a success
                /\ hooks = n - 1                             \* hook of the previous failed retry came first
                /\ t - lastEnd >= Lo(cfg, n) - cfg.slack     \* back-off before retry n
                /\ cancelT >= 0 => t <= cancelT + cfg.margin
                /\ Deadline >= 0 => t <= Deadline + cfg.margin
    /\ n' = n + 1 /\ inAtt' = TRUE
    /\ UNCHANGED <<cfg, lastEnd, lastOk, lastErr, lastOuts, hooks, firstFail, cancelT, returned>>

AttEnd(t, ok, err, outs) ==
    /\ inAtt /\ inAtt' = FALSE
    /\ lastEnd' = t /\ lastOk' = ok /\ lastErr' = err /\ lastOuts' = outs
    /\ firstFail' = IF ~ok /\ firstFail < 0 THEN t ELSE firstFail
    /\ UNCHANGED <<cfg, n, hooks, cancelT, returned>>

Hook(k, wait) ==
    /\ ~returned /\ ~inAtt /\ ~lastOk
    /\ n >= 2 /\ k = n - 1 /\ k = hooks + 1                  \* 1, 2, ... in order, once per failed retry
    /\ wait >= Lo(cfg, k) - cfg.slack /\ wait <= Hi(cfg, k) + cfg.slack
    /\ hooks' = k
    /\ UNCHANGED <<cfg, n, inAtt, lastEnd, lastOk, lastErr, lastOuts, firstFail, cancelT, returned>>

Cancel(t) ==
    /\ cancelT < 0 /\ cancelT' = t
    /\ UNCHANGED <<cfg, n, inAtt, lastEnd, lastOk, lastErr, lastOuts, hooks, firstFail, returned>>

Exhausted == n = 1 + cfg.maxRetries /\ hooks = cfg.maxRetries
Return(t, ok, err, outs) ==
    /\ ~returned /\ ~inAtt /\ n >= 1
    /\ ok = lastOk                                           \* never turns a failure into success (or vice versa)
    /\ ok => outs = lastOuts                                 \* result of the first (= last) successful attempt
    /\ ~ok => /\ err = lastErr                               \* the last error is kept
              /\ \/ Exhausted
                 \/ cancelT >= 0                             \* gave up early: context ended
                 \/ (Deadline >= 0 /\ t >= Deadline - cfg.slack)
    /\ returned' = TRUE
    /\ UNCHANGED <<cfg, n, inAtt, lastEnd, lastOk, lastErr, lastOuts, hooks, firstFail, cancelT>>

-----------------------------------------------------------------------------
AttemptsBounded == n <= 1 + cfg.maxRetries
HooksBounded == hooks <= cfg.maxRetries /\ hooks <= n
=============================================================================
