----------------------------- MODULE DedupTrace -----------------------------
(* Trace validation for C14.  A run is one Deduplicator (window w microseconds)
   used concurrently by many goroutines, as middleware or as publisher decorator.
     reset  window slack
     ret    g key t0 t1 dup invoked acked      one presentation of a message: conservative time stamps
                                               (t0 taken before the call, t1 after it returned); dup = it was
                                               treated as duplicate; invoked = the handler / inner publisher got it;
                                               acked = the dropped message was acknowledged (decorator)
     end                                       all presentations returned: the history is judged as a whole
     hash   hasher equalprefix samekey         a pair of payloads given to a built-in hasher
   Rules (each is a necessary condition, so scheduling noise cannot produce an alarm):
     R1  a presentation reaches the handler iff it was not treated as duplicate; dropped ones are successes
     R2  two presentations f, g of one key both accepted  =>  one returned at least a window after the other was made
     (R2 /\ R3 is compared with TRUE so that TLC evaluates it as a state predicate instead of enumerating the witnesses of \E as successor branches)
     R3  a presentation treated as duplicate has an accepted presentation f of the SAME key that was made before it
         returned and whose entry may still be alive:  g.t0 <= f.t1 + 3/2 window + slack                         *)
EXTENDS Integers, Sequences, FiniteSets, TraceBase
VARIABLES calls, w, slack
tvars == <<calls, w, slack, l>>
TInit == calls = << >> /\ w = 0 /\ slack = 0 /\ LInit
TReset == Is("reset") /\ calls' = << >> /\ w' = Ev.window /\ slack' = Ev.slack /\ Adv
TRet == /\ Is("ret")
        /\ Ev.invoked = ~Ev.dup                                   \* R1
        /\ Ev.dup => Ev.acked
        /\ calls' = Append(calls, [key |-> Ev.key, t0 |-> Ev.t0, t1 |-> Ev.t1, dup |-> Ev.dup])
        /\ UNCHANGED <<w, slack>> /\ Adv
R2 == \A i, j \in 1..Len(calls) :
         (i < j /\ calls[i].key = calls[j].key /\ ~calls[i].dup /\ ~calls[j].dup)
            => (calls[j].t1 >= calls[i].t0 + w \/ calls[i].t1 >= calls[j].t0 + w)
R3 == \A j \in 1..Len(calls) : calls[j].dup =>
         \E i \in 1..Len(calls) : /\ i # j /\ calls[i].key = calls[j].key /\ ~calls[i].dup
                                  /\ calls[i].t0 <= calls[j].t1
                                  /\ calls[j].t0 <= calls[i].t1 + (3 * w) \div 2 + slack
TEnd == Is("end") /\ ((R2 /\ R3) = TRUE) /\ calls' = << >> /\ UNCHANGED <<w, slack>> /\ Adv     \* a judged segment is closed
THash == /\ Is("hash")
         /\ Ev.equalprefix => Ev.samekey
         /\ (Ev.hasher = "sha256" /\ ~Ev.equalprefix) => ~Ev.samekey
         /\ UNCHANGED <<calls, w, slack>> /\ Adv
TNext == TReset \/ TRet \/ TEnd \/ THash
TSpec == TInit /\ [][TNext]_tvars
=============================================================================
