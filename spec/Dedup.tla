-------------------------------- MODULE Dedup --------------------------------
(* The in-memory expiring key repository behind the Deduplicator
   (message/router/middleware/deduplicator.go) -- property C14.

   Callers present keys concurrently; IsDuplicate(k) answers FALSE ("first") for
   exactly one caller per key and retention epoch, TRUE for the others.  A clean-up
   tick removes entries older than the window (modelled as: an entry survives at
   least Window ticks).

   Implementation shape: mutex; lookup and insert in ONE critical section.
   MutSplitCriticalSection = TRUE splits lookup and insert (check-then-act race):
   TLC must then find two "first" answers for one key in one epoch.               *)
EXTENDS Naturals, FiniteSets, Sequences, TLC

CONSTANTS Callers, Keys, KeyOf, Window, MaxTicks, MutSplitCriticalSection

VARIABLES pc, mu, seen, tags, age, epoch, firsts, ticks
dvars == <<pc, mu, seen, tags, age, epoch, firsts, ticks>>
\* tags: set of remembered keys; age[k]: ticks since insertion; epoch[k]: counts expiries of k
\* firsts[<<k, e>>]: callers that were told "not a duplicate" for key k in epoch e
None == "none"
DInit == /\ pc = [c \in Callers |-> "start"] /\ mu = None /\ seen = [c \in Callers |-> FALSE]
         /\ tags = {} /\ age = [k \in Keys |-> 0] /\ epoch = [k \in Keys |-> 0]
         /\ firsts = [x \in Keys \X (0..MaxTicks) |-> {}] /\ ticks = 0

Lock(c) == /\ pc[c] \in {"start", "relock"} /\ mu = None /\ mu' = c
           /\ pc' = [pc EXCEPT ![c] = IF pc[c] = "start" THEN "lookup" ELSE "insert"]
           /\ UNCHANGED <<seen, tags, age, epoch, firsts, ticks>>
Lookup(c) == LET k == KeyOf[c] IN
             /\ pc[c] = "lookup" /\ mu = c
             /\ seen' = [seen EXCEPT ![c] = k \in tags]
             /\ IF k \in tags THEN pc' = [pc EXCEPT ![c] = "unlock"] /\ UNCHANGED mu
                ELSE IF MutSplitCriticalSection THEN pc' = [pc EXCEPT ![c] = "relock"] /\ mu' = None
                ELSE pc' = [pc EXCEPT ![c] = "insert"] /\ UNCHANGED mu
             /\ UNCHANGED <<tags, age, epoch, firsts, ticks>>
Insert(c) == LET k == KeyOf[c] IN
             /\ pc[c] = "insert" /\ mu = c
             /\ tags' = tags \cup {k} /\ age' = [age EXCEPT ![k] = 0]
             /\ firsts' = [firsts EXCEPT ![<<k, epoch[k]>>] = @ \cup {c}]
             /\ pc' = [pc EXCEPT ![c] = "unlock"]
             /\ UNCHANGED <<mu, seen, epoch, ticks>>
Unlock(c) == /\ pc[c] = "unlock" /\ mu = c /\ mu' = None /\ pc' = [pc EXCEPT ![c] = "done"]
             /\ UNCHANGED <<seen, tags, age, epoch, firsts, ticks>>
\* clean-up tick (takes the mutex): entries that lived Window ticks are removed
Tick == /\ ticks < MaxTicks /\ mu = None /\ ticks' = ticks + 1
        /\ LET old == {k \in tags : age[k] >= Window} IN
             /\ tags' = tags \ old
             /\ epoch' = [k \in Keys |-> IF k \in old THEN epoch[k] + 1 ELSE epoch[k]]
             /\ age' = [k \in Keys |-> IF k \in tags \ old THEN age[k] + 1 ELSE age[k]]
        /\ UNCHANGED <<pc, mu, seen, firsts>>
DNext == (\E c \in Callers : Lock(c) \/ Lookup(c) \/ Insert(c) \/ Unlock(c)) \/ Tick
DSpec == DInit /\ [][DNext]_dvars

\* exactly one message per key reaches the handler per retention epoch
AtMostOneFirst == \A x \in DOMAIN firsts : Cardinality(firsts[x]) <= 1
\* different keys never suppress each other: a caller is told "duplicate" only if its own key is remembered
OnlyOwnKey == \A c \in Callers : (pc[c] = "done" /\ seen[c]) => \E e \in 0..MaxTicks : firsts[<<KeyOf[c], e>>] # {}
=============================================================================
