SPECIFICATION TSpec
CONSTANTS
  Msgs = {"m1","m2","m3","m4","m5","m6","m7","m8","m9","m10","m11","m12"}
  MutAckBeforePublish = FALSE
  MutPublishOnError = FALSE
  MutNoNackOnPubErr = FALSE
CONSTRAINT HighWater
POSTCONDITION Accepted
INVARIANTS AtMostOnePublish NoPublishAfterError DoneMeansSettled OwnInjective
CHECK_DEADLOCK FALSE
