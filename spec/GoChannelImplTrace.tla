-------------------------- MODULE GoChannelImplTrace --------------------------
(* Conformance of the implementation-shaped model GoChannelImpl.tla with the real
   code: INTERNAL traces (verifhook events) of a fixed-shape scenario -- the
   constants of the cfg: publishers p1, p2 publishing m1, m2 on one topic,
   subscriptions s1, s2, optional cancel / Close -- are validated against the
   model's own actions.

   All model actions are silent.  A hook event pins its goroutine at the hook
   site: `site[t]` says which hook the goroutine t is standing on (it has executed
   the action that leads there but has not moved on); the event is consumed exactly
   there, and t cannot take another step before that (the hook call and the log
   record are one synchronous step of the real goroutine).  Other goroutines move
   freely meanwhile, so lock acquisitions that the hooks cannot order exactly are
   searched by TLC, but every goroutine runs at most up to its next hook site, which
   keeps the search narrow.

   Events:  {"e":"hook", "point":<hook>, "t":<goroutine>}  with t = "pub:p1", "subc:s2",
            "tear:s1", "send:m1/s2", "closer"; consumer events recv / ack / nack (harness,
            logged after the receipt / before the settlement); cancel s; reset.        *)
EXTENDS MCGoChannelImpl, TraceBase

VARIABLE site       \* site[t] : hook the goroutine t stands on and has not logged yet ("" = none)
tvars == <<vars, site, l>>

AllThreads == Threads \cup Senders
Thr(name) ==        \* goroutine named in the trace -> model thread
    LET k == name IN
    CASE k = "closer" -> Closer
      [] k = "pub:p1" -> Pub("p1") [] k = "pub:p2" -> Pub("p2")
      [] k = "subc:s1" -> SubC("s1") [] k = "subc:s2" -> SubC("s2")
      [] k = "tear:s1" -> Tear("s1") [] k = "tear:s2" -> Tear("s2")
      [] k = "send:m1/s1" -> <<"m1", "s1">> [] k = "send:m1/s2" -> <<"m1", "s2">>
      [] k = "send:m2/s1" -> <<"m2", "s1">> [] k = "send:m2/s2" -> <<"m2", "s2">>

\* the hook site a goroutine reaches by a step, from its new control state
PubSite(t) == CASE pc'[t] = "P_rlock" /\ pc[t] = "P_check" -> "gochannel.publish.after_closed_check"
                [] pc'[t] = "P_tmu"     -> "gochannel.publish.rlocked"
                [] pc'[t] = "P_persist" -> "gochannel.publish.locked"
                [] pc[t] = "P_unlock"   -> "gochannel.publish.sent"
                [] OTHER -> ""
SubSite(t) == CASE pc'[t] = "S_lock" -> "gochannel.subscribe.closed_checked"
                [] pc'[t] = "done" /\ pc[t] \in {"S_acq", "S_replay", "S_noreplay"} -> "gochannel.subscribe.registered"
                [] OTHER -> ""
TearSite(t) == CASE pc'[t] = "T_sendmu" -> "gochannel.sub.close.before_lock"
                 [] pc'[t] = "T_lock"   -> "gochannel.sub.close.closed"
                 [] OTHER -> ""
SendSite(x) == CASE sstate'[x] = "loop" /\ sstate[x] = "lock" -> "gochannel.send.locked"
                 [] sstate'[x] = "wait" -> "gochannel.send.wait_settle"
                 [] OTHER -> ""
CloseSite == IF pc'[Closer] = "X_wait" THEN "gochannel.close.signalled" ELSE ""

Free(t) == site[t] = ""
Moves(t, s) == site' = [site EXCEPT ![t] = s]

\* ---- silent model steps, each by a goroutine that is not standing on an unlogged hook
SPub(t) == /\ Free(t)
           /\ (PCheck(t) \/ PRLock(t) \/ PRAdmitted(t) \/ PTmu(t) \/ PPersistSend(t) \/ PWait(t) \/ PUnlock(t) \/ PNext(t) \/ PRet(t))
           /\ Moves(t, IF perr'[t] THEN "" ELSE PubSite(t))
SSub(s) == /\ Free(SubC(s))
           /\ (SStart(s) \/ SAnnounce(s) \/ SRegister(s) \/ SSnapshot(s) \/ SReplay(s))
           /\ Moves(SubC(s), SubSite(SubC(s)))
STear(s) == /\ Free(Tear(s))
            /\ (TWake(s) \/ TCloseOut(s) \/ TAnnounce(s) \/ TRemove(s))
            /\ Moves(Tear(s), TearSite(Tear(s)))
SSend(x) == /\ Free(x)
            /\ (SendLock(x) \/ SendLoop(x) \/ SendWait(x))
            /\ Moves(x, SendSite(x))
SClose == /\ Free(Closer) /\ (XStart \/ XWait) /\ Moves(Closer, CloseSite)

TSilent == /\ \/ \E t \in PubThreads : SPub(t)
              \/ \E s \in Subs : SSub(s) \/ STear(s)
              \/ \E x \in Senders : SSend(x)
              \/ SClose
           /\ UNCHANGED l

\* ---- logged events
THook == /\ Is("hook")
         /\ site[Thr(Ev.t)] = Ev.point
         /\ site' = [site EXCEPT ![Thr(Ev.t)] = ""]
         /\ UNCHANGED vars /\ Adv
\* hooks of the code that have no site in the model (finer than the model's grain) are stuttering steps
TFine == Is("fine") /\ UNCHANGED <<vars, site>> /\ Adv
TRecv == Is("recv") /\ CRecv(Ev.s) /\ got'[Ev.s] = Ev.m /\ UNCHANGED site /\ Adv
TAck  == Is("ack")  /\ got[Ev.s] = Ev.m /\ CAck(Ev.s)  /\ UNCHANGED site /\ Adv
TNack == Is("nack") /\ got[Ev.s] = Ev.m /\ CNack(Ev.s) /\ UNCHANGED site /\ Adv
\* (the context may be cancelled before the model's tear-down goroutine exists: only the flag is set)
TCancel == /\ Is("cancel") /\ cancelled' = [cancelled EXCEPT ![Ev.s] = TRUE]
           /\ UNCHANGED <<pc, pm, closev, lockv, reg, snap, sent, sstate, settle, out, outClosed, sClosing, sClosed, sendMu, got, persisted, logNil, nacksLeft, histv, site>> /\ Adv
\* API returns observed by the harness pin the caller at the end of its call
TPubEnd == Is("pubend") /\ pc[Pub(Ev.p)] = "done" /\ perr[Pub(Ev.p)] = ~Ev.ok /\ UNCHANGED <<vars, site>> /\ Adv
TCloseEnd == Is("closeend") /\ pc[Closer] = "done" /\ UNCHANGED <<vars, site>> /\ Adv
TEnd == Is("end") /\ (\A t \in AllThreads : site[t] = "") /\ UNCHANGED <<vars, site>> /\ Adv

TInit == Init /\ site = [t \in AllThreads |-> ""] /\ LInit
TReset == /\ Is("reset")
          /\ pc' = [t \in Threads |->
                IF t[1] = "pub" THEN "P_check" ELSE IF t[1] = "cons" THEN "C_recv"
                ELSE IF t[1] = "subc" THEN "S_start" ELSE IF t[1] = "tear" THEN "off"
                ELSE IF DoClose THEN "X_start" ELSE "done"]
          /\ pm' = [t \in PubThreads |-> IF t[1] = "pub" THEN [cur |-> PubMsg[t[2]], rest |-> PubRest[t[2]]] ELSE [cur |-> None, rest |-> << >>]]
          /\ closed' = FALSE /\ closing' = FALSE /\ closedMu' = NoT /\ wg' = 0
          /\ rwReaders' = 0 /\ rwPending' = FALSE /\ rwWmu' = NoT /\ rblocked' = {}
          /\ tmu' = [tp \in Topics |-> NoT] /\ reg' = [tp \in Topics |-> {}]
          /\ snap' = [m \in Msgs |-> {}] /\ sent' = [m \in Msgs |-> FALSE]
          /\ sstate' = [x \in Senders |-> "idle"] /\ settle' = [x \in Senders |-> "none"]
          /\ out' = [s \in Subs |-> << >>] /\ outClosed' = [s \in Subs |-> FALSE]
          /\ sClosing' = [s \in Subs |-> FALSE] /\ sClosed' = [s \in Subs |-> FALSE]
          /\ sendMu' = [s \in Subs |-> NoT] /\ cancelled' = [s \in Subs |-> FALSE]
          /\ got' = [s \in Subs |-> None]
          /\ persisted' = [tp \in Topics |-> << >>] /\ logNil' = FALSE /\ nacksLeft' = NackBudget
          /\ sched' = [x \in Senders |-> 0] /\ recvd' = [x \in Senders |-> 0] /\ acked' = [x \in Senders |-> FALSE]
          /\ perr' = [t \in PubThreads |-> FALSE] /\ panicked' = FALSE
          /\ site' = [t \in AllThreads |-> ""] /\ Adv

TNext == TReset \/ THook \/ TFine \/ TRecv \/ TAck \/ TNack \/ TCancel \/ TPubEnd \/ TCloseEnd \/ TEnd \/ TSilent
TSpec == TInit /\ [][TNext]_tvars
=============================================================================
