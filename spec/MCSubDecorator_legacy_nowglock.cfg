SPECIFICATION FairSpec
CONSTANTS
  Subs = {"s1","s2"}
  K = 2
  LegacyPlainSend = FALSE
  LegacyNoWgLock = TRUE
  MutClosingFirst = FALSE
  MutSharedCtx = FALSE
INVARIANTS TypeOK NoAddDuringWait ClosingAfterInner DropJustified InOrderOnce NothingLostSilently OutClosedAfterIn CloseComplete
PROPERTIES CloseReturns CancelCloses
CHECK_DEADLOCK FALSE
