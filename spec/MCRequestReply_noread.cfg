SPECIFICATION QFairSpec
CONSTANTS
  Own = 2
  Foreign = 1
  Reads = 0
  LegacyBlockingSend = FALSE
INVARIANTS FinishedAtMostOnce OnlyOwnReplies ClosedMeansFinished
PROPERTIES Terminates
CHECK_DEADLOCK FALSE
