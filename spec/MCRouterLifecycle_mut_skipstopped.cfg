SPECIFICATION FairSpec
CONSTANTS
  Msgs = {"m1","m2"}
  Closers = {c1, c2}
  AllowStop = FALSE
  Watcher = nowatcher
  AllowCtxCancel = FALSE
  AllowTimeout = FALSE
  LegacyConcurrentWaits = FALSE
  LegacyStartedFirst = FALSE
  LegacyHandleClose = FALSE
  MutUnregBeforeDone = FALSE
  MutIsClosedInRunHandlers = FALSE
  MutSkipStoppedWhenClosing = TRUE
  LegacySecondCloseNil = FALSE
INVARIANTS NoStuck Graceful ErrorOnlyOnTimeout NoPanic RunAfterClose SubClosedAtEnd DroppedNotHandled
PROPERTIES AllReturn StoppedCloses
CHECK_DEADLOCK FALSE
