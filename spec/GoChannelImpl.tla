---------------------------- MODULE GoChannelImpl ----------------------------
(* Implementation-shaped model of pubsub/gochannel/pubsub.go: one action per
   segment of code between two points at which another goroutine can interfere
   (the verifhook points), with the enabling condition of the blocking
   operation in between.

   Goroutines ("threads")
     <<"pub", p>>    top-level Publish caller: one call Publish(topic, PubMsg[p], PubRest[p]...) -- the messages of a
                     call are persisted + sent one after the other, each in its own critical section, and in
                     blocking mode each is waited for before the next one is handed over
     <<"cons", s>>   consumer of subscription s (environment): receives, may
                     Nack (NackBudget times), may publish Republish[s] to another
                     topic before settling, Acks
     <<"subc", s>>   Subscribe caller of s         <<"tear", s>>  its tear-down goroutine
     <<"closer">>    Close caller
     <<m, s>>        sender goroutine of message m to subscription s

   Locks are modelled exactly:
     subscribersLock  Go's writer-preferring sync.RWMutex: rwReaders, rwWmu
                      (writer that announced itself), rwPending (a writer is
                      waiting: new readers block), rblocked (readers blocked so
                      far; they are admitted together when the writer unlocks)
     tmu[topic]       per-topic mutex          sendMu[s]  the subscriber's sending lock
     closedMu         closedLock               (persistedMessagesLock is never contended
                                                across a blocking point and is elided)

   Design switches (TRUE = the defective design; TLC must then violate a property)
     LegacyHoldLocks       Publish keeps the read lock and the topic mutex while it
                           waits for acks (dead-lock with a republishing consumer
                           and a pending writer)
     LegacyNilLog          Close drops the message log without the lock and Publish
                           does not re-check it (nil-map write)
     MutPersistOutsideLock the message is persisted before the locks are taken
                           (a concurrent Subscribe replays it AND receives it live)
     MutBatchPersistFirst  a multi-message Publish persists the whole batch in the critical section of its
                           first message (a Subscribe between two messages replays the later ones AND gets them live)
     MutDropLogEarly       Close drops the message log before it has waited for the subscriptions (a replay in
                           progress then reads an entry of a log that is gone: index out of range)
     MutTearIsClosed       the tear-down goroutine of a subscription whose context ended asks isClosed() (closedLock) before it
                           goes on -- Close holds that lock while it waits for the tear-down goroutines (seed C07-17)
     MutBatchNoWait        a blocking multi-message Publish hands all messages over before it waits for acks
                           (the next message is receivable before the previous one was acked)          *)
EXTENDS Naturals, Sequences, FiniteSets, TLC

CONSTANTS Blocking, Persistent, Buf,
          Pubs, PubMsg,        \* PubMsg[p] = (first) message published by top-level publisher p
          PubRest,             \* PubRest[p] = the further messages of the same Publish call (<< >>: a single-message call)
          Msgs, MsgTopic,      \* MsgTopic[m]
          Subs, SubTopic,      \* SubTopic[s]
          PreSubs,             \* subscriptions already registered in Init
          Republish,           \* Republish[s] = message the consumer of s publishes before settling, or "none"
          NackBudget,          \* how many Nacks the consumers may issue altogether
          DoClose, Cancels,    \* Cancels \subseteq Subs whose context may be cancelled
          LegacyHoldLocks, LegacyNilLog, MutPersistOutsideLock, MutBatchPersistFirst, MutBatchNoWait, MutDropLogEarly, MutTearIsClosed

None == "none"
NoT == <<"none">>

VARIABLES pc, pm,               \* pm[t] = [cur |-> message being published, rest |-> messages of the call still to come]
          closed, closing, wg, closedMu,
          rwReaders, rwPending, rwWmu, rblocked, tmu,
          reg,                 \* reg[topic] registered subscriptions
          snap,                \* snap[m]  subscribers snapshot taken when m was sent
          sent,                \* sent[m]
          sstate,              \* sender state "idle","lock","loop","wait","done"
          settle,              \* settlement of the copy currently held by the consumer
          out, outClosed, sClosing, sClosed, sendMu, cancelled,
          got,                 \* message the consumer of s holds
          persisted,           \* persisted[topic] : sequence of messages, or the whole thing = <<>> after Close (nil map)
          logNil,              \* TRUE once Close has dropped the log
          nacksLeft,
          sched,               \* sched[<<m,s>>] number of sender goroutines ever started for the pair
          recvd, acked,        \* history: deliveries and acks per pair
          perr,                \* perr[t] Publish of thread t returned an error
          panicked

lockv  == <<rwReaders, rwPending, rwWmu, rblocked, tmu>>
closev == <<closed, closing, wg, closedMu>>
subv   == <<out, outClosed, sClosing, sClosed, sendMu, cancelled>>
histv  == <<sched, recvd, acked, perr, panicked>>
vars   == <<pc, pm, closev, lockv, reg, snap, sent, sstate, settle, subv, got, persisted, logNil, nacksLeft, histv>>

Cons(s) == <<"cons", s>>
SubC(s) == <<"subc", s>>
Tear(s) == <<"tear", s>>
Pub(p)  == <<"pub", p>>
Closer  == <<"closer">>
PubThreads == {Pub(p) : p \in Pubs} \cup {Cons(s) : s \in Subs}
Threads == PubThreads \cup {SubC(s) : s \in Subs} \cup {Tear(s) : s \in Subs} \cup {Closer}
Senders == Msgs \X Subs
Topics == {MsgTopic[m] : m \in Msgs} \cup {SubTopic[s] : s \in Subs}

Init ==
  /\ pc = [t \in Threads |->
        IF t[1] = "pub" THEN "P_check"
        ELSE IF t[1] = "cons" THEN "C_recv"
        ELSE IF t[1] = "subc" THEN (IF t[2] \in PreSubs THEN "done" ELSE "S_start")
        ELSE IF t[1] = "tear" THEN (IF t[2] \in PreSubs THEN "T_wait" ELSE "off")
        ELSE IF DoClose THEN "X_start" ELSE "done"]
  /\ pm = [t \in PubThreads |-> IF t[1] = "pub" THEN [cur |-> PubMsg[t[2]], rest |-> PubRest[t[2]]] ELSE [cur |-> None, rest |-> << >>]]
  /\ closed = FALSE /\ closing = FALSE /\ closedMu = NoT /\ wg = Cardinality(PreSubs)
  /\ rwReaders = 0 /\ rwPending = FALSE /\ rwWmu = NoT /\ rblocked = {}
  /\ tmu = [tp \in Topics |-> NoT]
  /\ reg = [tp \in Topics |-> {s \in PreSubs : SubTopic[s] = tp}]
  /\ snap = [m \in Msgs |-> {}] /\ sent = [m \in Msgs |-> FALSE]
  /\ sstate = [x \in Senders |-> "idle"] /\ settle = [x \in Senders |-> "none"]
  /\ out = [s \in Subs |-> << >>] /\ outClosed = [s \in Subs |-> FALSE]
  /\ sClosing = [s \in Subs |-> FALSE] /\ sClosed = [s \in Subs |-> FALSE]
  /\ sendMu = [s \in Subs |-> NoT] /\ cancelled = [s \in Subs |-> FALSE]
  /\ got = [s \in Subs |-> None]
  /\ persisted = [tp \in Topics |-> << >>] /\ logNil = FALSE
  /\ nacksLeft = NackBudget
  /\ sched = [x \in Senders |-> 0] /\ recvd = [x \in Senders |-> 0] /\ acked = [x \in Senders |-> FALSE]
  /\ perr = [t \in PubThreads |-> FALSE]
  /\ panicked = FALSE

Goto(t, l) == pc' = [pc EXCEPT ![t] = l]
Cur(t) == pm[t].cur
SeqToSet(q) == {q[i] : i \in DOMAIN q}
CallMsgs(p) == {PubMsg[p]} \cup SeqToSet(PubRest[p])        \* all messages of p's Publish call
IsFirstOfBatch(t) == t[1] = "pub" /\ Cur(t) = PubMsg[t[2]] /\ PubRest[t[2]] # << >>
InLog(tp, m) == \E i \in DOMAIN persisted[tp] : persisted[tp][i] = m

\* ------------------------------------------------------------------ Publish (threads in PubThreads)
PCheck(t) ==
  /\ pc[t] = "P_check" /\ closedMu = NoT
  /\ IF closed THEN perr' = [perr EXCEPT ![t] = TRUE] /\ Goto(t, "P_ret") /\ UNCHANGED persisted
     ELSE /\ UNCHANGED perr
          /\ IF MutPersistOutsideLock /\ Persistent /\ ~logNil
               THEN persisted' = [persisted EXCEPT ![MsgTopic[Cur(t)]] = Append(@, Cur(t))]
               ELSE UNCHANGED persisted
          /\ Goto(t, "P_rlock")
  /\ UNCHANGED <<pm, closev, lockv, reg, snap, sent, sstate, settle, subv, got, logNil, nacksLeft, sched, recvd, acked, panicked>>

PRLock(t) ==
  /\ pc[t] = "P_rlock"
  /\ IF rwPending THEN rblocked' = rblocked \cup {t} /\ Goto(t, "P_rblocked") /\ UNCHANGED rwReaders
     ELSE rwReaders' = rwReaders + 1 /\ Goto(t, "P_tmu") /\ UNCHANGED rblocked
  /\ UNCHANGED <<pm, closev, rwPending, rwWmu, tmu, reg, snap, sent, sstate, settle, subv, got, persisted, logNil, nacksLeft, histv>>

PRAdmitted(t) ==
  /\ pc[t] = "P_rblocked" /\ t \notin rblocked /\ Goto(t, "P_tmu")
  /\ UNCHANGED <<pm, closev, lockv, reg, snap, sent, sstate, settle, subv, got, persisted, logNil, nacksLeft, histv>>

PTmu(t) ==
  LET tp == MsgTopic[Cur(t)] IN
  /\ pc[t] = "P_tmu" /\ tmu[tp] = NoT /\ tmu' = [tmu EXCEPT ![tp] = t]
  /\ Goto(t, "P_persist")
  /\ UNCHANGED <<pm, closev, rwReaders, rwPending, rwWmu, rblocked, reg, snap, sent, sstate, settle, subv, got, persisted, logNil, nacksLeft, histv>>

\* persist + snapshot of the registered subscribers + one sender goroutine per subscriber: one critical section
PPersistSend(t) ==
  LET m == Cur(t)  tp == MsgTopic[m]
      \* what this critical section appends to the log
      toLog == IF MutBatchPersistFirst /\ t[1] = "pub" /\ PubRest[t[2]] # << >>
                 THEN (IF IsFirstOfBatch(t) THEN <<m>> \o PubRest[t[2]] ELSE << >>)
                 ELSE <<m>> IN
  /\ pc[t] = "P_persist"
  /\ IF Persistent /\ logNil /\ ~MutPersistOutsideLock
       THEN \* Close has dropped the log in the meantime
            /\ IF LegacyNilLog THEN panicked' = TRUE /\ UNCHANGED perr
                               ELSE perr' = [perr EXCEPT ![t] = TRUE] /\ UNCHANGED panicked
            /\ UNCHANGED <<persisted, snap, sent, sstate, sched>> /\ Goto(t, "P_unlock")
       ELSE /\ persisted' = IF Persistent /\ ~MutPersistOutsideLock THEN [persisted EXCEPT ![tp] = @ \o toLog] ELSE persisted
            /\ snap' = [snap EXCEPT ![m] = reg[tp]] /\ sent' = [sent EXCEPT ![m] = TRUE]
            /\ sstate' = [x \in Senders |-> IF x[1] = m /\ x[2] \in reg[tp] THEN "lock" ELSE sstate[x]]
            /\ sched' = [x \in Senders |-> IF x[1] = m /\ x[2] \in reg[tp] THEN sched[x] + 1 ELSE sched[x]]
            /\ Goto(t, IF Blocking /\ LegacyHoldLocks THEN "P_wait" ELSE "P_unlock")
            /\ UNCHANGED <<perr, panicked>>
  /\ UNCHANGED <<pm, closev, lockv, reg, settle, subv, got, logNil, nacksLeft, recvd, acked>>

\* waitForAckFromSubscribers: every sender of the snapshot finished, or the Pub/Sub is closing
PWait(t) ==
  LET m == Cur(t) IN
  /\ pc[t] = "P_wait"
  /\ (closing \/ \A s \in snap[m] : sstate[<<m, s>>] = "done")
  /\ Goto(t, IF LegacyHoldLocks THEN "P_unlock" ELSE "P_next")
  /\ UNCHANGED <<pm, closev, lockv, reg, snap, sent, sstate, settle, subv, got, persisted, logNil, nacksLeft, histv>>

PUnlock(t) ==
  LET tp == MsgTopic[Cur(t)] IN
  /\ pc[t] = "P_unlock" /\ tmu' = [tmu EXCEPT ![tp] = NoT] /\ rwReaders' = rwReaders - 1
  /\ Goto(t, IF perr[t] THEN "P_ret"
             ELSE IF Blocking /\ ~LegacyHoldLocks /\ ~(MutBatchNoWait /\ pm[t].rest # << >>) THEN "P_wait"
             ELSE "P_next")
  /\ UNCHANGED <<pm, closev, rwPending, rwWmu, rblocked, reg, snap, sent, sstate, settle, subv, got, persisted, logNil, nacksLeft, histv>>

\* the next message of the same Publish call (no new closed check), or the call returns
PNext(t) ==
  /\ pc[t] = "P_next"
  /\ IF pm[t].rest = << >> THEN Goto(t, "P_ret") /\ UNCHANGED pm
     ELSE pm' = [pm EXCEPT ![t] = [cur |-> Head(@.rest), rest |-> Tail(@.rest)]] /\ Goto(t, "P_rlock")
  /\ UNCHANGED <<closev, lockv, reg, snap, sent, sstate, settle, subv, got, persisted, logNil, nacksLeft, histv>>

PRet(t) ==
  /\ pc[t] = "P_ret"
  /\ IF t[1] = "pub" THEN Goto(t, "done") ELSE Goto(t, "C_settle")
  /\ UNCHANGED <<pm, closev, lockv, reg, snap, sent, sstate, settle, subv, got, persisted, logNil, nacksLeft, histv>>

\* ------------------------------------------------------------------ write lock helpers
WAnnounce(t, from, to) == /\ pc[t] = from /\ rwWmu = NoT /\ rwWmu' = t /\ rwPending' = TRUE /\ Goto(t, to)
WAcquired(t) == rwWmu = t /\ rwReaders = 0
WUnlockVars == /\ rwPending' = FALSE /\ rwWmu' = NoT /\ rwReaders' = rwReaders + Cardinality(rblocked) /\ rblocked' = {}

\* ------------------------------------------------------------------ Subscribe caller
SStart(s) ==
  LET t == SubC(s) IN
  /\ pc[t] = "S_start" /\ closedMu = NoT
  /\ IF closed THEN Goto(t, "done") /\ UNCHANGED wg ELSE wg' = wg + 1 /\ Goto(t, "S_lock")
  /\ UNCHANGED <<pm, closed, closing, closedMu, lockv, reg, snap, sent, sstate, settle, subv, got, persisted, logNil, nacksLeft, histv>>

SAnnounce(s) ==
  /\ WAnnounce(SubC(s), "S_lock", "S_acq")
  /\ UNCHANGED <<pm, closev, rwReaders, rblocked, tmu, reg, snap, sent, sstate, settle, subv, got, persisted, logNil, nacksLeft, histv>>

\* acquire the write lock and the topic mutex, spawn the tear-down goroutine, (persistent: schedule the replay
\* of the whole log,) register, unlock: no blocking operation in between (the replay goroutine inherits the locks)
SRegister(s) ==
  LET t == SubC(s)  tp == SubTopic[s] IN
  /\ ~Persistent
  /\ pc[t] = "S_acq" /\ WAcquired(t) /\ tmu[tp] = NoT
  /\ reg' = [reg EXCEPT ![tp] = @ \cup {s}]
  /\ WUnlockVars
  /\ pc' = [pc EXCEPT ![t] = "done", ![Tear(s)] = "T_wait"]
  /\ UNCHANGED <<pm, closev, tmu, snap, sent, sstate, settle, subv, got, persisted, logNil, nacksLeft, histv>>

\* persistent mode: the replay goroutine inherits both locks.  It first looks the topic's log up under persistedMessagesLock
\* (SSnapshot) and then reads the entries one by one WITHOUT that lock (SReplay) -- safe only because nothing can touch
\* the log meanwhile: publishers need the locks it holds, and Close drops the log only after every subscription is gone.
SSnapshot(s) ==
  LET t == SubC(s)  tp == SubTopic[s] IN
  /\ Persistent
  /\ pc[t] = "S_acq" /\ WAcquired(t) /\ tmu[tp] = NoT
  /\ tmu' = [tmu EXCEPT ![tp] = t]
  /\ pc' = [pc EXCEPT ![t] = IF ~logNil /\ Len(persisted[tp]) > 0 THEN "S_replay" ELSE "S_noreplay"]
  /\ UNCHANGED <<pm, closev, rwReaders, rwPending, rwWmu, rblocked, reg, snap, sent, sstate, settle, subv, got, persisted, logNil, nacksLeft, histv>>
SReplay(s) ==
  LET t == SubC(s)  tp == SubTopic[s]  rep == pc[t] = "S_replay" IN
  /\ pc[t] \in {"S_replay", "S_noreplay"}
  /\ IF rep /\ logNil
       THEN \* the log was dropped between the look-up and the reads: index out of range
            /\ panicked' = TRUE /\ UNCHANGED <<reg, sstate, sched>>
       ELSE /\ reg' = [reg EXCEPT ![tp] = @ \cup {s}]
            /\ sstate' = [x \in Senders |-> IF rep /\ x[2] = s /\ InLog(tp, x[1]) THEN "lock" ELSE sstate[x]]
            /\ sched'  = [x \in Senders |-> IF rep /\ x[2] = s /\ InLog(tp, x[1]) THEN sched[x] + 1 ELSE sched[x]]
            /\ UNCHANGED panicked
  /\ WUnlockVars /\ tmu' = [tmu EXCEPT ![tp] = NoT]
  /\ pc' = [pc EXCEPT ![t] = "done", ![Tear(s)] = "T_wait"]
  /\ UNCHANGED <<pm, closev, snap, sent, settle, subv, got, persisted, logNil, nacksLeft, recvd, acked, perr>>

\* ------------------------------------------------------------------ tear-down goroutine of a subscription
Cancel(s) ==
  /\ s \in Cancels /\ ~cancelled[s] /\ pc[Tear(s)] # "off" /\ cancelled' = [cancelled EXCEPT ![s] = TRUE]
  /\ UNCHANGED <<pc, pm, closev, lockv, reg, snap, sent, sstate, settle, out, outClosed, sClosing, sClosed, sendMu, got, persisted, logNil, nacksLeft, histv>>

\* the goroutine wakes on the subscription's context or on the Pub/Sub's closing signal (when both are there, on either)
TWake(s) ==
  LET t == Tear(s) IN
  /\ pc[t] = "T_wait"
  /\ \/ /\ (IF MutTearIsClosed THEN closing ELSE (cancelled[s] \/ closing))
        /\ sClosing' = [sClosing EXCEPT ![s] = TRUE] /\ Goto(t, "T_sendmu")
     \/ /\ MutTearIsClosed /\ cancelled[s]                     \* woken by its context: asks isClosed() first
        /\ Goto(t, "T_isclosed") /\ UNCHANGED sClosing
  /\ UNCHANGED <<pm, closev, lockv, reg, snap, sent, sstate, settle, out, outClosed, sClosed, sendMu, cancelled, got, persisted, logNil, nacksLeft, histv>>
TIsClosed(s) ==
  LET t == Tear(s) IN
  /\ pc[t] = "T_isclosed" /\ closedMu = NoT                    \* (lock, look, unlock)
  /\ sClosing' = [sClosing EXCEPT ![s] = TRUE] /\ Goto(t, "T_sendmu")
  /\ UNCHANGED <<pm, closev, lockv, reg, snap, sent, sstate, settle, out, outClosed, sClosed, sendMu, cancelled, got, persisted, logNil, nacksLeft, histv>>

TCloseOut(s) ==
  LET t == Tear(s) IN
  /\ pc[t] = "T_sendmu" /\ sendMu[s] = NoT
  /\ panicked' = (panicked \/ outClosed[s])                       \* close of closed channel
  /\ sClosed' = [sClosed EXCEPT ![s] = TRUE] /\ outClosed' = [outClosed EXCEPT ![s] = TRUE]
  /\ Goto(t, "T_lock")
  /\ UNCHANGED <<pm, closev, lockv, reg, snap, sent, sstate, settle, out, sClosing, sendMu, cancelled, got, persisted, logNil, nacksLeft, sched, recvd, acked, perr>>

TAnnounce(s) ==
  /\ WAnnounce(Tear(s), "T_lock", "T_acq")
  /\ UNCHANGED <<pm, closev, rwReaders, rblocked, tmu, reg, snap, sent, sstate, settle, subv, got, persisted, logNil, nacksLeft, histv>>

TRemove(s) ==
  LET t == Tear(s)  tp == SubTopic[s] IN
  /\ pc[t] = "T_acq" /\ WAcquired(t) /\ tmu[tp] = NoT
  /\ panicked' = (panicked \/ s \notin reg[tp])                   \* "cannot remove subscriber, not found"
  /\ reg' = [reg EXCEPT ![tp] = @ \ {s}] /\ wg' = wg - 1 /\ WUnlockVars /\ Goto(t, "done")
  /\ UNCHANGED <<pm, closed, closing, closedMu, tmu, snap, sent, sstate, settle, subv, got, persisted, logNil, nacksLeft, sched, recvd, acked, perr>>

\* ------------------------------------------------------------------ sender goroutine per (m, s)
SendLock(x) ==
  LET s == x[2] IN
  /\ sstate[x] = "lock" /\ sendMu[s] = NoT /\ sendMu' = [sendMu EXCEPT ![s] = x]
  /\ sstate' = [sstate EXCEPT ![x] = "loop"]
  /\ UNCHANGED <<pc, pm, closev, lockv, reg, snap, sent, settle, out, outClosed, sClosing, sClosed, cancelled, got, persisted, logNil, nacksLeft, histv>>

SendDone(x) == /\ sendMu' = [sendMu EXCEPT ![x[2]] = NoT] /\ sstate' = [sstate EXCEPT ![x] = "done"]

SendLoop(x) ==
  LET s == x[2] IN
  /\ sstate[x] = "loop"
  /\ \/ /\ sClosed[s] /\ SendDone(x) /\ UNCHANGED <<out, settle, panicked>>
     \/ /\ ~sClosed[s] /\ sClosing[s] /\ SendDone(x) /\ UNCHANGED <<out, settle, panicked>>
     \/ /\ ~sClosed[s] /\ Len(out[s]) < Buf + 1               \* slot Buf+1 models the rendezvous with a ready receiver
        /\ (Len(out[s]) < Buf \/ (pc[Cons(s)] = "C_recv" /\ got[s] = None))
        /\ panicked' = (panicked \/ outClosed[s])             \* send on closed channel
        /\ out' = [out EXCEPT ![s] = Append(@, x[1])]
        /\ settle' = [settle EXCEPT ![x] = "none"]
        /\ sstate' = [sstate EXCEPT ![x] = "wait"] /\ UNCHANGED sendMu
  /\ UNCHANGED <<pc, pm, closev, lockv, reg, snap, sent, outClosed, sClosing, sClosed, cancelled, got, persisted, logNil, nacksLeft, sched, recvd, acked, perr>>

SendWait(x) ==
  LET s == x[2] IN
  /\ sstate[x] = "wait"
  /\ \/ settle[x] = "ack" /\ SendDone(x)
     \/ settle[x] = "nack" /\ sstate' = [sstate EXCEPT ![x] = "loop"] /\ UNCHANGED sendMu
     \/ sClosing[s] /\ SendDone(x)
  /\ UNCHANGED <<pc, pm, closev, lockv, reg, snap, sent, settle, out, outClosed, sClosing, sClosed, cancelled, got, persisted, logNil, nacksLeft, histv>>

\* ------------------------------------------------------------------ consumer (environment)
CRecv(s) ==
  LET t == Cons(s) IN
  /\ pc[t] = "C_recv" /\ out[s] # << >> /\ got[s] = None
  /\ got' = [got EXCEPT ![s] = Head(out[s])] /\ out' = [out EXCEPT ![s] = Tail(@)]
  /\ recvd' = [recvd EXCEPT ![<<Head(out[s]), s>>] = @ + 1]
  /\ IF Republish[s] # None /\ ~sent[Republish[s]] /\ Cur(t) = None
       THEN pm' = [pm EXCEPT ![t] = [cur |-> Republish[s], rest |-> << >>]] /\ Goto(t, "P_check")
       ELSE Goto(t, "C_settle") /\ UNCHANGED pm
  /\ UNCHANGED <<closev, lockv, reg, snap, sent, sstate, settle, outClosed, sClosing, sClosed, sendMu, cancelled, persisted, logNil, nacksLeft, sched, acked, perr, panicked>>

CAck(s) ==
  LET t == Cons(s)  x == <<got[s], s>> IN
  /\ pc[t] = "C_settle"
  /\ settle' = [settle EXCEPT ![x] = "ack"] /\ acked' = [acked EXCEPT ![x] = TRUE]
  /\ got' = [got EXCEPT ![s] = None] /\ Goto(t, "C_recv")
  /\ UNCHANGED <<pm, closev, lockv, reg, snap, sent, sstate, subv, persisted, logNil, nacksLeft, sched, recvd, perr, panicked>>

CNack(s) ==
  LET t == Cons(s)  x == <<got[s], s>> IN
  /\ pc[t] = "C_settle" /\ nacksLeft > 0
  /\ settle' = [settle EXCEPT ![x] = "nack"] /\ nacksLeft' = nacksLeft - 1
  /\ got' = [got EXCEPT ![s] = None] /\ Goto(t, "C_recv")
  /\ UNCHANGED <<pm, closev, lockv, reg, snap, sent, sstate, subv, persisted, logNil, histv>>

\* ------------------------------------------------------------------ Close
XStart ==
  /\ pc[Closer] = "X_start" /\ closedMu = NoT /\ closedMu' = Closer /\ closed' = TRUE /\ closing' = TRUE
  /\ logNil' = (IF MutDropLogEarly THEN TRUE ELSE logNil)
  /\ Goto(Closer, "X_wait")
  /\ UNCHANGED <<pm, wg, lockv, reg, snap, sent, sstate, settle, subv, got, persisted, nacksLeft, histv>>

XWait ==
  /\ pc[Closer] = "X_wait" /\ wg = 0 /\ logNil' = TRUE /\ closedMu' = NoT /\ Goto(Closer, "done")
  /\ UNCHANGED <<pm, closed, closing, wg, lockv, reg, snap, sent, sstate, settle, subv, got, persisted, nacksLeft, histv>>

Next ==
  \/ \E t \in PubThreads : PCheck(t) \/ PRLock(t) \/ PRAdmitted(t) \/ PTmu(t) \/ PPersistSend(t) \/ PWait(t) \/ PUnlock(t) \/ PNext(t) \/ PRet(t)
  \/ \E s \in Subs : SStart(s) \/ SAnnounce(s) \/ SRegister(s) \/ SSnapshot(s) \/ SReplay(s) \/ Cancel(s) \/ TWake(s) \/ TIsClosed(s) \/ TCloseOut(s) \/ TAnnounce(s) \/ TRemove(s)
                     \/ CRecv(s) \/ CAck(s) \/ CNack(s)
  \/ \E x \in Senders : SendLock(x) \/ SendLoop(x) \/ SendWait(x)
  \/ XStart \/ XWait

Spec == Init /\ [][Next]_vars
FairSpec == Spec /\ WF_vars(Next)

-----------------------------------------------------------------------------
\* C07: no panic (close of closed channel, send on closed channel, nil-map write, subscriber not found)
NoPanic == ~panicked
\* C05: at most one unsettled message per subscription -- at most one sender of s is past the send
OneUnsettled == \A s \in Subs : Cardinality({x \in Senders : x[2] = s /\ sstate[x] = "wait"}) <= 1
\* C04/C11: a (message, subscription) pair gets at most one sender goroutine: never both replayed and sent live
OneSenderPerPair == \A x \in Senders : sched[x] <= 1
\* a delivery is repeated only after a Nack: deliveries <= 1 + nacks used
NoSpuriousRedelivery == \A x \in Senders : recvd[x] <= 1 + (NackBudget - nacksLeft)
\* only messages of the subscription's topic are delivered
OnlyOwnTopic == \A x \in Senders : recvd[x] > 0 => MsgTopic[x[1]] = SubTopic[x[2]]
\* C05 blocking mode: Publish has returned => every subscriber of the snapshot acked or was torn down (or closing)
BlockingReturn ==
  Blocking => \A p \in Pubs : (pc[Pub(p)] = "done" /\ ~perr[Pub(p)]) =>
                 (closing \/ \A m \in CallMsgs(p) : \A s \in snap[m] : acked[<<m, s>>] \/ sClosing[s])
\* C05 blocking mode: the messages of one Publish call are handed over one after the other --
\* a message is sent only after its predecessor in the call was acked by (or is being torn down for) its whole snapshot
BatchOrder ==
  Blocking => \A p \in Pubs : \A i \in DOMAIN PubRest[p] :
                 LET prev == IF i = 1 THEN PubMsg[p] ELSE PubRest[p][i - 1] IN
                 sent[PubRest[p][i]] => (closing \/ \A s \in snap[prev] : acked[<<prev, s>>] \/ sClosing[s])
\* C07: after Close has returned every output channel is closed and nothing is registered
AfterClose == (DoClose /\ pc[Closer] = "done") => \A s \in Subs : (pc[Tear(s)] # "off" => outClosed[s]) /\ reg[SubTopic[s]] = {}
\* no state without successor in which a call is still pending (dead-lock of API calls)
Pending == (\E p \in Pubs : pc[Pub(p)] # "done") \/ (DoClose /\ pc[Closer] # "done") \/ (\E s \in Subs : pc[SubC(s)] \notin {"done"})
NoStuckCall == ~(~ENABLED Next /\ Pending)
\* C04/C11 completeness, evaluated in terminal states without Close/cancel: every live subscription of the topic
\* acked every message it was owed (snapshot member, or, persistent, any message of its topic)
Terminal == ~ENABLED Next
Complete ==
  (Terminal /\ ~DoClose /\ Cancels = {}) =>
     \A x \in Senders :
        (sent[x[1]] /\ pc[SubC(x[2])] = "done" /\ MsgTopic[x[1]] = SubTopic[x[2]] /\ (Persistent \/ x[2] \in snap[x[1]]))
            => acked[x]

\* liveness (fair config): every Publish returns, Close returns
PubsReturn == <>(\A p \in Pubs : pc[Pub(p)] = "done")
CloseReturns == DoClose => <>(pc[Closer] = "done")
=============================================================================
