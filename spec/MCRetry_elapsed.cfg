SPECIFICATION MSpec
CONSTANTS
  MaxT = 7
  MCfg <- CfgB
INVARIANTS AttemptsBounded HooksBounded NoAttemptAfterSuccess ResultIsLast FailureOnlyWhenAllFailed EarlyExitJustified
CHECK_DEADLOCK FALSE
