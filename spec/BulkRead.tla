------------------------------ MODULE BulkRead ------------------------------
(* subscriber.BulkRead / BulkReadWithDeduplication (message/subscriber/read.go) -- beyond the
   listed properties (extra check X01).

   The reader takes messages from a channel one after the other, Acks every message it takes, and stops
   when it holds `limit` messages, when the channel is closed, or when no message arrives for `timeout`
   (the timer restarts with every message).  With deduplication a UUID already held is taken and Acked
   but not kept.  It returns what it holds and whether that is `limit` messages.

   cfg      [limit, timeout, slack, dedup]     times in microseconds
   held     sequence of UUIDs kept so far       taken: number of messages taken
   stopped  the reader has stopped (nothing is taken afterwards)
   A message offered `gap` after the previous take (or the start) and found Acked afterwards was taken:
   legal iff the reader had not stopped, holds fewer than `limit`, and gap <= timeout + slack.
   A message found NOT taken: legal iff the reader could have stopped: it holds `limit`, or
   gap >= timeout - slack, or it had stopped before.                                                  *)
EXTENDS Naturals, Sequences, FiniteSets, TLC

VARIABLES cfg, held, stopped
rvars == <<cfg, held, stopped>>
RInit(c) == cfg = c /\ held = << >> /\ stopped = FALSE
InHeld(u) == \E i \in 1..Len(held) : held[i] = u

Offer(u, gap, taken, acked) ==
    /\ UNCHANGED cfg /\ acked = taken                                         \* taken messages are Acked, the others untouched
    /\ IF taken
       THEN /\ ~stopped /\ Len(held) < cfg.limit /\ gap <= cfg.timeout + cfg.slack
            /\ held' = IF cfg.dedup /\ InHeld(u) THEN held ELSE Append(held, u)
            /\ UNCHANGED stopped
       ELSE /\ stopped \/ Len(held) >= cfg.limit \/ gap >= cfg.timeout - cfg.slack
            /\ stopped' = TRUE /\ UNCHANGED held
\* the channel is closed: the reader stops at once
Closed == stopped' = TRUE /\ UNCHANGED <<cfg, held>>
\* what BulkRead returned, and when (measured from the last take / the start)
Return(got, all, wait) ==
    /\ got = held /\ all = (Len(held) = cfg.limit)
    /\ (Len(held) < cfg.limit /\ ~stopped) => wait >= cfg.timeout - cfg.slack      \* it did wait for the timeout
    /\ UNCHANGED rvars
=============================================================================
