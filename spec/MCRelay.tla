------------------------------- MODULE MCRelay -------------------------------
(* Small exhaustive exploration of Relay.tla: 2 messages, every component, valid / invalid
   envelopes, destination accepting or failing each call, redelivery after Nack.          *)
EXTENDS Relay
Ms == {"m1", "m2"}
Rec(m, v, r) == [uuid |-> m, payload |-> "p", meta |-> IF r = "none" THEN [k |-> "v"] ELSE [k |-> "v", _watermill_requeuer_retries |-> r], valid |-> v, dest |-> "d"]
MInit == /\ comp \in {"forwarder", "fanin", "requeuer"} /\ ackInvalid \in BOOLEAN
         /\ inp = << >> /\ att = << >> /\ called = << >> /\ outcome = << >> /\ acked = {}
MNext == \E m \in Ms :
            \/ \E v \in BOOLEAN, r \in {"none", "3", "x"} :
                   (IF m \in DOMAIN att THEN att[m] < 2 ELSE TRUE) /\ (IF m \in DOMAIN inp THEN (IF inp[m].valid THEN called[m] = 1 ELSE TRUE) ELSE TRUE) /\ Consume(m, Rec(m, v \/ comp # "forwarder", r))
            \/ \E oc \in {"accept", "error"} : m \in DOMAIN inp /\ DCall(m, inp[m].dest, inp[m].uuid, inp[m].payload, ExpectedMeta(comp, inp[m].meta), oc, "none")
            \/ \E k \in {"ack", "nack"} : Settle(m, k)
MSpec == MInit /\ [][MNext]_rvars
RetriesByOne == \A m \in DOMAIN inp : comp = "requeuer" =>
                   ToNat(ExpectedMeta(comp, inp[m].meta)[RetriesKey]) = Prev(inp[m].meta) + 1
=============================================================================
