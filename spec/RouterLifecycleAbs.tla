-------------------------- MODULE RouterLifecycleAbs --------------------------
(* Abstract specification of the Router's lifecycle API (property C10) over
   observable events.

   added    h :> publisher id            handlers registered with AddHandler
   subs     h :> number of Subscribe calls made for h's subscription
   atRun    handlers that were registered when Run was called
   runs     number of Run calls so far;  runRet: the first Run has returned
   started / stopReq / stopped           Started() seen closed / Stop() called / Stopped() seen closed
   ending   the router has a reason to close itself: Run context cancelled,
            every handler stopped, or Close called                               *)
EXTENDS Naturals, Sequences, FiniteSets, TLC

VARIABLES added, subs, atRun, runs, runRet, started, stopReq, stopped, ending, rhPend, closedSeen
lvars == <<added, subs, atRun, runs, runRet, started, stopReq, stopped, ending, rhPend, closedSeen>>

Upd(f, k, v) == (k :> v) @@ f
LInit0 == /\ added = << >> /\ subs = << >> /\ atRun = {} /\ runs = 0 /\ runRet = FALSE /\ started = {} /\ stopReq = {}
          /\ stopped = {} /\ ending = FALSE /\ rhPend = << >> /\ closedSeen = FALSE

AddHandler(h, p) == /\ h \notin DOMAIN added /\ added' = Upd(added, h, p) /\ subs' = Upd(subs, h, 0)
                    /\ UNCHANGED <<atRun, runs, runRet, started, stopReq, stopped, ending, rhPend, closedSeen>>
\* each handler subscribes exactly once, however often RunHandlers is called
Subscribed(h) == /\ h \in DOMAIN added /\ subs[h] = 0 /\ subs' = [subs EXCEPT ![h] = 1]
                 /\ UNCHANGED <<added, atRun, runs, runRet, started, stopReq, stopped, ending, rhPend, closedSeen>>
RunCall == /\ runs' = runs + 1 /\ atRun' = IF runs = 0 THEN DOMAIN added ELSE atRun
           /\ UNCHANGED <<added, subs, runRet, started, stopReq, stopped, ending, rhPend, closedSeen>>
\* Running() is closed only after every handler registered before Run holds its subscription
RunningSeen == /\ runs >= 1 /\ \A h \in atRun : subs[h] = 1
               /\ UNCHANGED lvars
\* a second Run returns an error; the first returns nil, and only once the router has a reason to end
RunRetFirst(ok) == /\ runs >= 1 /\ ~runRet /\ ok /\ ending /\ runRet' = TRUE
                   /\ UNCHANGED <<added, subs, atRun, runs, started, stopReq, stopped, ending, rhPend, closedSeen>>
RunRetSecond(ok) == /\ runs >= 2 /\ ~ok /\ UNCHANGED lvars
\* RunHandlers: when it returns, every handler registered before the call holds its subscription
RHCall(i) == /\ rhPend' = Upd(rhPend, i, DOMAIN added)
             /\ UNCHANGED <<added, subs, atRun, runs, runRet, started, stopReq, stopped, ending, closedSeen>>
RHRet(i, ok) == /\ i \in DOMAIN rhPend
                /\ ok => \A h \in rhPend[i] : subs[h] = 1
                /\ ~ok => (runs = 0 \/ ending)
                /\ rhPend' = [x \in DOMAIN rhPend \ {i} |-> rhPend[x]]
                /\ UNCHANGED <<added, subs, atRun, runs, runRet, started, stopReq, stopped, ending, closedSeen>>
StartedSeen(h) == /\ h \in DOMAIN added /\ subs[h] = 1 /\ started' = started \cup {h}
                  /\ UNCHANGED <<added, subs, atRun, runs, runRet, stopReq, stopped, ending, rhPend, closedSeen>>
\* once Started() is closed Stop() is usable (a panic or a nil Stopped() channel matches no action)
StopCall(h) == /\ h \in started /\ stopReq' = stopReq \cup {h}
               /\ ending' = (ending \/ stopReq \cup {h} = DOMAIN added)
               /\ UNCHANGED <<added, subs, atRun, runs, runRet, started, stopped, rhPend, closedSeen>>
StoppedSeen(h) == /\ h \in stopReq \/ ending
                  /\ stopped' = stopped \cup {h}
                  /\ UNCHANGED <<added, subs, atRun, runs, runRet, started, stopReq, ending, rhPend, closedSeen>>
\* a message sent to handler h: it must be handled unless h (or a handler sharing its publisher) was stopped or the router is ending
Probe(h, ok) == /\ h \in DOMAIN added /\ subs[h] = 1
                /\ (~ending /\ \A g \in stopReq : added[g] # added[h]) => ok
                /\ UNCHANGED lvars
CancelRun == ending' = TRUE /\ UNCHANGED <<added, subs, atRun, runs, runRet, started, stopReq, stopped, rhPend, closedSeen>>
ClosedSeen == (ending \/ stopReq = DOMAIN added) /\ closedSeen' = TRUE /\ UNCHANGED <<added, subs, atRun, runs, runRet, started, stopReq, stopped, ending, rhPend>>
\* when the last handler ended or the Run context was cancelled the router closed itself and Run returned nil
QuiescentL == /\ DOMAIN rhPend = {}
              /\ (ending /\ runs >= 1) => (runRet /\ closedSeen)
              /\ stopReq \subseteq stopped
=============================================================================
