-------------------------- MODULE RouterLifecycleAbs --------------------------
(* Abstract specification of the Router's lifecycle API (property C10) over
   observable events.

   added    h :> publisher id            handlers registered with AddHandler
   subs     h :> number of Subscribe calls made for h's subscription
   atRun    handlers that were registered when Run was called
   runs     number of Run calls so far;  runRet: the first Run has returned
   started / stopReq / stopped           Started() seen closed / Stop() called / Stopped() seen closed
   cancelled  the Run context has been cancelled
   ctxOf    h :> "run" | "fresh": the context h's subscription was made with (the Run context or
            another one handed to RunHandlers); cancelling the Run context ends exactly the former
   plugins  sequence of [id, ok] registered with AddPlugin;  pran: how many of them Run has executed
   ending   the router has a reason to close itself: at least one handler was added and every
            added handler has ended (stopped, or subscribed with the cancelled Run context)       *)
EXTENDS Naturals, Sequences, FiniteSets, TLC

VARIABLES added, subs, atRun, runs, runRet, started, stopReq, stopped, ending, rhPend, closedSeen, cancelled, ctxOf, plugins, pran
lvars == <<added, subs, atRun, runs, runRet, started, stopReq, stopped, ending, rhPend, closedSeen, cancelled, ctxOf, plugins, pran>>

Upd(f, k, v) == (k :> v) @@ f
LInit0 == /\ added = << >> /\ subs = << >> /\ atRun = {} /\ runs = 0 /\ runRet = FALSE /\ started = {} /\ stopReq = {}
          /\ stopped = {} /\ ending = FALSE /\ rhPend = << >> /\ closedSeen = FALSE /\ cancelled = FALSE /\ ctxOf = << >> /\ plugins = << >> /\ pran = 0

\* handlers that have (a reason to have) ended, and whether that leaves the router without work
Ended(sr, canc, cx) == sr \cup {h \in DOMAIN cx : canc /\ cx[h] = "run"}
AllEnded(sr, canc, cx) == DOMAIN added # {} /\ DOMAIN added \subseteq Ended(sr, canc, cx)

AddHandler(h, p) == /\ h \notin DOMAIN added /\ added' = Upd(added, h, p) /\ subs' = Upd(subs, h, 0)
                    /\ UNCHANGED <<atRun, runs, runRet, started, stopReq, stopped, ending, rhPend, closedSeen, cancelled, ctxOf, plugins, pran>>
\* each handler subscribes exactly once, however often RunHandlers is called
PluginsDone == pran = Len(plugins) /\ \A i \in 1..Len(plugins) : plugins[i].ok
\* plugins run once, in registration order, when Run starts and before any handler subscribes; the first failing one aborts Run
AddPlugin(i, ok) == /\ runs = 0 /\ plugins' = Append(plugins, [id |-> i, ok |-> ok])
                    /\ UNCHANGED <<added, subs, atRun, runs, runRet, started, stopReq, stopped, ending, rhPend, closedSeen, cancelled, ctxOf, pran>>
PluginRan(i) == /\ runs >= 1 /\ pran < Len(plugins) /\ plugins[pran + 1].id = i
                /\ \A k \in 1..pran : plugins[k].ok
                /\ \A h \in DOMAIN subs : subs[h] = 0
                /\ pran' = pran + 1
                /\ UNCHANGED <<added, subs, atRun, runs, runRet, started, stopReq, stopped, ending, rhPend, closedSeen, cancelled, ctxOf, plugins>>
\* a second AddHandler with the name of a live handler panics (DuplicateHandlerNameError) and changes nothing
AddDuplicate(h, panicked) == h \in DOMAIN added /\ h \notin stopped /\ panicked /\ UNCHANGED lvars
Subscribed(h, k) == /\ h \in DOMAIN added /\ subs[h] = 0 /\ subs' = [subs EXCEPT ![h] = 1]
                    /\ PluginsDone
                    /\ ctxOf' = Upd(ctxOf, h, k)
                    /\ ending' = (ending \/ AllEnded(stopReq, cancelled, Upd(ctxOf, h, k)))
                    /\ UNCHANGED <<added, atRun, runs, runRet, started, stopReq, stopped, rhPend, closedSeen, cancelled, plugins, pran>>
RunCall == /\ runs' = runs + 1 /\ atRun' = IF runs = 0 THEN DOMAIN added ELSE atRun
           /\ UNCHANGED <<added, subs, runRet, started, stopReq, stopped, ending, rhPend, closedSeen, cancelled, ctxOf, plugins, pran>>
\* Running() is closed only after every handler registered before Run holds its subscription
RunningSeen == /\ runs >= 1 /\ \A h \in atRun : subs[h] = 1
               /\ UNCHANGED lvars
\* a second Run returns an error; the first returns nil, and only once the router has a reason to end
RunRetFirst(ok) == /\ runs >= 1 /\ ~runRet /\ runRet' = TRUE
                   /\ IF ok THEN ending /\ PluginsDone
                            ELSE pran >= 1 /\ ~plugins[pran].ok          \* the error of the failing plugin
                   /\ UNCHANGED <<added, subs, atRun, runs, started, stopReq, stopped, ending, rhPend, closedSeen, cancelled, ctxOf, plugins, pran>>
RunRetSecond(ok) == /\ runs >= 2 /\ ~ok /\ UNCHANGED lvars
\* RunHandlers: when it returns, every handler registered before the call holds its subscription
RHCall(i) == /\ rhPend' = Upd(rhPend, i, DOMAIN added)
             /\ UNCHANGED <<added, subs, atRun, runs, runRet, started, stopReq, stopped, ending, closedSeen, cancelled, ctxOf, plugins, pran>>
RHRet(i, ok) == /\ i \in DOMAIN rhPend
                /\ ok => \A h \in rhPend[i] : subs[h] = 1
                /\ ~ok => (runs = 0 \/ ending)
                /\ rhPend' = [x \in DOMAIN rhPend \ {i} |-> rhPend[x]]
                /\ UNCHANGED <<added, subs, atRun, runs, runRet, started, stopReq, stopped, ending, closedSeen, cancelled, ctxOf, plugins, pran>>
StartedSeen(h) == /\ h \in DOMAIN added /\ subs[h] = 1 /\ started' = started \cup {h}
                  /\ UNCHANGED <<added, subs, atRun, runs, runRet, stopReq, stopped, ending, rhPend, closedSeen, cancelled, ctxOf, plugins, pran>>
\* once Started() is closed Stop() is usable (a panic or a nil Stopped() channel matches no action)
StopCall(h) == /\ h \in started /\ stopReq' = stopReq \cup {h}
               /\ ending' = (ending \/ AllEnded(stopReq \cup {h}, cancelled, ctxOf))
               /\ UNCHANGED <<added, subs, atRun, runs, runRet, started, stopped, rhPend, closedSeen, cancelled, ctxOf, plugins, pran>>
StoppedSeen(h) == /\ h \in Ended(stopReq, cancelled, ctxOf) \/ ending
                  /\ stopped' = stopped \cup {h}
                  /\ UNCHANGED <<added, subs, atRun, runs, runRet, started, stopReq, ending, rhPend, closedSeen, cancelled, ctxOf, plugins, pran>>
\* a message sent to handler h: it must be handled unless h (or a handler sharing its publisher) was stopped or the router is ending
Probe(h, ok) == /\ h \in DOMAIN added /\ subs[h] = 1
                /\ (~ending /\ h \notin Ended(stopReq, cancelled, ctxOf) /\ \A g \in stopReq : added[g] # added[h]) => ok
                /\ UNCHANGED lvars
\* cancelling the Run context ends the handlers subscribed with it; a router that has no handler yet keeps running
CancelRun == /\ cancelled' = TRUE /\ ending' = (ending \/ AllEnded(stopReq, TRUE, ctxOf))
             /\ UNCHANGED <<added, subs, atRun, runs, runRet, started, stopReq, stopped, rhPend, closedSeen, ctxOf, plugins, pran>>
\* Close called by the user: every handler ends, Run returns nil
CloseCall == ending' = TRUE /\ UNCHANGED <<added, subs, atRun, runs, runRet, started, stopReq, stopped, rhPend, closedSeen, cancelled, ctxOf, plugins, pran>>
ClosedSeen == ending /\ closedSeen' = TRUE /\ UNCHANGED <<added, subs, atRun, runs, runRet, started, stopReq, stopped, ending, rhPend, cancelled, ctxOf, plugins, pran>>
\* when the last handler ended or the Run context was cancelled the router closed itself and Run returned nil
\* ... and the Stopped() channel of every started handler is closed once the router has ended (unstopped = those that are not)
QuiescentL(unstopped) ==
              /\ DOMAIN rhPend = {}
              /\ (ending /\ runs >= 1) => (runRet /\ closedSeen /\ unstopped = << >>)
              /\ stopReq \subseteq stopped
=============================================================================
