---------------------------- MODULE SubDecorator ----------------------------
(* message.MessageTransformSubscriberDecorator (message/decorator.go) at the grain of its
   goroutines: Subscribe calls, one forwarding goroutine ("pump") per subscription, Close,
   and -- as environment -- the inner subscriber, the contexts and the consumers.

     Subscribe(ctx, topic)   in, err := inner.Subscribe            SubInner
                             lock; wg.Add(1); unlock               SubLock / SubAdd / SubUnlock
                             go pump; return out                   SubGo
     pump                    for msg := range in                   InnerSend (rendezvous) / PumpSeesClosed
                               select { out <- msg                 PumpSend        (a consumer is receiving)
                                        <-closing                  PumpDropClosing (message given up, unsettled)
                                        <-ctx.Done() }             PumpDropCtx
                             close(out); wg.Done()                 PumpCloseOut / PumpDone
     Close()                 inner.Close()                         ClInnerStart / ClInnerDone
                             close(closing)                        ClSignal
                             lock; wg.Wait(); unlock               ClLock / ClWait / ClUnlock

   Environment: the inner subscriber hands out up to K messages per subscription on an unbuffered
   channel and closes that channel once the subscription's context is done or its own Close
   is under way (the Subscriber contract); it may still hand out messages while its Close is
   in progress.  A consumer may stop receiving at any time, for good.  Contexts are cancelled
   at any time.

   Switches (TLC must reject each):
     LegacyPlainSend   the pump sends with a plain `out <- msg` (repaired defect 70bb341): Close
                       never returns when a consumer stopped reading                 -> CloseReturns
     LegacyNoWgLock    Add and Wait are not serialised (repaired defect 0f5c64a)      -> NoAddDuringWait
     MutClosingFirst   Close raises `closing` before it closes the inner subscriber (seeded change
                       C20-7): messages handed out during the inner Close are given up
                       although their consumer is receiving                          -> DropJustified
     MutSharedCtx      the pumps watch the context of the LAST Subscribe call (seeded change
                       C07-7): cancelling one subscription makes another one drop    -> DropJustified *)
EXTENDS Naturals, Sequences, FiniteSets, TLC

CONSTANTS Subs, K, Closers, LegacyPlainSend, LegacyNoWgLock, MutClosingFirst, MutSharedCtx, MutEarlyReturn, MutCheckThenClose

None == "none"

VARIABLES sub,        \* sub[s]   : progress of the Subscribe call: none, lock, add, unlock, go, returned, failed
          inCh,       \* inCh[s]  : the inner subscription's channel: none, open, closed
          left,       \* left[s]  : messages the inner subscriber may still hand out
          pump,       \* pump[s]  : off, recv, hold, closeout, wgdone, done
          held,       \* held[s]  : index of the message the pump holds (0 = none)
          outCh,      \* outCh[s] : open, closed
          got,        \* got[s]   : indices received by the consumer, in order
          drops,      \* drops[s] : set of [i, why, ok]: messages given up; ok = the drop was justified when it was made
          reading,    \* reading[s] : the consumer still receives
          ctxDone,    \* ctxDone[s]
          lastCtx,    \* the subscription of the latest Subscribe call (MutSharedCtx)
          closing,    \* the decorator's closing channel is closed
          wg, wgLock, \* subscribeWg counter, holder of subscribeWgLock
          cl,         \* cl[c]   : Close call of closer c: idle, inner, signal, lock, wait, unlock, done
          innerClosing, innerClosed,
          counted     \* counted[c] : subscriptions whose Add preceded the Wait of closer c
vars == <<sub, inCh, left, pump, held, outCh, got, drops, reading, ctxDone, lastCtx, closing, wg, wgLock, cl, innerClosing, innerClosed, counted>>

Init == /\ sub = [s \in Subs |-> "none"] /\ inCh = [s \in Subs |-> "none"] /\ left = [s \in Subs |-> K]
        /\ pump = [s \in Subs |-> "off"] /\ held = [s \in Subs |-> 0] /\ outCh = [s \in Subs |-> "open"]
        /\ got = [s \in Subs |-> << >>] /\ drops = [s \in Subs |-> {}] /\ reading = [s \in Subs |-> TRUE]
        /\ ctxDone = [s \in Subs |-> FALSE] /\ lastCtx = None /\ closing = FALSE /\ wg = 0 /\ wgLock = None
        /\ cl = [c \in Closers |-> "idle"] /\ innerClosing = FALSE /\ innerClosed = FALSE /\ counted = [c \in Closers |-> {}]

U(vs) == UNCHANGED vs
-----------------------------------------------------------------------------
\* Subscribe
SubInner(s) == /\ sub[s] = "none"
               /\ IF innerClosing
                  THEN sub' = [sub EXCEPT ![s] = "failed"] /\ U(<<inCh, lastCtx>>)       \* a closed subscriber refuses
                  ELSE sub' = [sub EXCEPT ![s] = "lock"] /\ inCh' = [inCh EXCEPT ![s] = "open"] /\ lastCtx' = s
               /\ U(<<left, pump, held, outCh, got, drops, reading, ctxDone, closing, wg, wgLock, cl, innerClosing, innerClosed, counted>>)
SubLock(s) == /\ sub[s] = "lock" /\ (LegacyNoWgLock \/ wgLock = None)
              /\ wgLock' = (IF LegacyNoWgLock THEN wgLock ELSE s)
              /\ sub' = [sub EXCEPT ![s] = "add"]
              /\ U(<<inCh, left, pump, held, outCh, got, drops, reading, ctxDone, lastCtx, closing, wg, cl, innerClosing, innerClosed, counted>>)
SubAdd(s) == /\ sub[s] = "add" /\ wg' = wg + 1 /\ sub' = [sub EXCEPT ![s] = "unlock"]
             /\ U(<<inCh, left, pump, held, outCh, got, drops, reading, ctxDone, lastCtx, closing, wgLock, cl, innerClosing, innerClosed, counted>>)
SubUnlock(s) == /\ sub[s] = "unlock" /\ wgLock' = (IF LegacyNoWgLock THEN wgLock ELSE None)
                /\ sub' = [sub EXCEPT ![s] = "go"]
                /\ U(<<inCh, left, pump, held, outCh, got, drops, reading, ctxDone, lastCtx, closing, wg, cl, innerClosing, innerClosed, counted>>)
SubGo(s) == /\ sub[s] = "go" /\ sub' = [sub EXCEPT ![s] = "returned"] /\ pump' = [pump EXCEPT ![s] = "recv"]
            /\ U(<<inCh, left, held, outCh, got, drops, reading, ctxDone, lastCtx, closing, wg, wgLock, cl, innerClosing, innerClosed, counted>>)

\* inner subscriber (environment)
InnerSend(s) == /\ inCh[s] = "open" /\ left[s] > 0 /\ pump[s] = "recv"
                /\ left' = [left EXCEPT ![s] = @ - 1]
                /\ held' = [held EXCEPT ![s] = K - left[s] + 1]
                /\ pump' = [pump EXCEPT ![s] = "hold"]
                /\ U(<<sub, inCh, outCh, got, drops, reading, ctxDone, lastCtx, closing, wg, wgLock, cl, innerClosing, innerClosed, counted>>)
InnerEnd(s) == /\ inCh[s] = "open" /\ (ctxDone[s] \/ innerClosing)
               /\ inCh' = [inCh EXCEPT ![s] = "closed"]
               /\ U(<<sub, left, pump, held, outCh, got, drops, reading, ctxDone, lastCtx, closing, wg, wgLock, cl, innerClosing, innerClosed, counted>>)
CtxCancel(s) == /\ ~ctxDone[s] /\ sub[s] # "none" /\ ctxDone' = [ctxDone EXCEPT ![s] = TRUE]
                /\ U(<<sub, inCh, left, pump, held, outCh, got, drops, reading, lastCtx, closing, wg, wgLock, cl, innerClosing, innerClosed, counted>>)
StopReading(s) == /\ reading[s] /\ reading' = [reading EXCEPT ![s] = FALSE]
                  /\ U(<<sub, inCh, left, pump, held, outCh, got, drops, ctxDone, lastCtx, closing, wg, wgLock, cl, innerClosing, innerClosed, counted>>)

\* pump
CtxW(s) == IF MutSharedCtx /\ lastCtx # None THEN ctxDone[lastCtx] ELSE ctxDone[s]
Justified(s) == innerClosed \/ ctxDone[s]            \* when a message may be given up: the inner Close has returned, or this subscription was cancelled
PumpSend(s) == /\ pump[s] = "hold" /\ reading[s] /\ outCh[s] = "open"
               /\ got' = [got EXCEPT ![s] = Append(@, held[s])]
               /\ pump' = [pump EXCEPT ![s] = "recv"] /\ held' = [held EXCEPT ![s] = 0]
               /\ U(<<sub, inCh, left, outCh, drops, reading, ctxDone, lastCtx, closing, wg, wgLock, cl, innerClosing, innerClosed, counted>>)
PumpDrop(s, why) == /\ pump[s] = "hold" /\ ~LegacyPlainSend
                    /\ (why = "closing" /\ closing) \/ (why = "ctx" /\ CtxW(s))
                    /\ drops' = [drops EXCEPT ![s] = @ \cup {[i |-> held[s], why |-> why, ok |-> Justified(s)]}]
                    /\ pump' = [pump EXCEPT ![s] = "recv"] /\ held' = [held EXCEPT ![s] = 0]
                    /\ U(<<sub, inCh, left, outCh, got, reading, ctxDone, lastCtx, closing, wg, wgLock, cl, innerClosing, innerClosed, counted>>)
PumpSeesClosed(s) == /\ pump[s] = "recv" /\ inCh[s] = "closed" /\ pump' = [pump EXCEPT ![s] = "closeout"]
                     /\ U(<<sub, inCh, left, held, outCh, got, drops, reading, ctxDone, lastCtx, closing, wg, wgLock, cl, innerClosing, innerClosed, counted>>)
PumpCloseOut(s) == /\ pump[s] = "closeout" /\ outCh' = [outCh EXCEPT ![s] = "closed"] /\ pump' = [pump EXCEPT ![s] = "wgdone"]
                   /\ U(<<sub, inCh, left, held, got, drops, reading, ctxDone, lastCtx, closing, wg, wgLock, cl, innerClosing, innerClosed, counted>>)
PumpDone(s) == /\ pump[s] = "wgdone" /\ wg' = wg - 1 /\ pump' = [pump EXCEPT ![s] = "done"]
               /\ U(<<sub, inCh, left, held, outCh, got, drops, reading, ctxDone, lastCtx, closing, wgLock, cl, innerClosing, innerClosed, counted>>)

\* Close.  Any number of Close calls may overlap (Closers): each goes through the inner subscriber's Close, the (idempotent)
\* closing signal and the wait for the forwarding goroutines, serialised by subscribeWgLock.
First == IF MutClosingFirst THEN "signal" ELSE "inner"
AfterInner == IF MutClosingFirst THEN "lock" ELSE "signal"
AfterSignal == IF MutClosingFirst THEN "inner" ELSE "lock"
Registered == {s \in Subs : sub[s] \in {"unlock", "go", "returned"}}
\* MutEarlyReturn: "already closing" taken for "closed" -- a later Close returns at once when the signal has been given
ClStart(c) == /\ cl[c] = "idle"
              /\ IF MutEarlyReturn /\ closing
                 THEN cl' = [cl EXCEPT ![c] = "done"] /\ counted' = [counted EXCEPT ![c] = Registered]
                 ELSE cl' = [cl EXCEPT ![c] = First] /\ U(<<counted>>)
              /\ U(<<sub, inCh, left, pump, held, outCh, got, drops, reading, ctxDone, lastCtx, closing, wg, wgLock, innerClosing, innerClosed>>)
ClInnerStart(c) == /\ cl[c] = "inner" /\ ~innerClosing /\ innerClosing' = TRUE
                   /\ U(<<sub, inCh, left, pump, held, outCh, got, drops, reading, ctxDone, lastCtx, closing, wg, wgLock, cl, innerClosed, counted>>)
\* the inner Close returns when its subscriptions' channels are closed (a repeated call finds them closed)
ClInnerDone(c) == /\ cl[c] = "inner" /\ innerClosing /\ \A s \in Subs : inCh[s] # "open"
                  /\ innerClosed' = TRUE /\ cl' = [cl EXCEPT ![c] = AfterInner]
                  /\ U(<<sub, inCh, left, pump, held, outCh, got, drops, reading, ctxDone, lastCtx, closing, wg, wgLock, innerClosing, counted>>)
\* The closing signal is given once, whoever comes first (sync.Once).  MutCheckThenClose: "if not closed yet, close" in two steps --
\* two calls that both find the channel open both close it: the second close of a closed channel is a panic (cl[c] = "panic").
ClSignal(c) == /\ cl[c] = "signal"
               /\ IF MutCheckThenClose
                  THEN /\ cl' = [cl EXCEPT ![c] = IF closing THEN AfterSignal ELSE "signal2"] /\ U(<<closing>>)
                  ELSE /\ closing' = TRUE /\ cl' = [cl EXCEPT ![c] = AfterSignal]
               /\ U(<<sub, inCh, left, pump, held, outCh, got, drops, reading, ctxDone, lastCtx, wg, wgLock, innerClosing, innerClosed, counted>>)
ClSignal2(c) == /\ cl[c] = "signal2"
                /\ IF closing THEN cl' = [cl EXCEPT ![c] = "panic"] /\ U(<<closing>>)
                              ELSE closing' = TRUE /\ cl' = [cl EXCEPT ![c] = AfterSignal]
                /\ U(<<sub, inCh, left, pump, held, outCh, got, drops, reading, ctxDone, lastCtx, wg, wgLock, innerClosing, innerClosed, counted>>)
ClLock(c) == /\ cl[c] = "lock" /\ (LegacyNoWgLock \/ wgLock = None)
             /\ wgLock' = (IF LegacyNoWgLock THEN wgLock ELSE c)
             /\ cl' = [cl EXCEPT ![c] = "wait"] /\ counted' = [counted EXCEPT ![c] = Registered]
             /\ U(<<sub, inCh, left, pump, held, outCh, got, drops, reading, ctxDone, lastCtx, closing, wg, innerClosing, innerClosed>>)
ClWait(c) == /\ cl[c] = "wait" /\ wg = 0 /\ cl' = [cl EXCEPT ![c] = "unlock"]
             /\ U(<<sub, inCh, left, pump, held, outCh, got, drops, reading, ctxDone, lastCtx, closing, wg, wgLock, innerClosing, innerClosed, counted>>)
ClUnlock(c) == /\ cl[c] = "unlock" /\ wgLock' = (IF LegacyNoWgLock THEN wgLock ELSE None) /\ cl' = [cl EXCEPT ![c] = "done"]
               /\ U(<<sub, inCh, left, pump, held, outCh, got, drops, reading, ctxDone, lastCtx, closing, wg, innerClosing, innerClosed, counted>>)

PumpStep(s) == PumpSend(s) \/ PumpDrop(s, "closing") \/ PumpDrop(s, "ctx") \/ PumpSeesClosed(s) \/ PumpCloseOut(s) \/ PumpDone(s)
SubStep(s) == SubInner(s) \/ SubLock(s) \/ SubAdd(s) \/ SubUnlock(s) \/ SubGo(s)
ClProgress(c) == ClInnerStart(c) \/ ClInnerDone(c) \/ ClSignal(c) \/ ClSignal2(c) \/ ClLock(c) \/ ClWait(c) \/ ClUnlock(c)
ClStep(c) == ClStart(c) \/ ClProgress(c)
Next == \/ \E s \in Subs : SubStep(s) \/ PumpStep(s) \/ InnerSend(s) \/ InnerEnd(s) \/ CtxCancel(s) \/ StopReading(s)
        \/ \E c \in Closers : ClStep(c)
Spec == Init /\ [][Next]_vars
\* fairness: the decorator's own goroutines and the inner subscriber's duty to close; nothing is assumed of consumers or contexts
FairSpec == /\ Spec
            /\ \A s \in Subs : WF_vars(SubStep(s)) /\ WF_vars(PumpStep(s)) /\ WF_vars(InnerEnd(s))
            /\ \A c \in Closers : WF_vars(ClProgress(c))
-----------------------------------------------------------------------------
TypeOK == /\ wg \in 0..Cardinality(Subs) /\ wgLock \in Subs \cup Closers \cup {None}
          /\ \A s \in Subs : held[s] \in 0..K /\ left[s] \in 0..K
\* WaitGroup discipline: Add never runs while Wait is in progress (Go: "WaitGroup misuse" / data race)
NoAddDuringWait == ~((\E c \in Closers : cl[c] = "wait") /\ \E s \in Subs : sub[s] = "add")
\* the closing signal is raised only after the inner subscriber is closed
ClosingAfterInner == closing => innerClosed
\* a message is given up only when nobody can be expected to take it: after the inner Close, or on a cancelled subscription
DropJustified == \A s \in Subs : \A d \in drops[s] : d.ok
\* what the consumer gets is what the inner subscriber handed out, in order, each once, minus what was given up
InOrderOnce == \A s \in Subs : /\ \A i, j \in 1..Len(got[s]) : i < j => got[s][i] < got[s][j]
                               /\ \A d \in drops[s] : \A i \in 1..Len(got[s]) : got[s][i] # d.i
NothingLostSilently == \A s \in Subs : Len(got[s]) + Cardinality(drops[s]) + (IF held[s] > 0 THEN 1 ELSE 0) = K - left[s]
\* the out channel is closed by its pump only, after the inner channel was closed
OutClosedAfterIn == \A s \in Subs : outCh[s] = "closed" => inCh[s] = "closed"
\* when Close has returned every forwarding goroutine that was counted is gone and its out channel closed
CloseComplete == \A c \in Closers : cl[c] = "done" => \A s \in counted[c] : pump[s] = "done" /\ outCh[s] = "closed"
\* no Close call ever closes the closing channel a second time
NoDoubleSignal == \A c \in Closers : cl[c] # "panic"
\* liveness: Close returns whatever the consumers do; a cancelled subscription's out channel gets closed
CloseReturns == \A c \in Closers : (cl[c] # "idle") ~> (cl[c] = "done")
CancelCloses == \A s \in Subs : (ctxDone[s] /\ pump[s] # "off") ~> (outCh[s] = "closed")
=============================================================================
