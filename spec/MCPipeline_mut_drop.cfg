SPECIFICATION PSpec
CONSTANTS
  K = 2
  Lineages = {"x1","x2"}
  FaultBudget = 1
  MutAckFirst = FALSE
  MutDropOnNack = TRUE
INVARIANTS NoLoss Sound
PROPERTIES AckAfterAccept 
CHECK_DEADLOCK FALSE
