------------------------------ MODULE RelayTrace ------------------------------
(* Trace validation for C17.  Events:
     reset   comp ackinvalid
     consume m uuid payload meta valid dest            (logged before the source hands the message over)
     dcall   m topic uuid payload meta outcome sample  (the scripted destination publisher is called)
     drecv   m sub uuid payload meta                   (FanOut: a subscriber of the fan-out received the message)
     settled m kind
     quiesce expectfanout                              every consumed valid message was acknowledged and relayed *)
EXTENDS Relay, TraceBase
VARIABLES fan
tvars == <<rvars, fan, l>>
TInit == RInit /\ fan = << >> /\ LInit
K == UNCHANGED <<comp, ackInvalid>>
TReset == Is("reset") /\ comp' = Ev.comp /\ ackInvalid' = Ev.ackinvalid /\ inp' = << >> /\ att' = << >> /\ called' = << >>
          /\ outcome' = << >> /\ acked' = {} /\ fan' = << >> /\ Adv
TConsume == Is("consume") /\ Consume(Ev.m, [uuid |-> Ev.uuid, payload |-> Ev.payload, meta |-> Ev.meta, valid |-> Ev.valid, dest |-> Ev.dest])
            /\ UNCHANGED fan /\ Adv
TDCall == Is("dcall") /\ DCall(Ev.m, Ev.topic, Ev.uuid, Ev.payload, Ev.meta, Ev.outcome, Ev.sample) /\ UNCHANGED fan /\ Adv
\* FanOut: the destination is the internal Pub/Sub, observed at its subscribers
TDRecv == /\ Is("drecv") /\ Ev.m \in DOMAIN inp
          /\ Ev.uuid = inp[Ev.m].uuid /\ Ev.payload = inp[Ev.m].payload /\ Ev.meta = inp[Ev.m].meta
          /\ fan' = Upd(fan, <<Ev.m, Ev.sub>>, TRUE) /\ UNCHANGED rvars /\ Adv
TSettled == /\ Is("settled")
            /\ IF comp = "fanout" THEN (Ev.kind = "ack" /\ acked' = acked \cup {Ev.m} /\ UNCHANGED <<comp, ackInvalid, inp, att, called, outcome>>)
                                  ELSE Settle(Ev.m, Ev.kind)
            /\ UNCHANGED fan /\ Adv
TQuiesce == /\ Is("quiesce")
            /\ \A m \in DOMAIN inp : inp[m].valid => m \in acked
            /\ comp = "fanout" => \A m \in DOMAIN inp : \A s \in 1..Ev.fansubs : <<m, s>> \in DOMAIN fan
            /\ AckedImpliesAccepted \/ comp = "fanout"
            /\ UNCHANGED <<rvars, fan>> /\ Adv
TraceInv == comp = "fanout" \/ AckedImpliesAccepted       \* (FanOut's destination is its internal Pub/Sub: observed at its subscribers)
TNext == TReset \/ TConsume \/ TDCall \/ TDRecv \/ TSettled \/ TQuiesce
TSpec == TInit /\ [][TNext]_tvars
=============================================================================
