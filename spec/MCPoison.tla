------------------------------ MODULE MCPoison ------------------------------
EXTENDS Poison
Cases == {[plain |-> FALSE, hok |-> h, accept |-> a, pubok |-> p, inRouter |-> r, meta |-> m, errText |-> "boom", ctxTopic |-> "t", ctxHandler |-> "h", ctxSub |-> "s",
           topic |-> "poison", uuid |-> "u", payload |-> "p"] :
             h \in BOOLEAN, a \in BOOLEAN, p \in BOOLEAN, r \in BOOLEAN,
             m \in {<< >>, [k1 |-> "v"], [reason_poisoned |-> "old", k1 |-> "v"]}}
MInit == \E k \in Cases : PInit(k)
MNext == \/ HCall /\ UNCHANGED << >>
         \/ Filter(TRUE)
         \/ PCall(c.topic, c.uuid, c.payload, ExpectedMeta(c))
         \/ \E r \in {"nil", "same", "both"} : Return(r)
         \/ \E k \in {"ack", "nack"} : Settle(k)
MSpec == MInit /\ [][MNext]_pvars
=============================================================================
