SPECIFICATION FairSpec
CONSTANTS
  H = {"a","b"}
  AllowUserClose = TRUE
  LegacyUnbufferedSignal = FALSE
  MutSignalBeforeAdd = FALSE
INVARIANTS TypeOK NoEarlyClose NeverEmptyClose
PROPERTIES SelfClose
CHECK_DEADLOCK FALSE
