-------------------------------- MODULE Cqrs --------------------------------
(* Dispatch rules of the CQRS processors (components/cqrs) -- property C15.

   A registry is a sequence of handlers  [h |-> id, type |-> type name, fails |-> BOOLEAN, grp |-> group number].
   A message is  [name |-> type name in its metadata ("" = none), wellformed |-> BOOLEAN].
   Processor kinds
     "command", "event" : every handler has its own subscription; `on` is the handler on
                          whose subscription the message arrived
     "group"            : one subscription per group (a processor may have several groups, each with its
                          own handlers: what one group handles says nothing about another); `on` is the
                          group on whose subscription the message arrived; its matching handlers are
                          called in registration order, stopping at the first error
   Flags: ackUnknown (AckOnUnknownEvent), ackErrors (AckCommandHandlingErrors).
   Dispatch(...) = [calls |-> sequence of handler ids invoked, settle |-> "ack" | "nack"].
   A handler is invoked iff the message's type name equals the name of its type (and the payload
   decodes); a payload that does not decode is never acknowledged.                              *)
EXTENDS Naturals, Sequences, TLC

Matches(hd, msg) == hd.type = msg.name

Single(kind, hd, flags, msg) ==
    IF ~Matches(hd, msg)
    THEN [calls |-> << >>, settle |-> IF kind = "command" \/ flags.ackUnknown THEN "ack" ELSE "nack"]
    ELSE IF ~msg.wellformed THEN [calls |-> << >>, settle |-> "nack"]
    ELSE [calls |-> <<hd.h>>,
          settle |-> IF ~hd.fails \/ (kind = "command" /\ flags.ackErrors) THEN "ack" ELSE "nack"]

RECURSIVE Group(_, _, _, _, _)
\* i: next handler to consider; acc: calls so far
Group(reg, i, flags, msg, acc) ==
    IF i > Len(reg)
    THEN [calls |-> acc, settle |-> IF Len(acc) > 0 \/ flags.ackUnknown THEN "ack" ELSE "nack"]
    ELSE IF ~Matches(reg[i], msg) THEN Group(reg, i + 1, flags, msg, acc)
    ELSE IF ~msg.wellformed THEN [calls |-> acc, settle |-> "nack"]
    ELSE IF reg[i].fails THEN [calls |-> Append(acc, reg[i].h), settle |-> "nack"]
    ELSE Group(reg, i + 1, flags, msg, Append(acc, reg[i].h))

Dispatch(kind, reg, flags, msg, on) ==
    IF kind = "group" THEN Group(SelectSeq(reg, LAMBDA x : x.grp = on), 1, flags, msg, << >>)
    ELSE Single(kind, reg[on], flags, msg)
=============================================================================
