SPECIFICATION QFairSpec
CONSTANTS
  Own = 3
  Foreign = 1
  Reads = 1
  LegacyBlockingSend = FALSE
INVARIANTS FinishedAtMostOnce OnlyOwnReplies ClosedMeansFinished
PROPERTIES Terminates
CHECK_DEADLOCK FALSE
