---------------------------- MODULE ThrottleTrace ----------------------------
(* Throttle (C19): handler starts no faster than the configured rate.  The
   middleware waits for a tick of a ticker with period P = duration / count; at
   most one tick can be buffered, so two starts may be arbitrarily close but any
   THREE consecutive starts span at least one period, and k+2 starts need k periods.
   Events: reset(period, slack) ; tstart(t)  -- times in microseconds, in start order *)
EXTENDS Integers, Sequences, TraceBase
VARIABLES period, slack, starts
tvars == <<period, slack, starts, l>>
TInit == period = 0 /\ slack = 0 /\ starts = << >> /\ LInit
TReset == Is("reset") /\ period' = Ev.period /\ slack' = Ev.slack /\ starts' = << >> /\ Adv
TStart == /\ Is("tstart")
          /\ starts' = Append(starts, Ev.t)
          /\ \A i \in 1..Len(starts) :
                LET k == Len(starts) + 1 - i IN      \* starts i .. new one: k+1 starts
                   k >= 2 => Ev.t - starts[i] >= (k - 1) * period - slack
          /\ UNCHANGED <<period, slack>> /\ Adv
TNext == TReset \/ TStart
TSpec == TInit /\ [][TNext]_tvars
=============================================================================
