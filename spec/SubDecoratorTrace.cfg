SPECIFICATION TSpec
CONSTANTS
  Subs = {"s1","s2"}
  K = 3
  Closers = {"c1","c2"}
  LegacyPlainSend = FALSE
  LegacyNoWgLock = FALSE
  MutClosingFirst = FALSE
  MutSharedCtx = FALSE
  MutEarlyReturn = FALSE
  MutCheckThenClose = FALSE
CONSTRAINT HighWater
POSTCONDITION Accepted
INVARIANTS NoAddDuringWait ClosingAfterInner DropJustified InOrderOnce NothingLostSilently OutClosedAfterIn CloseComplete
CHECK_DEADLOCK FALSE
