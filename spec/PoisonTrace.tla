----------------------------- MODULE PoisonTrace -----------------------------
(* Trace validation for C13.  Events: reset(case) hcall filter(same) pcall(topic,uuid,payload,meta)
   ret(r) settled(kind) end.  `end` closes a run: the call must have returned (and, inside a
   Router, the message must have been settled).                                                *)
EXTENDS Poison, TraceBase
tvars == <<pvars, l>>
Dummy == [plain |-> FALSE, hok |-> TRUE, accept |-> FALSE, pubok |-> TRUE, inRouter |-> FALSE, meta |-> << >>, errText |-> "", ctxTopic |-> "", ctxHandler |-> "", ctxSub |-> "",
          topic |-> "", uuid |-> "", payload |-> ""]
TInit == PInit(Dummy) /\ LInit
TReset == Is("reset") /\ c' = Ev.case /\ phase' = "idle" /\ published' = 0 /\ filtered' = 0 /\ result' = "none" /\ settled' = "none" /\ Adv
THCall == Is("hcall") /\ HCall /\ Adv
TFilter == Is("filter") /\ ~c.plain /\ Filter(Ev.same) /\ Adv
\* plain PoisonQueue has no user filter to observe: its (always accepting) filter step is silent
TSilentFilter == c.plain /\ Filter(TRUE) /\ UNCHANGED l
TPCall == Is("pcall") /\ PCall(Ev.topic, Ev.uuid, Ev.payload, Ev.meta) /\ Adv
\* outs (stand-alone use): the middleware touches the error only -- the messages the handler returned come back as they were
TRet == Is("ret") /\ Return(Ev.r) /\ (Has("outs") => Ev.outs = c.houts) /\ Adv
TSettled == Is("settled") /\ Settle(Ev.kind) /\ Adv
TEnd == Is("end") /\ phase = "returned" /\ (c.inRouter => settled # "none") /\ UNCHANGED pvars /\ Adv
TNext == TReset \/ THCall \/ TFilter \/ TSilentFilter \/ TPCall \/ TRet \/ TSettled \/ TEnd
TSpec == TInit /\ [][TNext]_tvars
=============================================================================
