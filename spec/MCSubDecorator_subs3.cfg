SPECIFICATION FairSpec
CONSTANTS
  Subs = {"s1","s2","s3"}
  K = 1
  Closers = {"c1","c2"}
  LegacyPlainSend = FALSE
  LegacyNoWgLock = FALSE
  MutClosingFirst = FALSE
  MutSharedCtx = FALSE
  MutEarlyReturn = FALSE
  MutCheckThenClose = FALSE
INVARIANTS TypeOK NoDoubleSignal NoAddDuringWait ClosingAfterInner DropJustified InOrderOnce NothingLostSilently OutClosedAfterIn CloseComplete

CHECK_DEADLOCK FALSE
