SPECIFICATION MSpec
INVARIANTS AckedImpliesAccepted RetriesByOne
CHECK_DEADLOCK FALSE
