SPECIFICATION Spec
CONSTANTS
  Blocking = FALSE
  Persistent = TRUE
  Buf = 0
  Pubs = {"p1","p2"}
  PubMsg <- PubMsgB
  Msgs = {"m1","m2","m3"}
  MsgTopic <- Topic3
  Subs = {"s1","s2"}
  SubTopic <- SubT1
  PreSubs = {"s1"}
  Republish <- NoRepub2
  NackBudget = 1
  DoClose = FALSE
  Cancels = {}
  LegacyHoldLocks = FALSE
  LegacyNilLog = FALSE
  PubRest <- RestB
  MutBatchPersistFirst = TRUE
  MutDropLogEarly = FALSE
  MutTearIsClosed = FALSE
  MutBatchNoWait = FALSE
  MutPersistOutsideLock = FALSE
INVARIANTS NoPanic OneUnsettled OneSenderPerPair NoSpuriousRedelivery OnlyOwnTopic BlockingReturn BatchOrder AfterClose NoStuckCall Complete

CHECK_DEADLOCK FALSE
