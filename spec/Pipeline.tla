------------------------------ MODULE Pipeline ------------------------------
(* A chain of Router handlers connected by at-least-once topics (GoChannel) --
   property C01: end-to-end at-least-once delivery under handler and publisher
   faults.

   Stage i (1..K) consumes topic i and publishes to topic i+1; topic K+1 is read
   by the sink.  A topic redelivers a message until it is Acked.  Each stage
   handles one message at a time (one unsettled message per subscription, C05):
     take     a pending lineage x of topic i becomes in-flight at stage i
     handle   the handler runs: ok, or a fault (error / panic)        -> Nack
     publish  the output is handed to topic i+1: accepted, or a fault before it
              was accepted (error / panic), or an error reported after it was
              accepted (legal source of duplicates downstream)
     settle   Ack iff handler ok and publish reported success; the lineage leaves
              topic i only then; otherwise Nack: it stays pending (redelivery)
   Faults are drawn from a finite budget.

   MutAckFirst    the stage Acks before it publishes (TLC must find a lost message)
   MutDropOnNack  a Nacked message is not redelivered                            *)
EXTENDS Naturals, FiniteSets, TLC

CONSTANTS K, Lineages, FaultBudget, MutAckFirst, MutDropOnNack

VARIABLES pending,   \* pending[i] : lineages accepted by topic i and not acked yet   (i in 1..K+1)
          fl,        \* fl[i] : [x, phase] in-flight at stage i, or None
          sink, published, budget
pvars == <<pending, fl, sink, published, budget>>
None == [x |-> "none", phase |-> "none"]
Stages == 1..K

PInit == /\ pending = [i \in 1..(K + 1) |-> {}] /\ fl = [i \in Stages |-> None]
         /\ sink = {} /\ published = {} /\ budget = FaultBudget

SourcePublish(x) == /\ x \notin published /\ published' = published \cup {x}
                    /\ pending' = [pending EXCEPT ![1] = @ \cup {x}]
                    /\ UNCHANGED <<fl, sink, budget>>

Take(i, x) == /\ fl[i] = None /\ x \in pending[i]
              /\ fl' = [fl EXCEPT ![i] = [x |-> x, phase |-> "handle"]]
              /\ UNCHANGED <<pending, sink, published, budget>>

Nacked(i) == IF MutDropOnNack THEN [pending EXCEPT ![i] = @ \ {fl[i].x}] ELSE pending

HandleOk(i) == /\ fl[i].phase = "handle"
               /\ IF MutAckFirst THEN pending' = [pending EXCEPT ![i] = @ \ {fl[i].x}] ELSE UNCHANGED pending
               /\ fl' = [fl EXCEPT ![i].phase = "publish"]
               /\ UNCHANGED <<sink, published, budget>>
HandleFault(i) == /\ fl[i].phase = "handle" /\ budget > 0 /\ budget' = budget - 1
                  /\ pending' = Nacked(i) /\ fl' = [fl EXCEPT ![i] = None]
                  /\ UNCHANGED <<sink, published>>
\* the next topic accepted the output and the publisher reported success: Ack
PublishOk(i) == /\ fl[i].phase = "publish"
                /\ pending' = [pending EXCEPT ![i] = @ \ {fl[i].x}, ![i + 1] = @ \cup {fl[i].x}]
                /\ fl' = [fl EXCEPT ![i] = None]
                /\ UNCHANGED <<sink, published, budget>>
\* fault before the next topic accepted anything: Nack, nothing downstream
PublishFaultBefore(i) == /\ fl[i].phase = "publish" /\ budget > 0 /\ budget' = budget - 1
                         /\ pending' = IF MutAckFirst THEN pending ELSE Nacked(i)
                         /\ fl' = [fl EXCEPT ![i] = None]
                         /\ UNCHANGED <<sink, published>>
\* the next topic accepted the output but the publisher reported an error: Nack and a duplicate downstream
PublishFaultAfter(i) == /\ fl[i].phase = "publish" /\ budget > 0 /\ budget' = budget - 1
                        /\ pending' = [(IF MutAckFirst THEN pending ELSE Nacked(i)) EXCEPT ![i + 1] = @ \cup {fl[i].x}]
                        /\ fl' = [fl EXCEPT ![i] = None]
                        /\ UNCHANGED <<sink, published>>
SinkRecv(x) == /\ x \in pending[K + 1] /\ sink' = sink \cup {x}
               /\ pending' = [pending EXCEPT ![K + 1] = @ \ {x}]
               /\ UNCHANGED <<fl, published, budget>>

PNext == \/ \E x \in Lineages : SourcePublish(x) \/ SinkRecv(x)
         \/ \E i \in Stages : (\E x \in Lineages : Take(i, x)) \/ HandleOk(i) \/ HandleFault(i) \/ PublishOk(i)
                               \/ PublishFaultBefore(i) \/ PublishFaultAfter(i)
PSpec == PInit /\ [][PNext]_pvars
PFairSpec == PSpec /\ WF_pvars(PNext)
                   /\ \A i \in Stages : SF_pvars(HandleOk(i)) /\ SF_pvars(PublishOk(i))

-----------------------------------------------------------------------------
Somewhere(x) == x \in sink \/ \E i \in 1..(K + 1) : x \in pending[i]
\* never lost: a published lineage is at the sink or still owed by some topic
NoLoss == \A x \in published : Somewhere(x)
\* everything downstream derives from a message really published at the source
Sound == sink \subseteq published /\ \A i \in 1..(K + 1) : pending[i] \subseteq published
\* a stage gives a message up only in a step in which the next topic holds its output
AckAfterAccept ==
    [][\A i \in Stages : \A x \in Lineages :
          (x \in pending[i] /\ x \notin pending'[i]) => (x \in pending'[i + 1] \/ x \in sink')]_pvars
\* once the faults stop everything reaches the sink
AllArrive == <>[](sink = published /\ published = Lineages)
=============================================================================
