SPECIFICATION FairSpec
CONSTANTS
  Subs = {"s1","s2"}
  K = 1
  Closers = {"c1","c2"}
  LegacyPlainSend = FALSE
  LegacyNoWgLock = FALSE
  MutClosingFirst = FALSE
  MutSharedCtx = FALSE
  MutEarlyReturn = FALSE
  MutCheckThenClose = TRUE
INVARIANTS TypeOK NoDoubleSignal NoAddDuringWait ClosingAfterInner DropJustified InOrderOnce NothingLostSilently OutClosedAfterIn CloseComplete

CHECK_DEADLOCK FALSE
