--------------------------- MODULE MCGoChannelImpl ---------------------------
EXTENDS GoChannelImpl
\* two publishers, one topic, one registered and one late subscription
PubMsg2 == [p \in {"p1", "p2"} |-> IF p = "p1" THEN "m1" ELSE "m2"]
NoRest == [p \in {"p1", "p2"} |-> << >>]
\* one Publish call with two messages (m1, m2), a third message from another publisher
PubMsgB == [p \in {"p1", "p2"} |-> IF p = "p1" THEN "m1" ELSE "m3"]
RestB == [p \in {"p1", "p2"} |-> IF p = "p1" THEN <<"m2">> ELSE << >>]
Topic3 == [m \in {"m1", "m2", "m3"} |-> "t"]
Topic1 == [m \in {"m1", "m2"} |-> "t"]
SubT1 == [s \in {"s1", "s2"} |-> "t"]
NoRepub2 == [s \in {"s1", "s2"} |-> "none"]
\* blocking mode, the consumer of tA republishes to tB before acking, a Subscribe to tB arrives meanwhile
PubMsgR == [p \in {"p1"} |-> "m1"]
TopicR == [m \in {"m1", "m2"} |-> IF m = "m1" THEN "tA" ELSE "tB"]
SubTR == [s \in {"s1", "s2", "s3"} |-> IF s = "s1" THEN "tA" ELSE "tB"]
RepubR == [s \in {"s1", "s2", "s3"} |-> IF s = "s1" THEN "m2" ELSE "none"]
====
