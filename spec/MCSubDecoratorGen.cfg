SPECIFICATION GSpec
CONSTANTS
  Subs = {"s1","s2"}
  K = 2
  Closers = {"c1"}
  LegacyPlainSend = FALSE
  LegacyNoWgLock = FALSE
  MutClosingFirst = FALSE
  MutSharedCtx = FALSE
  MutEarlyReturn = FALSE
  MutCheckThenClose = FALSE
CHECK_DEADLOCK FALSE
