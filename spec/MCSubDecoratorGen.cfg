SPECIFICATION GSpec
CONSTANTS
  Subs = {"s1","s2"}
  K = 2
  LegacyPlainSend = FALSE
  LegacyNoWgLock = FALSE
  MutClosingFirst = FALSE
  MutSharedCtx = FALSE
CHECK_DEADLOCK FALSE
