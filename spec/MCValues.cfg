SPECIFICATION MSpec
CONSTANTS MaxOps = 3
INVARIANTS EmptyValueMatters
PROPERTIES CopyEquals Isolation
CHECK_DEADLOCK FALSE
