SPECIFICATION Spec
CONSTANTS
  Msgs = {"m1","m2"}
  Closers = {c1, c2}
  AllowStop = FALSE
  Watcher = nowatcher
  AllowCtxCancel = FALSE
  AllowTimeout = FALSE
  LegacyConcurrentWaits = FALSE
  LegacyStartedFirst = FALSE
  LegacyHandleClose = TRUE
  LegacySecondCloseNil = FALSE
INVARIANTS Graceful ErrorOnlyOnTimeout NoPanic RunAfterClose SubClosedAtEnd DroppedNotHandled

CHECK_DEADLOCK FALSE
