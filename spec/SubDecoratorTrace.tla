------------------------- MODULE SubDecoratorTrace -------------------------
(* Conformance of SubDecorator.tla with the real MessageTransformSubscriberDecorator: INTERNAL traces
   (verifhook events) plus the harness' own events of randomly scripted runs (two subscriptions
   around a scripted inner subscriber, consumers that may stop reading, cancels, one Close, all
   concurrent) are validated against the model's own actions.

   As in the other *ImplTrace modules every model action is a silent step, and a hook event pins its
   goroutine at the hook site: a goroutine standing on a hook that was not logged yet cannot move.
   Goroutines: "sub:<s>" (the Subscribe call), "pump:<s>" (the forwarding goroutine), "closer:<c>" (a Close call; up to two overlap).
   Harness events (environment actions are logged BEFORE they are made, observations AFTER):
     subcall s / subret s ok      Subscribe called / returned
     emit s                       the inner subscriber is about to hand the next message of s to the decorator
     recv s i                     the consumer of s received message i
     stopread s                   the consumer of s stops receiving, for good
     cancel s                     the context of s is about to be cancelled
     closecall c / closeret c     Close call c
     outclosed s                  the output channel of s was seen closed
     end                          everything has returned                                              *)
EXTENDS SubDecorator, TraceBase

VARIABLES site, allowed, reported, subcalled, closecalled
tvars == <<vars, site, allowed, reported, subcalled, closecalled, l>>
G == {"closer:" \o c : c \in Closers} \cup {"sub:" \o s : s \in Subs} \cup {"pump:" \o s : s \in Subs}
CG(c) == "closer:" \o c
Free(g) == site[g] = ""
Put(g, p) == site' = [site EXCEPT ![g] = p]
Keep == UNCHANGED <<allowed, reported, subcalled, closecalled>>
SG(s) == "sub:" \o s
PG(s) == "pump:" \o s

TSilent ==
  /\ \/ \E s \in Subs :
          \/ s \in subcalled /\ Free(SG(s)) /\ SubInner(s) /\ UNCHANGED site
          \/ Free(SG(s)) /\ SubLock(s) /\ UNCHANGED site
          \/ Free(SG(s)) /\ SubAdd(s) /\ Put(SG(s), "decorator.subscribe.added")
          \/ Free(SG(s)) /\ (SubUnlock(s) \/ SubGo(s)) /\ UNCHANGED site
          \/ Free(PG(s)) /\ InnerSend(s) /\ held'[s] <= allowed[s] /\ Put(PG(s), "decorator.sub.before_out")
          \/ InnerEnd(s) /\ UNCHANGED site
          \/ Free(PG(s)) /\ (PumpSend(s) \/ PumpDrop(s, "closing") \/ PumpDrop(s, "ctx") \/ PumpSeesClosed(s)) /\ UNCHANGED site
          \/ Free(PG(s)) /\ PumpCloseOut(s) /\ Put(PG(s), "decorator.sub.closed")
          \/ Free(PG(s)) /\ PumpDone(s) /\ UNCHANGED site
     \/ \E c \in Closers :
          \/ c \in closecalled /\ Free(CG(c)) /\ (ClStart(c) \/ ClInnerStart(c) \/ ClLock(c) \/ ClUnlock(c)) /\ UNCHANGED site
          \/ Free(CG(c)) /\ ClInnerDone(c) /\ Put(CG(c), "decorator.close.inner_closed")
          \/ Free(CG(c)) /\ ClSignal(c) /\ Put(CG(c), "decorator.close.signalled")
          \/ Free(CG(c)) /\ ClWait(c) /\ Put(CG(c), "decorator.close.waited")
  /\ Keep /\ UNCHANGED l

THook == /\ Is("hook") /\ Ev.g \in G /\ site[Ev.g] = Ev.point /\ Put(Ev.g, "") /\ UNCHANGED vars /\ Keep /\ Adv
TSubCall == Is("subcall") /\ subcalled' = subcalled \cup {Ev.s} /\ UNCHANGED <<vars, site, allowed, reported, closecalled>> /\ Adv
TSubRet == /\ Is("subret") /\ Free(SG(Ev.s)) /\ sub[Ev.s] = (IF Ev.ok THEN "returned" ELSE "failed")
           /\ UNCHANGED <<vars, site>> /\ Keep /\ Adv
TEmit == Is("emit") /\ allowed' = [allowed EXCEPT ![Ev.s] = @ + 1] /\ UNCHANGED <<vars, site, reported, subcalled, closecalled>> /\ Adv
TRecv == /\ Is("recv") /\ reported[Ev.s] < Len(got[Ev.s]) /\ got[Ev.s][reported[Ev.s] + 1] = Ev.i
         /\ reported' = [reported EXCEPT ![Ev.s] = @ + 1] /\ UNCHANGED <<vars, site, allowed, subcalled, closecalled>> /\ Adv
\* the consumer has taken everything that was sent to it before it stops
TStopRead == /\ Is("stopread") /\ reported[Ev.s] = Len(got[Ev.s]) /\ StopReading(Ev.s) /\ UNCHANGED site /\ Keep /\ Adv
TCancel == Is("cancel") /\ CtxCancel(Ev.s) /\ UNCHANGED site /\ Keep /\ Adv
TCloseCall == Is("closecall") /\ Ev.c \in Closers /\ closecalled' = closecalled \cup {Ev.c} /\ UNCHANGED <<vars, site, allowed, reported, subcalled>> /\ Adv
\* when a Close call has returned, the forwarding goroutines it had to wait for are gone and their output channels closed (CloseComplete)
TCloseRet == /\ Is("closeret") /\ cl[Ev.c] = "done" /\ Free(CG(Ev.c))
             /\ \A s \in counted[Ev.c] : pump[s] = "done" /\ outCh[s] = "closed"
             /\ UNCHANGED <<vars, site>> /\ Keep /\ Adv
TOutClosed == Is("outclosed") /\ outCh[Ev.s] = "closed" /\ reported[Ev.s] = Len(got[Ev.s]) /\ UNCHANGED <<vars, site>> /\ Keep /\ Adv
TEnd == Is("end") /\ (\A g \in G : Free(g)) /\ (\A s \in Subs : reported[s] = Len(got[s])) /\ UNCHANGED <<vars, site>> /\ Keep /\ Adv

TInit == /\ Init /\ site = [g \in G |-> ""] /\ allowed = [s \in Subs |-> 0] /\ reported = [s \in Subs |-> 0]
         /\ subcalled = {} /\ closecalled = {} /\ LInit
TReset == /\ Is("reset")
          /\ sub' = [s \in Subs |-> "none"] /\ inCh' = [s \in Subs |-> "none"] /\ left' = [s \in Subs |-> K]
          /\ pump' = [s \in Subs |-> "off"] /\ held' = [s \in Subs |-> 0] /\ outCh' = [s \in Subs |-> "open"]
          /\ got' = [s \in Subs |-> << >>] /\ drops' = [s \in Subs |-> {}] /\ reading' = [s \in Subs |-> TRUE]
          /\ ctxDone' = [s \in Subs |-> FALSE] /\ lastCtx' = None /\ closing' = FALSE /\ wg' = 0 /\ wgLock' = None
          /\ cl' = [c \in Closers |-> "idle"] /\ innerClosing' = FALSE /\ innerClosed' = FALSE /\ counted' = [c \in Closers |-> {}]
          /\ site' = [g \in G |-> ""] /\ allowed' = [s \in Subs |-> 0] /\ reported' = [s \in Subs |-> 0]
          /\ subcalled' = {} /\ closecalled' = {} /\ Adv
TNext == TReset \/ THook \/ TSubCall \/ TSubRet \/ TEmit \/ TRecv \/ TStopRead \/ TCancel \/ TCloseCall \/ TCloseRet \/ TOutClosed \/ TEnd \/ TSilent
TSpec == TInit /\ [][TNext]_tvars
=============================================================================
