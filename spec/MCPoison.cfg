SPECIFICATION MSpec
INVARIANTS AckedImpliesHandledOrPoisoned AtMostOnePoison NoPoisonOnSuccessOrFiltered SettledMatches
CHECK_DEADLOCK FALSE
