----------------------- MODULE RouterLifecycleImplTrace -----------------------
(* Conformance of the implementation-shaped model RouterLifecycle.tla with the real
   Router: INTERNAL traces (verifhook events) of the fixed-shape scenario of the cfg
   (one handler behind the context decorator, messages m1, m2 from a scripted
   subscriber, closers c1, c2) are validated against the model's own actions.

   As in GoChannelImplTrace.tla all model actions are silent and a hook event pins
   its goroutine at the hook site (site[g]); a goroutine standing on an unlogged hook
   cannot move.  Goroutines: "rh" RunHandlers, "pump" the decorator's goroutine,
   "loop" the handler's receive loop, "hc" handleClose, "run" Run, "closer" the Close
   call that signalled, "w" the waiting goroutine of waitForHandlers, and one per
   message (handleMessage).  Harness events: emit m, hstart m / hend m, closecall c /
   closeret c ok, runret.                                                          *)
EXTENDS RouterLifecycle, TraceBase

VARIABLES site, emitted, called
tvars == <<vars, site, emitted, called, l>>
G == {"rh", "pump", "loop", "hc", "run", "closer", "w"} \cup Msgs
Free(g) == site[g] = ""
Put(g, s) == site' = [site EXCEPT ![g] = s]
Put2(g1, s1, g2, s2) == site' = [site EXCEPT ![g1] = s1, ![g2] = s2]
Keep == UNCHANGED <<emitted, called>>

TSilent ==
  /\ \/ Free("rh") /\ RHLock /\ UNCHANGED site
     \/ Free("rh") /\ RHSubscribe /\ Put("rh", "router.runhandlers.started")
     \/ Free("rh") /\ Free("hc") /\ RHSpawn /\ Put("hc", "router.handleclose.before_select")
     \/ Free("pump") /\ PumpRecv /\ (pumpMsg' = None \/ pumpMsg' \in emitted)
        /\ Put("pump", IF pump' = "send" THEN "decorator.sub.before_out" ELSE "decorator.sub.closed")
     \/ Free("pump") /\ Free("loop") /\ PumpSend /\ Put("loop", "router.run.received")
     \/ Free("pump") /\ PumpDrop /\ UNCHANGED site
     \/ Free("loop") /\ LoopAdd /\ Put("loop", "router.run.dispatched")
     \/ Free("loop") /\ (LoopEnd \/ LoopUnreg) /\ UNCHANGED site
     \/ \E m \in Msgs : Free(m) /\ HMStep(m) /\ Put(m, IF hm'[m] = "handling" THEN "router.handle.start" ELSE "")
     \/ Free("hc") /\ (HCSelect \/ HCWaitPump) /\ UNCHANGED site
     \/ Free("run") /\ RunCancel /\ UNCHANGED site
     \/ Free("run") /\ RunReturn /\ Put("run", "router.run.closed_seen")
     \/ \E c \in Closers : c \in called /\ Free("closer") /\ ClLock(c) /\ UNCHANGED site
     \/ \E c \in Closers : c \in called /\ Free("closer") /\ ClStart(c)
                             /\ Put("closer", IF cl'[c] = "waiting" THEN "router.close.signalled" ELSE "")
     \/ Free("w") /\ W1Done /\ Put("w", "router.close.handlers_wait_done")
     \/ Free("w") /\ W2Lock /\ UNCHANGED site
     \/ Free("w") /\ W2Done /\ Put("w", "router.close.running_wait_done")
     \/ \E c \in Closers : Free("closer") /\ Free("w") /\ (ClReturn(c) \/ ClReturnAgain(c)) /\ UNCHANGED site
     \/ UserSkip /\ UNCHANGED site
     \/ SrcCloses /\ UNCHANGED site
  /\ Keep /\ UNCHANGED l

THook == /\ Is("hook") /\ site[Ev.g] = Ev.point /\ Put(Ev.g, "") /\ UNCHANGED vars /\ Keep /\ Adv
\* a Close call on an already closed router waits for the handlers again (second wait goroutine): its hooks
\* only confirm what the first wait established
THookRewait == /\ Is("hook") /\ Ev.g = "w" /\ Free("w")
               /\ \E c \in Closers : cl[c] \in {"rewait", "returned"} /\ c \in called
               /\ IF Ev.point = "router.close.handlers_wait_done" THEN handlersWg = 0 ELSE (handlersWg = 0 /\ runningWg = 0)
               /\ UNCHANGED <<vars, site>> /\ Keep /\ Adv
TEmit == Is("emit") /\ emitted' = emitted \cup {Ev.m} /\ UNCHANGED <<vars, site, called>> /\ Adv
THStart == Is("hstart") /\ hm[Ev.m] = "handling" /\ Free(Ev.m) /\ UNCHANGED <<vars, site>> /\ Keep /\ Adv
THEnd == Is("hend") /\ hm[Ev.m] = "handling" /\ UNCHANGED <<vars, site>> /\ Keep /\ Adv
TCloseCall == Is("closecall") /\ called' = called \cup {Ev.c} /\ UNCHANGED <<vars, site, emitted>> /\ Adv
TCloseRet == Is("closeret") /\ cl[Ev.c] = "returned" /\ clerr[Ev.c] = ~Ev.ok /\ UNCHANGED <<vars, site>> /\ Keep /\ Adv
TRunRet == Is("runret") /\ run = "returned" /\ Free("run") /\ UNCHANGED <<vars, site>> /\ Keep /\ Adv
TEnd == Is("end") /\ (\A g \in G : Free(g)) /\ UNCHANGED <<vars, site>> /\ Keep /\ Adv

TInit == Init /\ site = [g \in G |-> ""] /\ emitted = {} /\ called = {} /\ LInit
TReset == /\ Is("reset")
          /\ srcQ' = Msgs /\ srcClosed' = FALSE /\ pump' = "off" /\ pumpMsg' = None /\ loop' = "off" /\ loopMsg' = None
          /\ hm' = [m \in Msgs |-> "none"] /\ runningWg' = 0 /\ runningMu' = None /\ handlersWg' = 1
          /\ hc' = "off" /\ run' = "start" /\ ctxCancelled' = FALSE /\ closing' = FALSE /\ closedCh' = FALSE
          /\ closed' = FALSE /\ closedMu' = None /\ cl' = [c \in Closers |-> "idle"] /\ clerr' = [c \in Closers |-> FALSE]
          /\ w1' = "off" /\ w2' = "off" /\ tmo' = FALSE /\ subCloseCalled' = FALSE /\ pubClosed' = FALSE /\ rh' = "lock" /\ hlMu' = None /\ stoppedCh' = FALSE
          /\ startedCh' = FALSE /\ stopFnSet' = FALSE /\ user' = "wait_started" /\ userStopped' = FALSE /\ dropped' = {} /\ panicked' = FALSE
          /\ site' = [g \in G |-> ""] /\ emitted' = {} /\ called' = {} /\ Adv
TNext == TReset \/ THook \/ THookRewait \/ TEmit \/ THStart \/ THEnd \/ TCloseCall \/ TCloseRet \/ TRunRet \/ TEnd \/ TSilent
TSpec == TInit /\ [][TNext]_tvars
=============================================================================
