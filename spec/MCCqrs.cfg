SPECIFICATION MSpec
INVARIANTS InvokedOnlyIfMatch GroupOrder UnknownPolicy ErrorPolicy
CHECK_DEADLOCK FALSE
