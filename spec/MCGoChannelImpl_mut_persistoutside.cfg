SPECIFICATION Spec
CONSTANTS
  Blocking = FALSE
  Persistent = TRUE
  Buf = 0
  Pubs = {"p1","p2"}
  PubMsg <- PubMsg2
  Msgs = {"m1","m2"}
  MsgTopic <- Topic1
  Subs = {"s1","s2"}
  SubTopic <- SubT1
  PreSubs = {"s1"}
  Republish <- NoRepub2
  NackBudget = 0
  DoClose = FALSE
  Cancels = {}
  LegacyHoldLocks = FALSE
  LegacyNilLog = FALSE
  PubRest <- NoRest
  MutBatchPersistFirst = FALSE
  MutDropLogEarly = FALSE
  MutTearIsClosed = FALSE
  MutBatchNoWait = FALSE
  MutPersistOutsideLock = TRUE
INVARIANTS NoPanic OneUnsettled OneSenderPerPair NoSpuriousRedelivery OnlyOwnTopic BlockingReturn AfterClose NoStuckCall Complete

CHECK_DEADLOCK FALSE
