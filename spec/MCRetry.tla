------------------------------ MODULE MCRetry ------------------------------
(* Bounded exploration of Retry.tla with abstract time: every placement of
   attempt outcomes, hook calls, a context cancel and the return over a small
   time line.  Mutant switches relax one guard of the model; TLC must then
   violate the corresponding invariant.                                     *)
EXTENDS Retry
CONSTANTS MaxT, MCfg
VARIABLES now, hist       \* hist: outcomes of finished attempts, for the result invariants
mvars == <<yvars, now, hist>>
CfgA == [maxRetries |-> 2, initial |-> 1, maxI |-> 2, mnum |-> 2, mden |-> 1, rfNum |-> 0, rfDen |-> 1, maxElapsed |-> 0, margin |-> 0, slack |-> 0]
CfgB == [maxRetries |-> 3, initial |-> 1, maxI |-> 1, mnum |-> 1, mden |-> 1, rfNum |-> 1, rfDen |-> 2, maxElapsed |-> 3, margin |-> 1, slack |-> 0]

MInit == YInit(MCfg) /\ now = 0 /\ hist = << >>
Tick == now < MaxT /\ now' = now + 1 /\ UNCHANGED <<yvars, hist>>
MNext ==
    \/ Tick
    \/ AttStart(now) /\ UNCHANGED <<now, hist>>
    \/ \E ok \in BOOLEAN : AttEnd(now, ok, IF ok THEN "" ELSE ToString(n), IF ok THEN ToString(n) ELSE "")
                            /\ hist' = Append(hist, ok) /\ UNCHANGED now
    \/ \E w \in 0..3 : Hook(hooks + 1, w) /\ UNCHANGED <<now, hist>>
    \/ Cancel(now) /\ UNCHANGED <<now, hist>>
    \/ \E ok \in BOOLEAN : Return(now, ok, lastErr, lastOuts) /\ UNCHANGED <<now, hist>>
MSpec == MInit /\ [][MNext]_mvars

\* the statement of C12 over the history
NoAttemptAfterSuccess == \A i \in 1..Len(hist) : hist[i] => i = Len(hist)
ResultIsLast == returned => (lastOk = hist[Len(hist)])
FailureOnlyWhenAllFailed == (returned /\ ~lastOk) => \A i \in 1..Len(hist) : ~hist[i]
EarlyExitJustified == (returned /\ ~lastOk /\ Len(hist) < 1 + cfg.maxRetries) => (cancelT >= 0 \/ Deadline >= 0)
=============================================================================
