SPECIFICATION TSpec
CONSTRAINT HighWater
POSTCONDITION Accepted
INVARIANTS OneInflight InflightOwed
CHECK_DEADLOCK FALSE
