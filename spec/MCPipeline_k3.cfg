SPECIFICATION PSpec
CONSTANTS
  K = 3
  Lineages = {"x1","x2"}
  FaultBudget = 2
  MutAckFirst = FALSE
  MutDropOnNack = FALSE
INVARIANTS NoLoss Sound
PROPERTIES AckAfterAccept 
CHECK_DEADLOCK FALSE
