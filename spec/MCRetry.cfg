SPECIFICATION MSpec
CONSTANTS
  MaxT = 7
  MCfg <- CfgA
INVARIANTS AttemptsBounded HooksBounded NoAttemptAfterSuccess ResultIsLast FailureOnlyWhenAllFailed EarlyExitJustified
CHECK_DEADLOCK FALSE
