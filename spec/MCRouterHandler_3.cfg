SPECIFICATION RSpec
CONSTANTS
  Msgs = {"m1","m2","m3"}
  MutAckBeforePublish = FALSE
  MutPublishOnError = FALSE
  MutNoNackOnPubErr = FALSE
INVARIANTS AtMostOnePublish NoPublishAfterError DoneMeansSettled
PROPERTIES AckOnlyAfterPublishOk SettleStable NoSettleBeforePublishReturns OnlyHandlerSettlesEarly FailureNotAckedByRouter
CHECK_DEADLOCK FALSE
