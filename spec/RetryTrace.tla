----------------------------- MODULE RetryTrace -----------------------------
(* Trace validation for C12: the real Retry middleware around a scripted
   handler.  Events (times in microseconds since the call):
     reset cfg
     att_start n t | att_end n t ok err outs | hook k wait | cancel t | ret t ok err outs | leak
   A "leak" (handler invoked after the middleware returned) matches no action. *)
EXTENDS Retry, TraceBase
tvars == <<yvars, l>>
Zero == [maxRetries |-> 1, initial |-> 0, maxI |-> 0, mnum |-> 1, mden |-> 1, rfNum |-> 0, rfDen |-> 1, maxElapsed |-> 0, margin |-> 0, slack |-> 0, retMargin |-> 0]
TInit == YInit(Zero) /\ LInit
TReset == /\ Is("reset") /\ cfg' = Ev.cfg /\ n' = 0 /\ inAtt' = FALSE /\ lastEnd' = 0 /\ lastOk' = FALSE /\ lastErr' = "" /\ lastOuts' = ""
          /\ hooks' = 0 /\ firstFail' = -1 /\ cancelT' = -1 /\ returned' = FALSE /\ Adv
TAttStart == Is("att_start") /\ Ev.n = n + 1 /\ AttStart(Ev.t) /\ Adv
TAttEnd   == Is("att_end") /\ Ev.n = n /\ AttEnd(Ev.t, Ev.ok, Ev.err, Ev.outs) /\ Adv
THook     == Is("hook") /\ Hook(Ev.k, Ev.wait) /\ Adv
TCancel   == Is("cancel") /\ Cancel(Ev.t) /\ Adv
TRet      == /\ Is("ret") /\ Return(Ev.t, Ev.ok, Ev.err, Ev.outs)
             /\ (cancelT >= 0 /\ ~Ev.ok /\ ~Exhausted) => Ev.t <= (IF cancelT > lastEnd THEN cancelT ELSE lastEnd) + cfg.retMargin   \* gives up promptly
             /\ Adv
TNext == TReset \/ TAttStart \/ TAttEnd \/ THook \/ TCancel \/ TRet
TSpec == TInit /\ [][TNext]_tvars
=============================================================================
