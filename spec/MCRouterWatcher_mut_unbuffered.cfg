SPECIFICATION FairSpec
CONSTANTS
  H = {"a","b"}
  AllowUserClose = FALSE
  LegacyUnbufferedSignal = TRUE
  MutSignalBeforeAdd = FALSE
INVARIANTS TypeOK NoEarlyClose NeverEmptyClose
PROPERTIES SelfClose
CHECK_DEADLOCK FALSE
