---- MODULE MCMessageImpl ----
EXTENDS MessageImpl
\* 3 goroutines x 2 calls each, covering Ack/Nack races and concurrent channel probes
ProgA == [g \in Callers |->
            CASE g = "g1" -> <<"Ack", "Nack">>
              [] g = "g2" -> <<"Nack", "Ack">>
              [] g = "g3" -> <<"RdAck", "RdNack">>]
ProgB == [g \in Callers |->
            CASE g = "g1" -> <<"Ack", "Ack">>
              [] g = "g2" -> <<"Nack", "RdAck">>
              [] g = "g3" -> <<"Nack", "RdNack">>]
====
