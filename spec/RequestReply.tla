----------------------------- MODULE RequestReply -----------------------------
(* The listener goroutine of components/requestreply/backend_pubsub.go
   (ListenForNotifications) -- property C18, termination part.

   One request: notifications arrive on the shared reply topic (Own of them carry
   this request's operation id, Foreign ones another request's); the listener
   filters by operation id, acks every notification and hands own replies to the
   caller through replyChan (capacity 1).  The caller reads Reads replies and then
   stops reading; at any time it may cancel (or the context / time-out ends).
   When the context is done the listener must terminate: close replyChan and run
   OnListenForReplyFinished exactly once.

   LegacyBlockingSend = TRUE: the sends to replyChan are plain blocking sends (a
   second reply, or the final time-out reply, blocks for ever once the caller has
   stopped reading).  Repaired design: every send is abandoned when the context is
   done and the final time-out reply is sent only if there is room.             *)
EXTENDS Naturals, Sequences, TLC
CONSTANTS Own, Foreign, Reads, LegacyBlockingSend
VARIABLES lpc, queue, chan, chanClosed, ctxDone, delivered, wrong, finished, readsLeft, acked
qvars == <<lpc, queue, chan, chanClosed, ctxDone, delivered, wrong, finished, readsLeft, acked>>
\* queue: notifications still to arrive ("own" / "foreign"), in any order

QInit == /\ lpc = "select" /\ queue = [own |-> Own, foreign |-> Foreign] /\ chan = << >> /\ chanClosed = FALSE
         /\ ctxDone = FALSE /\ delivered = 0 /\ wrong = 0 /\ finished = 0 /\ readsLeft = Reads /\ acked = 0

Cancel == ~ctxDone /\ ctxDone' = TRUE /\ UNCHANGED <<lpc, queue, chan, chanClosed, delivered, wrong, finished, readsLeft, acked>>
\* select: ctx.Done or a notification (both may be ready: nondeterministic)
SelectNotify(kind) ==
    /\ lpc = "select" /\ queue[kind] > 0
    /\ queue' = [queue EXCEPT ![kind] = @ - 1] /\ acked' = acked + 1
    /\ lpc' = IF kind = "own" THEN "send_reply" ELSE "select"
    /\ UNCHANGED <<chan, chanClosed, ctxDone, delivered, wrong, finished, readsLeft>>
SelectDone == /\ lpc = "select" /\ ctxDone /\ lpc' = "send_timeout"
              /\ UNCHANGED <<queue, chan, chanClosed, ctxDone, delivered, wrong, finished, readsLeft, acked>>
Room == Len(chan) < 1
SendReply == /\ lpc = "send_reply"
             /\ \/ Room /\ chan' = Append(chan, "reply") /\ lpc' = "select"
                \/ ~LegacyBlockingSend /\ ctxDone /\ lpc' = "select" /\ UNCHANGED chan      \* abandoned
             /\ UNCHANGED <<queue, chanClosed, ctxDone, delivered, wrong, finished, readsLeft, acked>>
SendTimeout == /\ lpc = "send_timeout"
               /\ \/ Room /\ chan' = Append(chan, "timeout") /\ lpc' = "cleanup"
                  \/ ~LegacyBlockingSend /\ ~Room /\ lpc' = "cleanup" /\ UNCHANGED chan
               /\ UNCHANGED <<queue, chanClosed, ctxDone, delivered, wrong, finished, readsLeft, acked>>
Cleanup == /\ lpc = "cleanup" /\ chanClosed' = TRUE /\ finished' = finished + 1 /\ lpc' = "done" /\ ctxDone' = TRUE
           /\ UNCHANGED <<queue, chan, delivered, wrong, readsLeft, acked>>
CallerRead == /\ readsLeft > 0 /\ chan # << >>
              /\ chan' = Tail(chan) /\ readsLeft' = readsLeft - 1
              /\ delivered' = delivered + (IF Head(chan) = "reply" THEN 1 ELSE 0)
              /\ UNCHANGED <<lpc, queue, chanClosed, ctxDone, wrong, finished, acked>>
QNext == Cancel \/ SelectNotify("own") \/ SelectNotify("foreign") \/ SelectDone \/ SendReply \/ SendTimeout \/ Cleanup \/ CallerRead
QSpec == QInit /\ [][QNext]_qvars
QFairSpec == QSpec /\ WF_qvars(SelectNotify("own") \/ SelectNotify("foreign") \/ SelectDone \/ SendReply \/ SendTimeout \/ Cleanup)

FinishedAtMostOnce == finished <= 1
OnlyOwnReplies == delivered <= Own
ClosedMeansFinished == chanClosed => finished = 1
\* once the context is done the listener terminates: channel closed, hook ran once
Terminates == [](ctxDone => <>(chanClosed /\ finished = 1))
=============================================================================
