SPECIFICATION FairSpec
CONSTANTS
  Subs = {"s1","s2"}
  K = 2
  Closers = {"c1"}
  LegacyPlainSend = FALSE
  LegacyNoWgLock = FALSE
  MutClosingFirst = TRUE
  MutSharedCtx = FALSE
  MutEarlyReturn = FALSE
  MutCheckThenClose = FALSE
INVARIANTS TypeOK NoDoubleSignal NoAddDuringWait DropJustified InOrderOnce NothingLostSilently OutClosedAfterIn CloseComplete
PROPERTIES CloseReturns CancelCloses
CHECK_DEADLOCK FALSE
