------------------------ MODULE CircuitBreakerTrace ------------------------
(* Trace validation of the CircuitBreaker middleware (extension of C19).  Events:
     reset    cfg                                  fresh breaker
     cbcall   t0 t1 invoked outcome ret            one sequential call (times in microseconds)
     overflow invoked ret                          a call made while maxreq half-open trials are held inside the handler
     (a "panic" escaping unexpectedly, "hung" ... match no action)                                   *)
EXTENDS CircuitBreaker, TraceBase
tvars == <<bvars, l>>
TInit == BInit([trip |-> 1, timeout |-> 0, maxreq |-> 1]) /\ LInit
TReset == Is("reset") /\ cfg' = Ev.cfg /\ st' = "closed" /\ cf' = 0 /\ cs' = 0 /\ openLo' = 0 /\ openHi' = 0 /\ Adv
TCall == Is("cbcall") /\ Call(Ev.t0, Ev.t1, Ev.invoked, Ev.outcome, Ev.ret) /\ Adv
TOver == Is("overflow") /\ Overflow(Ev.invoked, Ev.ret) /\ Adv
TNext == TReset \/ TCall \/ TOver
TSpec == TInit /\ [][TNext]_tvars
=============================================================================
