SPECIFICATION TSpec
CONSTANTS
  Blocking = FALSE
  Persistent = FALSE
  Buf = 0
  Pubs = {"p1","p2"}
  PubMsg <- PubMsg2
  Msgs = {"m1","m2"}
  MsgTopic <- Topic1
  Subs = {"s1","s2"}
  SubTopic <- SubT1
  PreSubs = {}
  Republish <- NoRepub2
  NackBudget = 6
  DoClose = TRUE
  Cancels = {"s1","s2"}
  LegacyHoldLocks = FALSE
  LegacyNilLog = FALSE
  PubRest <- NoRest
  MutBatchPersistFirst = FALSE
  MutDropLogEarly = FALSE
  MutTearIsClosed = FALSE
  MutBatchNoWait = FALSE
  MutPersistOutsideLock = FALSE
CONSTRAINT HighWater
POSTCONDITION Accepted
INVARIANTS NoPanic OneUnsettled OneSenderPerPair
CHECK_DEADLOCK FALSE
