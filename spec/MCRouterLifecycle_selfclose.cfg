SPECIFICATION FairSpec
CONSTANTS
  Msgs = {"m1","m2"}
  Closers = {w}
  AllowStop = TRUE
  Watcher = w
  AllowCtxCancel = TRUE
  AllowTimeout = FALSE
  LegacyConcurrentWaits = FALSE
  LegacyStartedFirst = FALSE
  LegacyHandleClose = FALSE
  MutUnregBeforeDone = FALSE
  MutIsClosedInRunHandlers = FALSE
  MutSkipStoppedWhenClosing = FALSE
  LegacySecondCloseNil = FALSE
INVARIANTS NoStuck Graceful ErrorOnlyOnTimeout NoPanic RunAfterClose DroppedNotHandled
PROPERTIES SelfClose AllReturn StoppedCloses
CHECK_DEADLOCK FALSE
