SPECIFICATION FairSpec
CONSTANTS
  Msgs = {"m1","m2"}
  Closers = {w}
  AllowStop = TRUE
  Watcher = w
  AllowCtxCancel = TRUE
  AllowTimeout = FALSE
  LegacyConcurrentWaits = FALSE
  LegacyStartedFirst = FALSE
  LegacyHandleClose = FALSE
  LegacySecondCloseNil = FALSE
INVARIANTS Graceful ErrorOnlyOnTimeout NoPanic RunAfterClose DroppedNotHandled
PROPERTIES SelfClose AllReturn
CHECK_DEADLOCK FALSE
