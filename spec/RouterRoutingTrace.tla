-------------------------- MODULE RouterRoutingTrace --------------------------
(* Trace validation for C08: a Router with several handlers that may share
   topics, subscribers and publishers.  On top of the per-message protocol of
   RouterHandler.tla the routing rules are checked:

     * the unit of routing is the subscription a handler obtained from its own
       Subscribe call: a message handed out on a subscription is passed to the
       function of a handler with that subscriber and topic, every
       subscription belongs to exactly one handler and every handler to one
       subscription (own is an injective partial map, learned on first use,
       because the order of Subscribe calls of handlers sharing subscriber and
       topic is not observable);
     * the messages returned by the function are handed, intact and in order,
       to that handler's publisher object on that handler's publish topic;
     * inside the handler and on produced messages the context reports the
       handler's name, topics and Pub/Sub type names.

   Events: reset(handlers), emit(m, sub, topic, sp), hstart(m, h, ctx),
   hself, hmw(m, h), hend, pcall(m, pub, topic, outs, intact, sample, octx), pret,
   settled, quiesce  (see RouterHandlerTrace.tla for the common ones).        *)
EXTENDS RouterHandler, TraceBase

VARIABLES H,     \* H[name] = [sub, stopic, pub, ptopic, haspub, subname, pubname]
          own,   \* own[sp] = handler owning subscription sp (learned)
          on,    \* on[m]  = [sub, topic, sp]
          hof,   \* hof[m] = handler that was invoked for m
          mwd    \* messages that went through a handler-level middleware (of their own handler)
tvars == <<rvars, H, own, on, hof, mwd, l>>

Ctx(h) == <<h, H[h].stopic, H[h].ptopic, H[h].subname, H[h].pubname>>

TInit == /\ hp = [m \in Msgs |-> FALSE]
         /\ ph = [m \in Msgs |-> "idle"]
         /\ settle = [m \in Msgs |-> "none"]
         /\ res = [m \in Msgs |-> NoRes]
         /\ pubres = [m \in Msgs |-> "none"]
         /\ calls = [m \in Msgs |-> 0]
         /\ LInit /\ H = << >> /\ own = << >> /\ on = << >> /\ hof = << >> /\ mwd = {}

TReset == /\ Is("reset")
          /\ H' = Ev.handlers
          /\ own' = << >> /\ on' = << >> /\ hof' = << >> /\ mwd' = {}
          /\ hp' = [m \in Msgs |-> FALSE]
          /\ ph' = [m \in Msgs |-> "idle"]
          /\ settle' = [m \in Msgs |-> "none"]
          /\ res' = [m \in Msgs |-> NoRes]
          /\ pubres' = [m \in Msgs |-> "none"]
          /\ calls' = [m \in Msgs |-> 0]
          /\ Adv
KeepCfg == UNCHANGED <<H, hp>>
KeepRoute == UNCHANGED <<own, on, hof, mwd>>

TEmit   == /\ Is("emit") /\ Emit(Ev.m)
           /\ on' = (Ev.m :> [sub |-> Ev.sub, topic |-> Ev.topic, sp |-> Ev.sp]) @@ on
           /\ UNCHANGED <<own, hof, mwd>> /\ KeepCfg /\ Adv

THStart == /\ Is("hstart") /\ HStart(Ev.m)
           /\ Ev.h \in DOMAIN H
           /\ H[Ev.h].sub = on[Ev.m].sub /\ H[Ev.h].stopic = on[Ev.m].topic
           /\ LET sp == on[Ev.m].sp IN
                /\ IF sp \in DOMAIN own THEN own[sp] = Ev.h
                   ELSE \A x \in DOMAIN own : own[x] # Ev.h
                /\ own' = (sp :> Ev.h) @@ own
           /\ Ev.ctx = Ctx(Ev.h)
           /\ hof' = (Ev.m :> Ev.h) @@ hof
           /\ hp' = [hp EXCEPT ![Ev.m] = H[Ev.h].haspub]
           /\ UNCHANGED <<H, on, mwd>> /\ Adv

THSelf  == Is("hself")  /\ HSelf(Ev.m, Ev.kind) /\ KeepCfg /\ KeepRoute /\ Adv
\* settled by the source before it was handed over: routed like any other message
TPreset == Is("preset") /\ PreSettle(Ev.m, Ev.kind) /\ KeepCfg /\ KeepRoute /\ Adv
\* the middleware added to handler h (Handler.AddMiddleware) wraps h's function and no other: it ran (once) for
\* every message of h before the router-level recorder sees the result, and for no message of another handler
THMw    == /\ Is("hmw") /\ ph[Ev.m] = "handling" /\ Ev.m \in DOMAIN hof /\ hof[Ev.m] = Ev.h /\ Ev.m \notin mwd
           /\ mwd' = mwd \cup {Ev.m} /\ UNCHANGED <<rvars, H, own, on, hof>> /\ Adv
THEnd   == Is("hend")   /\ Ev.m \in mwd /\ HEnd(Ev.m, [end |-> Ev.end, outs |-> Ev.outs]) /\ KeepCfg /\ KeepRoute /\ Adv
TPCall  == /\ Is("pcall") /\ Ev.intact /\ PCall(Ev.m, Ev.outs, Ev.sample)
           /\ Ev.pub = H[hof[Ev.m]].pub /\ Ev.topic = H[hof[Ev.m]].ptopic
           /\ \A i \in 1..Len(Ev.octx) : Ev.octx[i] = Ctx(hof[Ev.m])
           /\ KeepCfg /\ KeepRoute /\ Adv
TPRet   == Is("pret")   /\ PRet(Ev.m, Ev.outcome, Ev.sample) /\ KeepCfg /\ KeepRoute /\ Adv
TSettled == /\ Is("settled") /\ settle[Ev.m] = Ev.kind
            /\ UNCHANGED <<rvars, H, own, on, hof, mwd>> /\ Adv
TQuiesce == /\ Is("quiesce")
            /\ \A m \in Msgs : ph[m] \in {"idle", "done"}
            /\ \A i \in 1..Len(Ev.final) : settle[Ev.final[i][1]] = Ev.final[i][2]
            /\ UNCHANGED <<rvars, H, own, on, hof, mwd>> /\ Adv
TSilent == (\E m \in Msgs : Settle(m)) /\ KeepCfg /\ KeepRoute /\ UNCHANGED l

TNext == TReset \/ TEmit \/ THStart \/ THSelf \/ TPreset \/ THMw \/ THEnd \/ TPCall \/ TPRet \/ TSettled \/ TQuiesce \/ TSilent
TSpec == TInit /\ [][TNext]_tvars

\* routing invariant: ownership is injective
OwnInjective == \A a, b \in DOMAIN own : own[a] = own[b] => a = b
=============================================================================
