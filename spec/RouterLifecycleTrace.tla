------------------------- MODULE RouterLifecycleTrace -------------------------
(* Trace validation for C10.  Events: reset | addh h pub | addplugin i ok | plugin i | adddup h panicked | subscribed h ctx | runcall | running | notrunning |
   runret k ok | rhcall i | rhret i ok | started h | stopcall h | stopret h | stopped h |
   probe h ok | cancelrun | closecall | closeret ok | closedseen | quiesce unstopped      (stoppanic / stoppednil match no action) *)
EXTENDS RouterLifecycleAbs, TraceBase
tvars == <<lvars, l>>
TInit == LInit0 /\ LInit
TReset == /\ Is("reset") /\ added' = << >> /\ subs' = << >> /\ atRun' = {} /\ runs' = 0 /\ runRet' = FALSE /\ started' = {}
          /\ stopReq' = {} /\ stopped' = {} /\ ending' = FALSE /\ rhPend' = << >> /\ closedSeen' = FALSE
          /\ cancelled' = FALSE /\ ctxOf' = << >> /\ plugins' = << >> /\ pran' = 0 /\ Adv
TNext == \/ TReset
         \/ Is("addh") /\ AddHandler(Ev.h, Ev.pub) /\ Adv
         \/ Is("addplugin") /\ AddPlugin(Ev.i, Ev.ok) /\ Adv
         \/ Is("plugin") /\ PluginRan(Ev.i) /\ Adv
         \/ Is("adddup") /\ AddDuplicate(Ev.h, Ev.panicked) /\ Adv
         \/ Is("subscribed") /\ Subscribed(Ev.h, Ev.ctx) /\ Adv
         \/ Is("runcall") /\ RunCall /\ Adv
         \/ Is("running") /\ RunningSeen /\ Adv
         \/ Is("notrunning") /\ UNCHANGED lvars /\ Adv
         \/ Is("runret") /\ (IF Ev.k = 1 THEN RunRetFirst(Ev.ok) ELSE RunRetSecond(Ev.ok)) /\ Adv
         \/ Is("rhcall") /\ RHCall(Ev.i) /\ Adv
         \/ Is("rhret") /\ RHRet(Ev.i, Ev.ok) /\ Adv
         \/ Is("started") /\ StartedSeen(Ev.h) /\ Adv
         \/ Is("stopcall") /\ StopCall(Ev.h) /\ Adv
         \/ Is("stopret") /\ UNCHANGED lvars /\ Adv
         \/ Is("stopped") /\ StoppedSeen(Ev.h) /\ Adv
         \/ Is("probe") /\ Probe(Ev.h, Ev.ok) /\ Adv
         \/ Is("cancelrun") /\ CancelRun /\ Adv
         \/ Is("closecall") /\ CloseCall /\ Adv
         \* (Close on a router that never ran waits for handlers that never start and reports its time-out)
         \/ Is("closeret") /\ (Ev.ok \/ runs = 0) /\ UNCHANGED lvars /\ Adv
         \/ Is("closedseen") /\ ClosedSeen /\ Adv
         \/ Is("quiesce") /\ QuiescentL(Ev.unstopped) /\ UNCHANGED lvars /\ Adv
TSpec == TInit /\ [][TNext]_tvars
=============================================================================
