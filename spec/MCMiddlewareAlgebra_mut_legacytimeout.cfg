SPECIFICATION MSpec
CONSTANTS
  LegacyTimeout = TRUE
  MaxChain = 2
INVARIANTS EffectEndsWithCall DeadlineVisibleDuringCall RetryAttemptsUnchanged Transparent RecovererContains RetryHonest
CHECK_DEADLOCK FALSE
