SPECIFICATION DSpec
CONSTANTS
  Callers = {"c1","c2","c3","c4"}
  Keys = {"k1","k2"}
  KeyOf <- KeyOf4
  Window = 2
  MaxTicks = 4
  MutSplitCriticalSection = FALSE
INVARIANTS AtMostOneFirst OnlyOwnKey
CHECK_DEADLOCK FALSE
