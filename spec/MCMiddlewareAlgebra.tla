------------------------ MODULE MCMiddlewareAlgebra ------------------------
(* Exhaustive small-scope check of the algebra: every chain of up to 3
   middlewares (with Retry at any position) x every script of up to 3 handler
   results.  One state per case; the invariants are the statement of C19.     *)
EXTENDS MiddlewareAlgebra, FiniteSets
CONSTANT MaxChain

Names == {"Timeout", "TimeoutZero", "CorrelationID", "Recoverer", "IgnoreErrors", "InstantAck", "Throttle", "CircuitBreaker", "DelayOnError", "Retry", "Duplicator", "RandomFail", "RandomPanic"}
\* middlewares that do not change the error the caller sees
ErrorNeutral == {"Timeout", "CorrelationID", "InstantAck", "Throttle", "CircuitBreaker", "DelayOnError"}
Out(id, corr) == [id |-> id, corr |-> corr]
Res == { [outs |-> << >>, err |-> "nil", panic |-> "none"],
         [outs |-> <<Out("o1", ""), Out("o2", "own")>>, err |-> "nil", panic |-> "none"],
         [outs |-> <<Out("o1", "")>>, err |-> "e1", panic |-> "none"],
         [outs |-> << >>, err |-> "we1", panic |-> "none"],
         [outs |-> << >>, err |-> "e2", panic |-> "none"],
         [outs |-> << >>, err |-> "ce", panic |-> "none"],       \* an error that wraps context.DeadlineExceeded: an error like any other
         [outs |-> << >>, err |-> "nil", panic |-> "value"] }
Chains == UNION {[1..n -> Names] : n \in 0..MaxChain}
Scripts == UNION {[1..n -> Res] : n \in 1..2}
Cfg == [dInit |-> 100, dMax |-> 250, dNum |-> 3, dDen |-> 2, retries |-> 2]

VARIABLES ch, sc
cvars == <<ch, sc>>
MInit == ch \in Chains /\ sc \in Scripts
MNext == UNCHANGED cvars
MSpec == MInit /\ [][MNext]_cvars

Eval(c) == Run(c, 1, Fresh(1, "none", "c0", -1), sc, Cfg)

\* the context is never left cancelled and no deadline outlives the call
EffectEndsWithCall == LET x == Eval(ch) IN x.st.ctx = "live" /\ x.st.dl = FALSE
\* inside every Timeout the handler sees a deadline; without one it does not
DeadlineVisibleDuringCall ==
    LET x == Eval(ch) IN \A j \in 1..Len(x.st.obs) :
        /\ x.st.obs[j].dl = (\E p \in 1..Len(ch) : ch[p] \in {"Timeout", "TimeoutZero"})
        /\ x.st.obs[j].ctx = (IF \E p \in 1..Len(ch) : ch[p] = "TimeoutZero" THEN "cancelled" ELSE "live")   \* Timeout(0): the deadline has passed
\* composing Retry with error-neutral middlewares (inside or outside it) does not change its attempt count
RetryAttemptsUnchanged ==
    (\A p \in 1..Len(ch) : ch[p] \in ErrorNeutral) =>
        /\ Calls(Eval(<<"Retry">> \o ch)) = Calls(Eval(<<"Retry">>))
        /\ Calls(Eval(ch \o <<"Retry">>)) = Calls(Eval(<<"Retry">>))
\* error-neutral chains are transparent for outputs (up to correlation ids) and errors
Transparent ==
    (\A p \in 1..Len(ch) : ch[p] \in ErrorNeutral) =>
        LET x == Eval(ch) y == Eval(<< >>) IN
          /\ x.res.err = y.res.err /\ x.res.panic = y.res.panic
          /\ Len(x.res.outs) = Len(y.res.outs)
          /\ \A j \in 1..Len(x.res.outs) :
                /\ x.res.outs[j].id = y.res.outs[j].id
                /\ (y.res.outs[j].corr # "" => x.res.outs[j].corr = y.res.outs[j].corr)     \* never overwritten
\* nothing escapes a Recoverer that is outermost
RecovererContains == (Len(ch) > 0 /\ ch[1] = "Recoverer") => Eval(ch).res.panic = "none"
\* Retry never turns a failure into success: if it reports success the last attempt succeeded
RetryHonest ==
    (ch = <<"Retry">>) => LET x == Eval(ch) IN
        (x.res.err = "nil" /\ x.res.panic = "none") => ~Failed(sc[Min(Calls(x), Len(sc))])
=============================================================================
