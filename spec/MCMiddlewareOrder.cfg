SPECIFICATION OSpec
CONSTANTS
  Handlers = {"A","B"}
  MaxRegs = 4
  MaxDecs = 2
INVARIANTS NoForeign InOrder
PROPERTIES FixedAtStart CompleteAtStart
CHECK_DEADLOCK FALSE
