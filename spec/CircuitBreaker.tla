--------------------------- MODULE CircuitBreaker ---------------------------
(* The CircuitBreaker middleware (message/router/middleware/circuit_breaker.go, a thin
   wrapper over sony/gobreaker) beyond its closed state -- an extension of the C19 family.

   cfg     [trip, timeout, maxreq]   ReadyToTrip = "trip or more consecutive failures";
                                     Timeout of the open state (microseconds); MaxRequests of half-open
   st      "closed" | "open" | "half"
   cf      consecutive failures (closed state)      cs  consecutive successes (half-open state)
   openLo, openHi   the instant the breaker opened lies in [openLo, openHi] (start / end of the tripping call)

   One sequential call, observed as (t0, t1, invoked, outcome, ret):
     closed     the handler is invoked, its result returned unchanged; a failure (error or panic) counts,
                the trip-th consecutive one opens the breaker
     open       until the timeout has passed the call fails fast with ErrOpenState and the handler is NOT
                invoked; afterwards the next call is the first trial of the half-open state
     half-open  trials are invoked; maxreq consecutive successes close the breaker, any failure re-opens it
   The breaker reads the clock somewhere inside the call, so "still open" is possible iff t0 < openHi + timeout
   and "timeout passed" iff t1 > openLo + timeout -- exact bounds, no tolerance needed.
   Concurrency: while maxreq trials are in flight in the half-open state a further call fails with
   ErrTooManyRequests without invoking the handler (event `overflow`).                                 *)
EXTENDS Naturals, Sequences, TLC

VARIABLES cfg, st, cf, cs, openLo, openHi
bvars == <<cfg, st, cf, cs, openLo, openHi>>

BInit(c) == cfg = c /\ st = "closed" /\ cf = 0 /\ cs = 0 /\ openLo = 0 /\ openHi = 0

Failed(outcome) == outcome \in {"err", "panic"}
RetOf(outcome) == outcome        \* "ok" | "err" | "panic": the middleware hands the handler's result through

\* the handler ran with the given outcome while the breaker was in state s
After(s, t0, t1, outcome) ==
    IF s = "closed"
    THEN IF Failed(outcome)
         THEN IF cf + 1 >= cfg.trip
              THEN st' = "open" /\ openLo' = t0 /\ openHi' = t1 /\ cf' = 0 /\ cs' = 0
              ELSE st' = "closed" /\ cf' = cf + 1 /\ UNCHANGED <<cs, openLo, openHi>>
         ELSE st' = "closed" /\ cf' = 0 /\ UNCHANGED <<cs, openLo, openHi>>
    ELSE \* half-open trial
         IF Failed(outcome)
         THEN st' = "open" /\ openLo' = t0 /\ openHi' = t1 /\ cf' = 0 /\ cs' = 0
         ELSE IF cs + 1 >= cfg.maxreq
              THEN st' = "closed" /\ cf' = 0 /\ cs' = 0 /\ UNCHANGED <<openLo, openHi>>
              ELSE st' = "half" /\ cs' = cs + 1 /\ UNCHANGED <<cf, openLo, openHi>>

Call(t0, t1, invoked, outcome, ret) ==
    /\ UNCHANGED cfg
    /\ \/ /\ st = "closed" /\ invoked /\ ret = RetOf(outcome) /\ After("closed", t0, t1, outcome)
       \/ /\ st = "open" /\ t0 < openHi + cfg.timeout                 \* may still be open: fail fast
          /\ ~invoked /\ ret = "open" /\ UNCHANGED <<st, cf, cs, openLo, openHi>>
       \/ /\ st = "open" /\ t1 > openLo + cfg.timeout                 \* the timeout may have passed: first trial
          /\ invoked /\ ret = RetOf(outcome) /\ After("half", t0, t1, outcome)        \* (cs = 0 since the breaker opened)
       \/ /\ st = "half" /\ invoked /\ ret = RetOf(outcome) /\ After("half", t0, t1, outcome)

\* maxreq trials are in flight (the harness holds them inside the handler): a further call is refused
Overflow(invoked, ret) == ~invoked /\ ret = "toomany" /\ UNCHANGED bvars
=============================================================================
