--------------------------- MODULE RouterLifecycle ---------------------------
(* Implementation-shaped model of the Router's start-up and shutdown paths
   (message/router.go: Run, RunHandlers, handler.run, handleClose, handleMessage,
   Close, waitForHandlers) for ONE handler behind the context decorator
   (message/decorator.go) -- properties C06 and C10.

   Processes and their program counters
     rh     RunHandlers (inside Run): subscribe, mark started, set stopFn, spawn
     run    Run: wait for the close signal, cancel the context, wait for closedCh
     pump   the subscriber decorator's goroutine: recv from the source, send to the loop
     loop   handler.run: receive, runningHandlersWg.Add(1), spawn handleMessage; on
            channel close: close the publisher, handlersWg.Done()
     hm[m]  handleMessage of m: "start" -> "handling" -> "done" (settled, Wg.Done)
     hc     handleClose: two-way select between the router's close signal and ctx.Done
     cl[c]  Close callers; w1 / w2 the two waits inside waitForHandlers; tmo the timer
     user   a user goroutine that calls Handler.Stop() as soon as Started() is closed
     Watcher (a member of Closers) is watchAllHandlersStopped: once every handler loop has
            ended it calls Close unless the router is closed already (self-close)

   Design switches (TRUE = defective legacy design; TLC must reject it)
     LegacyConcurrentWaits  the two waits of waitForHandlers run concurrently: the wait
                            for running invocations can finish before the loop's last Add(1)
     LegacyStartedFirst     Started() is closed before stopFn / stopped are assigned
     LegacyHandleClose      when ctx.Done wins the select the subscriber is not closed
                            although the router is closing
     LegacySecondCloseNil   a Close call on an already closed router returns nil at once, also
                            when the first call timed out and invocations are still running
     MutUnregBeforeDone     the ending handler goroutine takes handlersLock (to leave the handler map) BEFORE it
                            reports handlersWg.Done(): Close holds that lock while it waits for the group -- dead-lock
     MutIsClosedInRunHandlers  RunHandlers asks IsClosed() (closedLock) while it holds handlersLock: lock order inverted
                            with respect to Close (closedLock, then handlersLock) -- dead-lock
     MutSkipStoppedWhenClosing  the ending handler goroutine returns early when the router is closing and never
                            closes Stopped()

   Locks: closedLock (closedMu) and handlersLock (hlMu).  Close takes closedLock, then handlersLock, and keeps both until
   it returns; RunHandlers holds handlersLock while it subscribes and starts the handlers; the handler goroutine reports
   handlersWg.Done() first and takes handlersLock afterwards (to leave the map), then closes Stopped().
   Close calls are made once the router has begun to start its handlers (rh # "lock").                                *)
EXTENDS Naturals, Sequences, FiniteSets, TLC

CONSTANTS Msgs, Closers, AllowStop, AllowTimeout,
          Watcher,        \* the closer that models watchAllHandlersStopped (calls Close when all handlers ended), or a value outside Closers
          AllowCtxCancel, \* the context given to Run may be cancelled by the user
          LegacyConcurrentWaits, LegacyStartedFirst, LegacyHandleClose, LegacySecondCloseNil,
          MutUnregBeforeDone, MutIsClosedInRunHandlers, MutSkipStoppedWhenClosing

VARIABLES srcQ, srcClosed, pump, pumpMsg, loop, loopMsg, hm, runningWg, runningMu, handlersWg,
          hc, run, ctxCancelled, closing, closedCh, closed, closedMu, cl, clerr, w1, w2, tmo,
          subCloseCalled, pubClosed, rh, startedCh, stopFnSet, user, userStopped, dropped, panicked,
          hlMu,        \* holder of handlersLock: None | "rh" | a closer | (the handler goroutine takes and releases it in one step)
          stoppedCh    \* the handler's Stopped() channel is closed
vars == <<srcQ, srcClosed, pump, pumpMsg, loop, loopMsg, hm, runningWg, runningMu, handlersWg,
          hc, run, ctxCancelled, closing, closedCh, closed, closedMu, cl, clerr, w1, w2, tmo,
          subCloseCalled, pubClosed, rh, startedCh, stopFnSet, user, userStopped, dropped, panicked, hlMu, stoppedCh>>
None == "none"

Init == /\ srcQ = Msgs /\ srcClosed = FALSE /\ pump = "off" /\ pumpMsg = None /\ loop = "off" /\ loopMsg = None
        /\ hm = [m \in Msgs |-> "none"] /\ runningWg = 0 /\ runningMu = None /\ handlersWg = 1
        /\ hc = "off" /\ run = "start" /\ ctxCancelled = FALSE /\ closing = FALSE /\ closedCh = FALSE
        /\ closed = FALSE /\ closedMu = None /\ cl = [c \in Closers |-> "idle"] /\ clerr = [c \in Closers |-> FALSE]
        /\ w1 = "off" /\ w2 = "off" /\ tmo = FALSE
        /\ subCloseCalled = FALSE /\ pubClosed = FALSE /\ rh = "lock" /\ startedCh = FALSE /\ stopFnSet = FALSE
        /\ hlMu = None /\ stoppedCh = FALSE
        /\ user = "wait_started" /\ userStopped = FALSE /\ dropped = {} /\ panicked = FALSE
U(v) == UNCHANGED v

\* ---- RunHandlers: subscribe, close(startedCh), stopFn/stopped, spawn loop + handleClose
RHLock == /\ rh = "lock" /\ run = "start" /\ hlMu = None /\ hlMu' = "rh" /\ rh' = "subscribe"
          /\ U(<<srcQ, srcClosed, pump, pumpMsg, loop, loopMsg, hm, runningWg, runningMu, handlersWg, hc, run, ctxCancelled, closing, closedCh, closed, closedMu, cl, clerr, w1, w2, tmo, subCloseCalled, pubClosed, startedCh, stopFnSet, user, userStopped, dropped, panicked, stoppedCh>>)
RHSubscribe == /\ rh = "subscribe" /\ run = "start"
               /\ MutIsClosedInRunHandlers => closedMu = None          \* IsClosed(): closedLock taken and released
               /\ IF LegacyStartedFirst THEN startedCh' = TRUE /\ U(stopFnSet) /\ rh' = "after_started"
                  ELSE stopFnSet' = TRUE /\ startedCh' = TRUE /\ rh' = "spawn"
               /\ pump' = "recv"
               /\ U(<<srcQ, srcClosed, pumpMsg, loop, loopMsg, hm, runningWg, runningMu, handlersWg, hc, run, ctxCancelled, closing, closedCh, closed, closedMu, cl, clerr, w1, w2, tmo, subCloseCalled, pubClosed, user, userStopped, dropped, panicked, hlMu, stoppedCh>>)
RHAfterStarted == /\ rh = "after_started" /\ stopFnSet' = TRUE /\ rh' = "spawn"
               /\ U(<<srcQ, srcClosed, pump, pumpMsg, loop, loopMsg, hm, runningWg, runningMu, handlersWg, hc, run, ctxCancelled, closing, closedCh, closed, closedMu, cl, clerr, w1, w2, tmo, subCloseCalled, pubClosed, startedCh, user, userStopped, dropped, panicked, hlMu, stoppedCh>>)
RHSpawn == /\ rh = "spawn" /\ rh' = "done" /\ loop' = "recv" /\ hc' = "before_select" /\ run' = "wait_closing" /\ hlMu' = None
           /\ U(<<srcQ, srcClosed, pump, pumpMsg, loopMsg, hm, runningWg, runningMu, handlersWg, ctxCancelled, closing, closedCh, closed, closedMu, cl, clerr, w1, w2, tmo, subCloseCalled, pubClosed, startedCh, stopFnSet, user, userStopped, dropped, panicked, stoppedCh>>)

\* ---- a user calling Stop() the moment Started() is closed (nil stopFn => panic)
UserStop == /\ AllowStop /\ user = "wait_started" /\ startedCh
            /\ IF stopFnSet THEN ctxCancelled' = TRUE /\ userStopped' = TRUE /\ U(<<panicked, srcClosed>>)
                            ELSE panicked' = TRUE /\ U(<<ctxCancelled, srcClosed, userStopped>>)
            /\ user' = "done"
            /\ U(<<srcQ, pump, pumpMsg, loop, loopMsg, hm, runningWg, runningMu, handlersWg, hc, run, closing, closedCh, closed, closedMu, cl, clerr, w1, w2, tmo, subCloseCalled, pubClosed, rh, startedCh, stopFnSet, dropped, hlMu, stoppedCh>>)
UserSkip == /\ user = "wait_started" /\ user' = "done"
            /\ U(<<srcQ, srcClosed, pump, pumpMsg, loop, loopMsg, hm, runningWg, runningMu, handlersWg, hc, run, ctxCancelled, closing, closedCh, closed, closedMu, cl, clerr, w1, w2, tmo, subCloseCalled, pubClosed, rh, startedCh, stopFnSet, userStopped, dropped, panicked, hlMu, stoppedCh>>)

\* ---- the user cancels the context given to Run: every handler's subscription ends
RunCtxCancel == /\ AllowCtxCancel /\ rh = "done" /\ ~ctxCancelled /\ ctxCancelled' = TRUE /\ userStopped' = TRUE
                /\ U(<<srcQ, srcClosed, pump, pumpMsg, loop, loopMsg, hm, runningWg, runningMu, handlersWg, hc, run, closing, closedCh, closed, closedMu, cl, clerr, w1, w2, tmo, subCloseCalled, pubClosed, rh, startedCh, stopFnSet, user, dropped, panicked, hlMu, stoppedCh>>)

\* ---- the source notices that its subscription context has ended and closes its channel -- a step of its own: a message
\*      it was already handing over can still be received after the context was cancelled
SrcCloses == /\ ctxCancelled /\ ~srcClosed /\ srcClosed' = TRUE
             /\ U(<<srcQ, pump, pumpMsg, loop, loopMsg, hm, runningWg, runningMu, handlersWg, hc, run, ctxCancelled, closing, closedCh, closed, closedMu, cl, clerr, w1, w2, tmo, subCloseCalled, pubClosed, rh, startedCh, stopFnSet, user, userStopped, dropped, panicked, hlMu, stoppedCh>>)

\* ---- subscriber decorator pump: recv from the source; send to the loop, or give the message
\*      up when the decorator is closing / the subscription context is done
PumpRecv == /\ pump = "recv"
            /\ \/ \E m \in srcQ : ~srcClosed /\ srcQ' = srcQ \ {m} /\ pumpMsg' = m /\ pump' = "send"
               \/ srcClosed /\ pump' = "done" /\ U(<<srcQ, pumpMsg, hlMu, stoppedCh>>)
            /\ U(<<srcClosed, loop, loopMsg, hm, runningWg, runningMu, handlersWg, hc, run, ctxCancelled, closing, closedCh, closed, closedMu, cl, clerr, w1, w2, tmo, subCloseCalled, pubClosed, rh, startedCh, stopFnSet, user, userStopped, dropped, panicked, hlMu, stoppedCh>>)
PumpSend == /\ pump = "send" /\ loop = "recv" /\ loopMsg' = pumpMsg /\ loop' = "received" /\ pumpMsg' = None /\ pump' = "recv"
            /\ U(<<srcQ, srcClosed, hm, runningWg, runningMu, handlersWg, hc, run, ctxCancelled, closing, closedCh, closed, closedMu, cl, clerr, w1, w2, tmo, subCloseCalled, pubClosed, rh, startedCh, stopFnSet, user, userStopped, dropped, panicked, hlMu, stoppedCh>>)
PumpDrop == /\ pump = "send" /\ (ctxCancelled \/ subCloseCalled)
            /\ dropped' = dropped \cup {pumpMsg} /\ pumpMsg' = None /\ pump' = "recv"
            /\ U(<<srcQ, srcClosed, loop, loopMsg, hm, runningWg, runningMu, handlersWg, hc, run, ctxCancelled, closing, closedCh, closed, closedMu, cl, clerr, w1, w2, tmo, subCloseCalled, pubClosed, rh, startedCh, stopFnSet, user, userStopped, panicked, hlMu, stoppedCh>>)

\* ---- handler loop
LoopAdd == /\ loop = "received" /\ runningMu = None /\ runningWg' = runningWg + 1
           /\ hm' = [hm EXCEPT ![loopMsg] = "start"] /\ loopMsg' = None /\ loop' = "recv"
           /\ U(<<srcQ, srcClosed, pump, pumpMsg, runningMu, handlersWg, hc, run, ctxCancelled, closing, closedCh, closed, closedMu, cl, clerr, w1, w2, tmo, subCloseCalled, pubClosed, rh, startedCh, stopFnSet, user, userStopped, dropped, panicked, hlMu, stoppedCh>>)
LoopEnd == /\ loop = "recv" /\ pump = "done" /\ loop' = "unreg" /\ pubClosed' = TRUE /\ handlersWg' = handlersWg - 1
           /\ MutUnregBeforeDone => hlMu = None          \* (defective order: the lock is needed before Done is reported)
           /\ U(<<srcQ, srcClosed, pump, pumpMsg, loopMsg, hm, runningWg, runningMu, hc, run, ctxCancelled, closing, closedCh, closed, closedMu, cl, clerr, w1, w2, tmo, subCloseCalled, rh, startedCh, stopFnSet, user, userStopped, dropped, panicked, hlMu, stoppedCh>>)
\* handlersLock.Lock(); delete(r.handlers, name); Unlock(); close(h.stopped)   -- no blocking operation in between
LoopUnreg == /\ loop = "unreg" /\ hlMu = None /\ loop' = "done"
             /\ stoppedCh' = ~(MutSkipStoppedWhenClosing /\ closing)
             /\ U(<<srcQ, srcClosed, pump, pumpMsg, loopMsg, hm, runningWg, runningMu, handlersWg, hc, run, ctxCancelled, closing, closedCh, closed, closedMu, cl, clerr, w1, w2, tmo, subCloseCalled, pubClosed, rh, startedCh, stopFnSet, user, userStopped, dropped, panicked, hlMu>>)
HMStep(m) == /\ hm[m] \in {"start", "handling"}
             /\ IF hm[m] = "start" THEN hm' = [hm EXCEPT ![m] = "handling"] /\ U(runningWg)
                ELSE hm' = [hm EXCEPT ![m] = "done"] /\ runningWg' = runningWg - 1
             /\ U(<<srcQ, srcClosed, pump, pumpMsg, loop, loopMsg, runningMu, handlersWg, hc, run, ctxCancelled, closing, closedCh, closed, closedMu, cl, clerr, w1, w2, tmo, subCloseCalled, pubClosed, rh, startedCh, stopFnSet, user, userStopped, dropped, panicked, hlMu, stoppedCh>>)

\* ---- handleClose: select { routersCloseCh: close subscriber ; ctx.Done: (repaired: close it too if the router is closing) } ; stopFn()
HCSelect == /\ hc = "before_select"
            /\ \/ closing /\ hc' = "subclose" /\ subCloseCalled' = TRUE /\ srcClosed' = TRUE
               \/ ctxCancelled /\ (IF ~LegacyHandleClose /\ closing THEN hc' = "subclose" /\ subCloseCalled' = TRUE /\ srcClosed' = TRUE
                                   ELSE hc' = "done" /\ U(<<subCloseCalled, srcClosed, hlMu, stoppedCh>>))
            /\ U(<<srcQ, pump, pumpMsg, loop, loopMsg, hm, runningWg, runningMu, handlersWg, run, ctxCancelled, closing, closedCh, closed, closedMu, cl, clerr, w1, w2, tmo, pubClosed, rh, startedCh, stopFnSet, user, userStopped, dropped, panicked, hlMu, stoppedCh>>)
\* subscriber.Close() returns when the decorator's pump has finished; then stopFn()
HCWaitPump == /\ hc = "subclose" /\ pump = "done" /\ hc' = "done" /\ ctxCancelled' = TRUE
            /\ U(<<srcQ, srcClosed, pump, pumpMsg, loop, loopMsg, hm, runningWg, runningMu, handlersWg, run, closing, closedCh, closed, closedMu, cl, clerr, w1, w2, tmo, subCloseCalled, pubClosed, rh, startedCh, stopFnSet, user, userStopped, dropped, panicked, hlMu, stoppedCh>>)

\* ---- Run: <-closingInProgressCh ; cancel() ; <-closedCh ; return nil
RunCancel == /\ run = "wait_closing" /\ closing /\ run' = "wait_closed" /\ ctxCancelled' = TRUE
             /\ U(<<srcQ, srcClosed, pump, pumpMsg, loop, loopMsg, hm, runningWg, runningMu, handlersWg, hc, closing, closedCh, closed, closedMu, cl, clerr, w1, w2, tmo, subCloseCalled, pubClosed, rh, startedCh, stopFnSet, user, userStopped, dropped, panicked, hlMu, stoppedCh>>)
RunReturn == /\ run = "wait_closed" /\ closedCh /\ run' = "returned"
             /\ U(<<srcQ, srcClosed, pump, pumpMsg, loop, loopMsg, hm, runningWg, runningMu, handlersWg, hc, ctxCancelled, closing, closedCh, closed, closedMu, cl, clerr, w1, w2, tmo, subCloseCalled, pubClosed, rh, startedCh, stopFnSet, user, userStopped, dropped, panicked, hlMu, stoppedCh>>)

\* ---- Close callers (after the router runs): closedLock; closed? ; close(closingInProgressCh) ; waitForHandlers ; close(closedCh)
ClLock(c) == /\ cl[c] = "idle" /\ rh # "lock" /\ closedMu = None
             /\ c = Watcher => handlersWg = 0
             /\ closedMu' = c /\ cl' = [cl EXCEPT ![c] = "locked"]
             /\ U(<<srcQ, srcClosed, pump, pumpMsg, loop, loopMsg, hm, runningWg, runningMu, handlersWg, hc, run, ctxCancelled, closing, closedCh, closed, clerr, w1, w2, tmo, subCloseCalled, pubClosed, rh, startedCh, stopFnSet, user, userStopped, dropped, panicked, hlMu, stoppedCh>>)
ClStart(c) == /\ cl[c] = "locked" /\ hlMu = None
              /\ IF closed
                 THEN IF LegacySecondCloseNil
                      THEN cl' = [cl EXCEPT ![c] = "returned"] /\ closedMu' = None /\ U(<<hlMu, closed, closing, w1, w2>>)
                      ELSE cl' = [cl EXCEPT ![c] = "rewait"] /\ hlMu' = c /\ U(<<closedMu, closed, closing, w1, w2>>)
                 ELSE /\ hlMu' = c /\ closed' = TRUE /\ closing' = TRUE /\ cl' = [cl EXCEPT ![c] = "waiting"] /\ U(closedMu)
                      /\ w1' = "wait" /\ w2' = IF LegacyConcurrentWaits THEN "lock" ELSE "off"
              /\ U(<<srcQ, srcClosed, pump, pumpMsg, loop, loopMsg, hm, runningWg, runningMu, handlersWg, hc, run, ctxCancelled, closedCh, clerr, tmo, subCloseCalled, pubClosed, rh, startedCh, stopFnSet, user, userStopped, dropped, panicked, stoppedCh>>)
W1Done == /\ w1 = "wait" /\ handlersWg = 0 /\ w1' = "done" /\ w2' = IF LegacyConcurrentWaits THEN w2 ELSE "lock"
          /\ U(<<srcQ, srcClosed, pump, pumpMsg, loop, loopMsg, hm, runningWg, runningMu, handlersWg, hc, run, ctxCancelled, closing, closedCh, closed, closedMu, cl, clerr, tmo, subCloseCalled, pubClosed, rh, startedCh, stopFnSet, user, userStopped, dropped, panicked, hlMu, stoppedCh>>)
W2Lock == /\ w2 = "lock" /\ runningMu = None /\ runningMu' = "w2" /\ w2' = "wait"
          /\ U(<<srcQ, srcClosed, pump, pumpMsg, loop, loopMsg, hm, runningWg, handlersWg, hc, run, ctxCancelled, closing, closedCh, closed, closedMu, cl, clerr, w1, tmo, subCloseCalled, pubClosed, rh, startedCh, stopFnSet, user, userStopped, dropped, panicked, hlMu, stoppedCh>>)
W2Done == /\ w2 = "wait" /\ runningWg = 0 /\ runningMu' = None /\ w2' = "done"
          /\ U(<<srcQ, srcClosed, pump, pumpMsg, loop, loopMsg, hm, runningWg, handlersWg, hc, run, ctxCancelled, closing, closedCh, closed, closedMu, cl, clerr, w1, tmo, subCloseCalled, pubClosed, rh, startedCh, stopFnSet, user, userStopped, dropped, panicked, hlMu, stoppedCh>>)
\* CloseTimeout fires while the waits are incomplete
Timeout == /\ AllowTimeout /\ ~tmo /\ \E c \in Closers : cl[c] = "waiting" /\ ~(w1 = "done" /\ w2 = "done") /\ tmo' = TRUE
           /\ U(<<srcQ, srcClosed, pump, pumpMsg, loop, loopMsg, hm, runningWg, runningMu, handlersWg, hc, run, ctxCancelled, closing, closedCh, closed, closedMu, cl, clerr, w1, w2, subCloseCalled, pubClosed, rh, startedCh, stopFnSet, user, userStopped, dropped, panicked, hlMu, stoppedCh>>)
ClReturn(c) == /\ cl[c] = "waiting" /\ ((w1 = "done" /\ w2 = "done") \/ tmo) /\ closedCh' = TRUE /\ closedMu' = None /\ hlMu' = None
               /\ cl' = [cl EXCEPT ![c] = "returned"] /\ clerr' = [clerr EXCEPT ![c] = ~(w1 = "done" /\ w2 = "done")]
               /\ U(<<srcQ, srcClosed, pump, pumpMsg, loop, loopMsg, hm, runningWg, runningMu, handlersWg, hc, run, ctxCancelled, closing, closed, w1, w2, tmo, subCloseCalled, pubClosed, rh, startedCh, stopFnSet, user, userStopped, dropped, panicked, stoppedCh>>)

\* a Close call on an already closed router waits for the handlers again (with the time-out)
ClReturnAgain(c) == /\ cl[c] = "rewait"
                    /\ \/ (w1 = "done" /\ w2 = "done") /\ clerr' = clerr
                       \/ (AllowTimeout /\ ~(w1 = "done" /\ w2 = "done")) /\ clerr' = [clerr EXCEPT ![c] = TRUE]
                    /\ cl' = [cl EXCEPT ![c] = "returned"] /\ closedMu' = None /\ hlMu' = None
                    /\ U(<<srcQ, srcClosed, pump, pumpMsg, loop, loopMsg, hm, runningWg, runningMu, handlersWg, hc, run, ctxCancelled, closing, closedCh, closed, w1, w2, tmo, subCloseCalled, pubClosed, rh, startedCh, stopFnSet, user, userStopped, dropped, panicked, stoppedCh>>)

Next == RunCtxCancel \/ SrcCloses \/ RHLock \/ RHSubscribe \/ RHAfterStarted \/ RHSpawn \/ UserStop \/ UserSkip \/ PumpRecv \/ PumpSend \/ PumpDrop \/ LoopAdd \/ LoopEnd \/ LoopUnreg
        \/ (\E m \in Msgs : HMStep(m)) \/ HCSelect \/ HCWaitPump \/ RunCancel \/ RunReturn
        \/ (\E c \in Closers : ClLock(c) \/ ClStart(c) \/ ClReturn(c) \/ ClReturnAgain(c)) \/ W1Done \/ W2Lock \/ W2Done \/ Timeout
Spec == Init /\ [][Next]_vars
FairSpec == Spec /\ WF_vars(Next)

-----------------------------------------------------------------------------
NilReturned == \E c \in Closers : cl[c] = "returned" /\ ~clerr[c]
\* C06: Close returned nil => no handler invocation in progress and none can start: every message is done, or never handled
Graceful == NilReturned => \A m \in Msgs : hm[m] \in {"none", "done"} /\ loop # "received"
\* an error is returned only when invocations really outlived the timeout
ErrorOnlyOnTimeout == \A c \in Closers : clerr[c] => AllowTimeout
\* C10: once Started() is closed, Stop() is usable
NoPanic == ~panicked
\* Run returns only after the close has completed
RunAfterClose == run = "returned" => closedCh
\* the handler's subscriber and publisher are closed at the end of an explicit Close (not when the user stopped the handler first)
SubClosedAtEnd == (~ENABLED Next /\ NilReturned /\ ~userStopped) => (subCloseCalled /\ pubClosed)
\* dropped messages were never handled
DroppedNotHandled == \A m \in dropped : hm[m] = "none"
AllReturn == <>(\A c \in Closers \ {Watcher} : cl[c] = "returned")
\* C10: when the last handler ended (user Stop) or the Run context was cancelled the router closes itself and Run returns
SelfClose == (userStopped /\ Watcher \in Closers) ~> (run = "returned" /\ closed)
RunReturns == <>(run = "returned")
\* C10: Stopped() of a handler whose loop has ended is closed (eventually: the goroutine needs handlersLock for a moment)
StoppedCloses == (loop = "unreg") ~> stoppedCh
\* no dead-lock: some step is possible while a Close call is pending
NoStuck == ~(~ENABLED Next /\ \E c \in Closers : cl[c] \in {"locked", "waiting", "rewait"})
=============================================================================
