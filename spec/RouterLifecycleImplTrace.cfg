SPECIFICATION TSpec
CONSTANTS
  Msgs = {"m1","m2"}
  Closers = {"c1","c2"}
  AllowStop = FALSE
  Watcher = "nowatcher"
  AllowCtxCancel = FALSE
  AllowTimeout = FALSE
  LegacyConcurrentWaits = FALSE
  LegacyStartedFirst = FALSE
  LegacyHandleClose = FALSE
  MutUnregBeforeDone = FALSE
  MutIsClosedInRunHandlers = FALSE
  MutSkipStoppedWhenClosing = FALSE
  LegacySecondCloseNil = FALSE
CONSTRAINT HighWater
POSTCONDITION Accepted
INVARIANTS Graceful NoPanic RunAfterClose DroppedNotHandled
CHECK_DEADLOCK FALSE
